"""Tables the crate consults, extracted from MIR by abstract interpretation per enum variant."""
from absint import Interp, tabulate, UNK, C, ADT, is_const
from mirlib import DSP, path_endswith, resolve_place, op_place, callee_matches, is_local

OPERATOR = 'operator::Operator'
TOKEN = 'token::Token'
PARTIAL = 'token::PartialToken'
VALUE = 'value::Value'

BINARY = ['Add', 'Sub', 'Mul', 'Div', 'Mod', 'Exp', 'Eq', 'Neq', 'Gt', 'Lt', 'Geq', 'Leq', 'And', 'Or']
ASSIGN = ['Assign', 'AddAssign', 'SubAssign', 'MulAssign', 'DivAssign', 'ModAssign', 'ExpAssign', 'AndAssign', 'OrAssign']
PREFIX = ['Neg', 'Not']
SEQUENCE = ['Tuple', 'Chain']
LEAF = ['Const', 'VariableIdentifierWrite', 'VariableIdentifierRead']


def fmt_eff(e):
    from absint import fmt
    return '%s(%s)' % (e[0], ', '.join(fmt(a) for a in e[2]))


class TableError(Exception):
    pass


def _const(v):
    if v[0] == 'c':
        return v[1]
    raise TableError('non-constant table entry %r' % (v,))


def _opt(v):
    """Option<usize> abstract value -> int | None"""
    if v[0] == 'adt' and path_endswith(v[1], 'option::Option'):
        if v[3] == 'None':
            return None
        return _const(v[4][0])
    raise TableError('not an Option constant: %r' % (v,))


def operator_fn(prog, name):
    f = prog.fn('operator::Operator::<NumericTypes>::' + name)
    if f is None:
        raise TableError('operator::Operator::%s not found' % name)
    return f


def operator_table(prog, name, conv=_const):
    f = operator_fn(prog, name)
    names = prog.variants(OPERATOR)
    t = tabulate(prog, f, OPERATOR)
    out = {}
    for idx, (val, _eff) in t.items():
        try:
            out[names[idx]] = conv(val)
        except TableError as e:
            raise TableError('%s(%s): %s' % (name, names[idx], e))
    return out


def operator_tables(prog):
    return {
        'precedence': operator_table(prog, 'precedence'),
        'is_left_to_right': operator_table(prog, 'is_left_to_right'),
        'is_sequence': operator_table(prog, 'is_sequence'),
        'is_leaf': operator_table(prog, 'is_leaf'),
        'is_unary': operator_table(prog, 'is_unary'),
        'max_argument_amount': operator_table(prog, 'max_argument_amount', _opt),
    }


def display_fn(prog, self_ty_prefix):
    c = [f for f in prog.fns if path_endswith(f.j.get('impl_trait') or '', 'fmt::Display') and (f.j.get('impl_self_ty') or '').startswith(self_ty_prefix) and f.name == 'fmt']
    if len(c) != 1:
        raise TableError('Display impl for %s: %d candidates' % (self_ty_prefix, len(c)))
    return c[0]


def display_symbols(prog, adt_path):
    """{variant_name: literal string written | None when the payload is formatted}"""
    f = display_fn(prog, adt_path)
    names = prog.variants(adt_path)
    t = tabulate(prog, f, adt_path, lambda a: [a, UNK])
    out = {}
    for idx, (_val, eff) in t.items():
        lits = []
        dyn = False
        for d, r, args, _sp in eff:
            if path_endswith(d, "Arguments::<'a>::from_str") or d.endswith('::from_str') and 'fmt::Arguments' in d:
                if args and is_const(args[0]):
                    lits.append(args[0][1])
            elif path_endswith(d, "Formatter::<'a>::write_str") or (d.endswith('::write_str')):
                if len(args) > 1 and is_const(args[1]):
                    lits.append(args[1][1])
            elif 'Argument' in d and 'new_display' in d or 'new_debug' in d:
                dyn = True
            elif d.endswith('::fmt') and not d.startswith('std::fmt::Arguments'):
                dyn = True
        if dyn:
            out[names[idx]] = None
        else:
            out[names[idx]] = ''.join(lits)
    return out


def token_predicates(prog):
    names = prog.variants(TOKEN)
    out = {}
    for n in ('is_leftsided_value', 'is_rightsided_value', 'is_assignment'):
        f = prog.fn('token::Token::<NumericTypes>::' + n)
        if f is None:
            raise TableError('token::Token::%s not found' % n)
        t = tabulate(prog, f, TOKEN)
        out[n] = {names[i]: _const(v) for i, (v, _e) in t.items()}
    return out


def char_table(prog):
    """char_to_partial_token: {char: partial-token description}; key None = default arm (sets of outcomes)"""
    f = prog.fn('token::char_to_partial_token')
    if f is None:
        raise TableError('token::char_to_partial_token not found')
    # listed characters = values of every switch on the parameter
    chars = set()
    for blk in f.blocks:
        t = blk['term']
        if t['k'] == 'switch' and t.get('discr_ty') == 'char':
            for v, _ in t['targets']:
                chars.add(chr(v))
    out = {}

    def describe(v):
        if v[0] == 'adt' and path_endswith(v[1], 'PartialToken'):
            if v[3] == 'Token' and v[4] and v[4][0][0] == 'adt':
                return 'Token(%s)' % v[4][0][3]
            return v[3]
        return None

    for ch in sorted(chars):
        it = Interp(prog)
        val, eff = it.eval_fn(f, [C(ch)])
        out[ch] = describe(val)
    # default arm: a character outside the listed set; branch on an unknown predicate explores both
    it = Interp(prog)
    probe = 'a'
    while probe in chars:
        probe = chr(ord(probe) + 1)
    ps = it.paths(f, [C(probe)])
    effects = [e for p in ps for e in p[1] if not e[0].startswith('<')]
    out[None] = dict(outcomes=sorted({describe(r) or '?' for r, _ in ps}), callees=[e[0] for e in effects], resolved=[e[1] for e in effects],
                     by_branch=[(describe(r), [fmt_eff(e) for e in eff if e[0] == '<branch>']) for r, eff in ps])
    return out


def arm_regions(fn, place, all_variants):
    """DSP-based arm attribution: {variant: set(blocks)} for blocks where the place's variant set is a
    strict subset of all variants and contains that variant."""
    d = DSP(fn, place, all_variants)
    allv = frozenset(all_variants)
    regions = {v: set() for v in all_variants}
    for b, s in d.entry.items():
        if s and s != allv:
            for v in s:
                regions[v].add(b)
    return regions, d


def token_to_operator(prog):
    """tokens_to_operator_tree: {token_variant_name: sorted list of operator constructors used in its arm}"""
    f = prog.fn('tree::tokens_to_operator_tree')
    if f is None:
        raise TableError('tree::tokens_to_operator_tree not found')
    tnames = prog.variants(TOKEN)
    # the matched place: destination of `token.clone()` whose discriminant is switched on with >= 20 targets
    place = None
    for blk in f.blocks:
        t = blk['term']
        if t['k'] == 'switch' and len(t['targets']) >= 20:
            for st in blk['stmts']:
                if st['k'] == 'assign' and st['rv']['k'] == 'discriminant' and is_local(st['pl'], op_place(t['discr'])['l']):
                    place = resolve_place(f, st['rv']['pl'])
    if place is None:
        raise TableError('token match not found in tokens_to_operator_tree')
    regions, dsp = arm_regions(f, place, list(tnames.keys()))
    out = {}
    ctor_fns = {'value': 'Const', 'variable_identifier_write': 'VariableIdentifierWrite', 'variable_identifier_read': 'VariableIdentifierRead', 'function_identifier': 'FunctionIdentifier'}
    for v, blocks in regions.items():
        ops = set()
        vals = set()
        for b in blocks:
            for st in f.stmts(b):
                if st['k'] == 'assign' and st['rv']['k'] == 'aggregate' and st['rv'].get('agg') == 'adt':
                    if path_endswith(st['rv']['adt'], 'operator::Operator'):
                        ops.add(st['rv']['vname'])
                    if path_endswith(st['rv']['adt'], 'value::Value'):
                        vals.add(st['rv']['vname'])
            t = f.term(b)
            if t['k'] == 'call':
                for fnname, vn in ctor_fns.items():
                    if callee_matches(t, ['Operator::<NumericTypes>::' + fnname]):
                        ops.add(vn)
        out[tnames[v]] = dict(operators=sorted(ops), values=sorted(vals), blocks=sorted(blocks))
    return out, f, place, dsp
