"""Tables the crate consults, extracted from MIR by abstract interpretation per enum variant."""
from absint import Interp, tabulate, UNK, C, ADT, is_const
from mirlib import op_const, DSP, path_endswith, resolve_place, op_place, callee_matches, is_local

OPERATOR = 'operator::Operator'
TOKEN = 'token::Token'
PARTIAL = 'token::PartialToken'
VALUE = 'value::Value'

BINARY = ['Add', 'Sub', 'Mul', 'Div', 'Mod', 'Exp', 'Eq', 'Neq', 'Gt', 'Lt', 'Geq', 'Leq', 'And', 'Or']
ASSIGN = ['Assign', 'AddAssign', 'SubAssign', 'MulAssign', 'DivAssign', 'ModAssign', 'ExpAssign', 'AndAssign', 'OrAssign']
PREFIX = ['Neg', 'Not']
SEQUENCE = ['Tuple', 'Chain']
LEAF = ['Const', 'VariableIdentifierWrite', 'VariableIdentifierRead']


def fmt_eff(e):
    from absint import fmt
    return '%s(%s)' % (e[0], ', '.join(fmt(a) for a in e[2]))


class TableError(Exception):
    pass


def _const(v):
    if v[0] == 'c':
        return v[1]
    raise TableError('non-constant table entry %r' % (v,))


def _opt(v):
    """Option<usize> abstract value -> int | None"""
    if v[0] == 'adt' and path_endswith(v[1], 'option::Option'):
        if v[3] == 'None':
            return None
        return _const(v[4][0])
    raise TableError('not an Option constant: %r' % (v,))


def operator_fn(prog, name):
    f = prog.fn('operator::Operator::<NumericTypes>::' + name)
    if f is None:
        raise TableError('operator::Operator::%s not found' % name)
    return f


def operator_table(prog, name, conv=_const):
    f = operator_fn(prog, name)
    names = prog.variants(OPERATOR)
    t = tabulate(prog, f, OPERATOR)
    out = {}
    for idx, (val, _eff) in t.items():
        try:
            out[names[idx]] = conv(val)
        except TableError as e:
            raise TableError('%s(%s): %s' % (name, names[idx], e))
    return out


def operator_tables(prog):
    return {
        'precedence': operator_table(prog, 'precedence'),
        'is_left_to_right': operator_table(prog, 'is_left_to_right'),
        'is_sequence': operator_table(prog, 'is_sequence'),
        'is_leaf': operator_table(prog, 'is_leaf'),
        'is_unary': operator_table(prog, 'is_unary'),
        'max_argument_amount': operator_table(prog, 'max_argument_amount', _opt),
    }


def display_fn(prog, self_ty_prefix):
    c = [f for f in prog.fns if path_endswith(f.j.get('impl_trait') or '', 'fmt::Display') and (f.j.get('impl_self_ty') or '').startswith(self_ty_prefix) and f.name == 'fmt']
    if len(c) != 1:
        raise TableError('Display impl for %s: %d candidates' % (self_ty_prefix, len(c)))
    return c[0]


def display_symbols(prog, adt_path):
    """{variant_name: literal string written | None when the payload is formatted}"""
    f = display_fn(prog, adt_path)
    names = prog.variants(adt_path)
    t = tabulate(prog, f, adt_path, lambda a: [a, UNK])
    out = {}
    for idx, (_val, eff) in t.items():
        lits = []
        dyn = False
        for d, r, args, _sp in [e_[:4] for e_ in eff]:
            if path_endswith(d, "Arguments::<'a>::from_str") or d.endswith('::from_str') and 'fmt::Arguments' in d:
                if args and is_const(args[0]):
                    lits.append(args[0][1])
            elif path_endswith(d, "Formatter::<'a>::write_str") or (d.endswith('::write_str')):
                if len(args) > 1 and is_const(args[1]):
                    lits.append(args[1][1])
            elif d.endswith('::write_char') and len(args) > 1:
                # `f.write_char('+')` (Formatter's own method or fmt::Write): a constant character is literal text
                if is_const(args[1]) and isinstance(args[1][1], str):
                    lits.append(args[1][1])
                else:
                    dyn = True
            elif d.endswith("Formatter::<'a>::pad") or (d.endswith('::pad') and 'Formatter' in d):
                # `f.pad(s)`: what `<str as Display>::fmt` does
                if len(args) > 1 and is_const(args[1]):
                    lits.append(args[1][1])
                else:
                    dyn = True
            elif 'Argument' in d and 'new_display' in d or 'new_debug' in d:
                dyn = True
            elif d.endswith('::fmt') and not d.startswith('std::fmt::Arguments'):
                dyn = True
        if dyn:
            out[names[idx]] = None
        else:
            out[names[idx]] = ''.join(lits)
    return out


def token_predicates(prog):
    names = prog.variants(TOKEN)
    out = {}
    for n in ('is_leftsided_value', 'is_rightsided_value', 'is_assignment'):
        f = prog.fn('token::Token::<NumericTypes>::' + n)
        if f is None:
            raise TableError('token::Token::%s not found' % n)
        t = tabulate(prog, f, TOKEN)
        out[n] = {names[i]: _const(v) for i, (v, _e) in t.items()}
    return out


def char_table(prog):
    """char_to_partial_token: {char: partial-token description}; key None = default arm (sets of outcomes)"""
    f = prog.fn('token::char_to_partial_token')
    if f is None:
        raise TableError('token::char_to_partial_token not found')
    # listed characters = values of every switch on a character and every character constant compared with `==`, in the function and
    # in the crate-local helpers it calls (a `from_character` table generated by a macro, a chain of `c == '+'` tests)
    chars = set()
    todo, seen = [f], set()
    while todo:
        g = todo.pop()
        if g.path in seen or len(seen) > 12:
            continue
        seen.add(g.path)
        for blk in g.blocks:
            if blk['cleanup']:
                continue
            t = blk['term']
            if t['k'] == 'switch' and t.get('discr_ty') == 'char':
                for v, _ in t['targets']:
                    chars.add(chr(v))
            for st in blk['stmts']:
                if st['k'] == 'assign' and st['rv']['k'] == 'binop' and st['rv']['op'] in ('Eq', 'Ne'):
                    for o_ in (st['rv']['a'], st['rv']['b']):
                        c_ = op_const(o_)
                        if c_ and c_.get('k') == 'char':
                            chars.add(c_['v'] if isinstance(c_['v'], str) else chr(c_['v']))
            if t['k'] == 'call' and t['callee'].get('local'):
                h = prog.by_path.get(t['callee']['def']) or prog.by_path.get((t['callee'].get('resolved') or {}).get('def'))
                if h is not None and h.kind != 'Closure':
                    todo.append(h)
    out = {}

    def describe(v):
        if v[0] == 'adt' and path_endswith(v[1], 'PartialToken'):
            if v[3] == 'Token' and v[4] and v[4][0][0] == 'adt':
                return 'Token(%s)' % v[4][0][3]
            return v[3]
        return None

    for ch in sorted(chars):
        it = Interp(prog)
        val, eff = it.eval_fn(f, [C(ch)])
        out[ch] = describe(val)
    # default arm: a character outside the listed set; branch on an unknown predicate explores both
    it = Interp(prog)
    probe = 'a'
    while probe in chars:
        probe = chr(ord(probe) + 1)
    ps = it.paths(f, [C(probe)])
    effects = [e for p in ps for e in p[1] if not e[0].startswith('<')]
    out[None] = dict(outcomes=sorted({describe(r) or '?' for r, _ in ps}), callees=[e[0] for e in effects], resolved=[e[1] for e in effects],
                     by_branch=[(describe(r), [fmt_eff(e) for e in eff if e[0] == '<branch>']) for r, eff in ps])
    return out


def arm_regions(fn, place, all_variants):
    """DSP-based arm attribution: {variant: set(blocks)} for blocks where the place's variant set is a
    strict subset of all variants and contains that variant."""
    d = DSP(fn, place, all_variants)
    allv = frozenset(all_variants)
    regions = {v: set() for v in all_variants}
    for b, s in d.entry.items():
        if s and s != allv:
            for v in s:
                regions[v].add(b)
    return regions, d


# helper functions of the tree builder that the rules look for by name; every other crate-private function of `tree::` called by the
# builder is inlined before a structural rule looks at it, so that splitting the long function into helpers changes nothing
TREE_KEEP = ('insert_back_prioritized', 'collapse_root_stack_to', 'collapse_all_sequences', 'root_node', 'new', 'has_enough_children', 'has_too_many_children', 'operator', 'children')


def token_to_operator(prog):
    """tokens_to_operator_tree: {token_variant_name: sorted list of operator constructors used in its arm}"""
    f = prog.fn_inlined('tree::tokens_to_operator_tree', keep=TREE_KEEP, module='tree::')
    if f is None:
        raise TableError('tree::tokens_to_operator_tree not found')
    tnames = prog.variants(TOKEN)
    # the matched place: destination of `token.clone()` whose discriminant is switched on with >= 20 targets
    place = None
    for blk in f.blocks:
        t = blk['term']
        if t['k'] == 'switch' and len(t['targets']) >= 20:
            for st in blk['stmts']:
                if st['k'] == 'assign' and st['rv']['k'] == 'discriminant' and is_local(st['pl'], op_place(t['discr'])['l']):
                    place = resolve_place(f, st['rv']['pl'])
    if place is None:
        raise TableError('token match not found in tokens_to_operator_tree')
    regions, dsp = arm_regions(f, place, list(tnames.keys()))
    out = {}
    ctor_fns = {'value': 'Const', 'variable_identifier_write': 'VariableIdentifierWrite', 'variable_identifier_read': 'VariableIdentifierRead', 'function_identifier': 'FunctionIdentifier'}
    for v, blocks in regions.items():
        ops = set()
        vals = set()
        for b in blocks:
            for st in f.stmts(b):
                if st['k'] == 'assign' and st['rv']['k'] == 'aggregate' and st['rv'].get('agg') == 'adt':
                    if path_endswith(st['rv']['adt'], 'operator::Operator'):
                        ops.add(st['rv']['vname'])
                    if path_endswith(st['rv']['adt'], 'value::Value'):
                        vals.add(st['rv']['vname'])
            t = f.term(b)
            if t['k'] == 'call':
                for fnname, vn in ctor_fns.items():
                    if callee_matches(t, ['Operator::<NumericTypes>::' + fnname]):
                        ops.add(vn)
        out[tnames[v]] = dict(operators=sorted(ops), values=sorted(vals), blocks=sorted(blocks))
    return out, f, place, dsp


# ----------------------------------------------------------------------------- token -> operator, semantically

_TOKSEM = {}


def token_semantics(prog):
    """What tokens_to_operator_tree does with a token, obtained by interpreting it on short concrete token lists and observing the
    node handed to insert_back_prioritized (the builder functions themselves are kept abstract). Independent of how the function is
    written (one long match, helpers, tokens by value or by reference, peekable or indexed look-ahead).
      first[V]        operators inserted for V as the first token                      (set of abstract Operator values)
      after_value[V]  operators inserted for V when it follows an integer literal
      ident_next[N]   operator inserted for an identifier followed by token N  (key None: identifier at the end)
      minus_after[K]  operator kinds inserted for `-` following token K"""
    key = id(prog)
    if key in _TOKSEM:
        return _TOKSEM[key]
    from absint import Interp, SYM, ADT, OK, Budget, is_adt
    from rules.treepaths import opaque_hook
    f = prog.fn('tree::tokens_to_operator_tree')
    if f is None:
        raise TableError('tree::tokens_to_operator_tree not found')
    tok = prog.adt(TOKEN)

    def T(name, sym):
        v = [x for x in tok['variants'] if x['name'] == name][0]
        return ADT(tok['path'], v['idx'], name, [SYM(sym)] if v['fields'] else [])

    def extra(it, fn, t, args):
        c = t['callee']
        if c.get('local') and c['name'] in ('insert_back_prioritized', 'collapse_all_sequences'):
            return OK(('tuple', ()))
        if c.get('local') and c['name'] == 'collapse_root_stack_to':
            return OK(SYM('collapsed'))
        return None

    def inserted(tokens):
        try:
            ps = Interp(prog, hook=opaque_hook(extra=extra), max_steps=400000).paths(f, [('tuple', tuple(tokens))])
        except Budget:
            raise TableError('tokens_to_operator_tree too complex to interpret on %d tokens' % len(tokens))
        out = []
        for ret, eff in ps:
            seq = []
            for e in eff:
                if not e[0].startswith('<') and e[0].split('::')[-1] == 'insert_back_prioritized' and len(e[2]) >= 2:
                    n = e[2][1]
                    if n[0] == 'app' and n[1].split('::')[-1] == 'new' and len(n[2]) == 1 and is_adt(n[2][0], 'operator::Operator'):
                        seq.append(n[2][0])
                    elif is_adt(n, 'tree::Node') and n[4] and is_adt(n[4][0], 'operator::Operator'):
                        seq.append(n[4][0])
            out.append(seq)
        return out
    names = [v['name'] for v in tok['variants']]
    first = {}
    for V in names:
        first[V] = {s_[0] for s_ in inserted([T(V, 'p')]) if len(s_) == 1}

    def second(A, a_first, B):
        a_first = {s_[0] for s_ in inserted([A]) if len(s_) == 1} if a_first is None else a_first
        got = set()
        for s_ in inserted([A, B]):
            if len(s_) == 2:
                got.add(s_[1])
            elif len(s_) == 1 and s_[0] not in a_first:
                got.add(s_[0])
        return got
    lit = T('Int', 'n')
    after_value = {V: second(lit, None, T(V, 'p')) for V in names}
    ident_kinds = ('VariableIdentifierRead', 'VariableIdentifierWrite', 'FunctionIdentifier')
    ident_next = {None: set(first['Identifier'])}
    for N in names:
        got = set()
        for s_ in inserted([T('Identifier', 'p'), T(N, 'q')]):
            if s_ and s_[0][3] in ident_kinds and s_[0][4] == (SYM('p'),):
                got.add(s_[0])
            elif s_ and len(s_) == 2:
                got.add(s_[0])
        ident_next[N] = got
    minus_after = {}
    for K in names:
        a_first = None if K != 'Identifier' else {ADT(x[1], x[2], x[3], [SYM('k')]) for x in ident_next['Minus']}
        minus_after[K] = {o[3] for o in second(T(K, 'k'), a_first, T('Minus', 'm'))}
    res = dict(first=first, after_value=after_value, ident_next=ident_next, minus_after=minus_after, fn=f)
    _TOKSEM[key] = res
    return res
