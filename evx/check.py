#!/usr/bin/env python3
"""check.py <PROPERTY-ID> [--tier quick|thorough] [--replay FILE]

Decides one property of /repo by static analysis of its current working tree:
runs the rustc_private driver (facts.json / reach.json), applies the property's rules,
writes /verif/evidence/<ID>.json, prints KNOWN-FINDING / VIOLATION lines.
exit 0: property held on everything analysed (known findings excepted); exit 1: violation; exit 2: checker broken.
"""
import argparse
import importlib
import json
import os
import re
import sys
import time
import traceback

HERE = os.path.dirname(os.path.abspath(__file__))
VERIF = os.path.dirname(HERE)
sys.path.insert(0, HERE)

import extract  # noqa: E402
import mirlib  # noqa: E402

LEVELS = {'C15': 'proof'}
ALL_FEATURES = ('rand', 'regex', 'serde')


class AnchorMissing(Exception):
    pass


class Ctx:
    def __init__(self, pid, tier, seed, replay_key=None):
        self.pid = pid
        self.tier = tier
        self.seed = seed
        self.replay_key = replay_key
        self._ex = {}
        self._prog = {}
        self.obligations = []  # dicts: rule, instance, verdict(ok|violation|unrecognised|known), key, what, span, detail
        self.notes = []
        self.trusted = []
        self.assumptions = []
        self.configs = []
        self.counters = {}
        self.samples = []
        self.t0 = time.time()
        self.default_features = ()
        self.default_overflow = True
        self.prefix = ''

    # ---- extraction
    def extraction(self, features=None, overflow_checks=None, reach=True):
        features = self.default_features if features is None else features
        overflow_checks = self.default_overflow if overflow_checks is None else overflow_checks
        key = (tuple(sorted(features)), overflow_checks)
        if key not in self._ex:
            ex = extract.Extraction(features=features, overflow_checks=overflow_checks, reach=reach).run()
            self._ex[key] = ex
            self.configs.append(ex.label())
        return self._ex[key]

    def prog(self, features=None, overflow_checks=None, reach=True):
        features = self.default_features if features is None else features
        overflow_checks = self.default_overflow if overflow_checks is None else overflow_checks
        key = (tuple(sorted(features)), overflow_checks)
        if key not in self._prog:
            ex = self.extraction(features, overflow_checks, reach)
            self._prog[key] = mirlib.Program.load(ex.facts_path(), ex.reach_path())
            self._prog[key].config = ex.label()
        return self._prog[key]

    def close(self):
        for ex in self._ex.values():
            ex.close()

    # ---- anchors
    def anchor(self, prog, path):
        f = prog.fn(path)
        if f is None:
            raise AnchorMissing(path)
        return f

    # ---- recording
    def _key(self, rule, instance, slug):
        return '%s|%s|%s|%s' % (self.pid, rule, instance, slug)

    def ok(self, rule, instance, what='', span=None, **detail):
        instance = self.prefix + instance
        self.obligations.append(dict(rule=rule, instance=instance, verdict='ok', what=what, span=span, detail=detail))

    def violation(self, rule, instance, slug, what, span=None, kind='violation', **detail):
        instance = self.prefix + instance
        self.obligations.append(dict(rule=rule, instance=instance, verdict=kind, key=self._key(rule, instance, slug), what=what, span=span, detail=detail))

    def unrecognised(self, rule, instance, slug, what, span=None, **detail):
        self.violation(rule, instance, slug, what, span=span, kind='unrecognised', **detail)

    def check(self, cond, rule, instance, slug, what, span=None, **detail):
        """record ok if cond else a violation"""
        if cond:
            self.ok(rule, instance, what, span=span, **detail)
        else:
            self.violation(rule, instance, slug, what, span=span, **detail)
        return bool(cond)

    def floor(self, rule, name, got, minimum):
        """instance-count floor: a rule matching fewer instances than confirmed by hand fails closed"""
        self.counters[name] = got
        if got < minimum:
            self.violation(rule, name, 'floor', 'instance count %d below confirmed floor %d (rule would pass vacuously)' % (got, minimum), kind='unrecognised')
        else:
            self.ok(rule, 'floor:' + name, '%d instances (floor %d)' % (got, minimum))

    def sample(self, s):
        if len(self.samples) < 12:
            self.samples.append(s)

    def trust(self, s):
        if s not in self.trusted:
            self.trusted.append(s)

    def assume(self, s):
        if s not in self.assumptions:
            self.assumptions.append(s)


def load_known():
    p = os.path.join(VERIF, 'known_findings.json')
    if not os.path.exists(p):
        return []
    with open(p) as fh:
        return json.load(fh).get('findings', [])


def sanitize(key):
    return re.sub(r'[^A-Za-z0-9_.-]+', '_', key)[:180]


def main():
    ap = argparse.ArgumentParser()
    ap.add_argument('pid')
    ap.add_argument('--tier', default=os.environ.get('VERIF_TIER', 'quick'), choices=['quick', 'thorough'])
    ap.add_argument('--replay', default=None)
    ap.add_argument('--no-evidence', action='store_true')
    args = ap.parse_args()
    pid = args.pid.upper()
    try:
        seed = int(os.environ.get('VERIF_SEED', '0'))
    except ValueError:
        seed = 0
    replay_key = None
    if args.replay:
        with open(args.replay) as fh:
            replay_key = json.load(fh)['key']
    ctx = Ctx(pid, args.tier, seed, replay_key)
    broken = None
    # wall-clock watchdog: the rules interpret thousands of small cases; an unexpected program shape that makes one of them explode must
    # end in a verdict (fail closed), not in a check that never returns.  Normal run times are seconds (quick) to minutes (thorough).
    import signal

    class Watchdog(Exception):
        pass

    def _alarm(signum, frame):
        raise Watchdog()
    limit = int(os.environ.get('EVX_WATCHDOG_S', '900' if args.tier == 'quick' else '5400'))
    signal.signal(signal.SIGALRM, _alarm)
    signal.alarm(limit)
    try:
        mod = importlib.import_module('rules.' + pid.lower())
        try:
            mod.run(ctx)
            if args.tier == 'thorough' and replay_key is None:
                thorough_extras(ctx, mod, pid)
        except AnchorMissing as e:
            ctx.violation('anchor', str(e), 'missing', 'anchor definition `%s` not found in the crate (rule cannot be evaluated; fail closed)' % e, kind='unrecognised')
        except extract.ExtractError as e:
            broken = 'extraction failed: %s' % e
        except Watchdog:
            ctx.violation('checker', 'watchdog', 'timeout', 'rule evaluation did not finish within %d s on this tree (path explosion on an unexpected program shape; fail closed)' % limit, kind='unrecognised')
        except Exception:
            tb = traceback.format_exc()
            # an analysis crash on an unexpected program shape fails closed as an unrecognised construct
            ctx.violation('checker', 'exception', 'crash', 'rule evaluation raised an exception on this tree (unexpected program shape; fail closed)', kind='unrecognised', traceback=tb)
            sys.stderr.write(tb)
    finally:
        signal.alarm(0)
        ctx.close()
    if broken:
        print('CHECK-BROKEN property=%s %s' % (pid, broken))
        sys.exit(2)

    known = {k['key']: k for k in load_known() if k.get('property') == pid and k.get('status') == 'known'}
    viol = [o for o in ctx.obligations if o['verdict'] in ('violation', 'unrecognised')]
    if replay_key is not None:
        viol = [o for o in viol if o['key'] == replay_key]
    new = []
    seen_keys = set()
    n_known = 0
    os.makedirs(os.path.join(VERIF, 'evidence', 'replay'), exist_ok=True)
    for o in viol:
        if o['key'] in seen_keys:
            continue
        seen_keys.add(o['key'])
        if o['key'] in known:
            n_known += 1
            o['verdict_final'] = 'known'
            print('KNOWN-FINDING: property=%s %s [%s] (%s)' % (pid, known[o['key']].get('what', o['what']), o['key'], o.get('span') or '-'))
            continue
        new.append(o)
        rp = os.path.join(VERIF, 'evidence', 'replay', sanitize(o['key']) + '.json')
        with open(rp, 'w') as fh:
            json.dump(dict(property=pid, key=o['key'], rule=o['rule'], instance=o['instance'], kind=o['verdict'], what=o['what'], span=o.get('span'), detail=o.get('detail')), fh, indent=1, default=str)
        print('VIOLATION property=%s replay=%s' % (pid, rp))
        print('  rule=%s instance=%s kind=%s at %s' % (o['rule'], o['instance'], o['verdict'], o.get('span') or '-'))
        print('  %s' % o['what'])
    n_ok = sum(1 for o in ctx.obligations if o['verdict'] == 'ok')
    wall = time.time() - ctx.t0
    if not args.no_evidence and replay_key is None:
        write_evidence(ctx, n_ok, len(seen_keys), n_known, len(new), wall)
    print('%s tier=%s: %d obligations ok, %d violation keys (%d known, %d new), %.1fs' % (pid, args.tier, n_ok, len(seen_keys), n_known, len(new), wall))
    sys.exit(1 if new else 0)


ALT_CONFIGS = {
    # property -> list of (features, overflow_checks): the same rules re-run on other build configurations
    'C02': [(('rand', 'regex', 'serde'), True)], 'C03': [((), False), (('rand', 'regex', 'serde'), True)], 'C04': [(('rand', 'regex', 'serde'), True)],
    'C05': [(('rand', 'regex', 'serde'), True)], 'C06': [((), False), (('rand', 'regex', 'serde'), True)], 'C07': [(('rand', 'regex', 'serde'), True)],
    'C08': [(('rand', 'regex', 'serde'), True)], 'C11': [(('rand', 'regex', 'serde'), True)], 'C12': [(('rand', 'regex', 'serde'), True)],
    'C13': [(('rand', 'regex', 'serde'), True)], 'C14': [(('rand', 'regex', 'serde'), True)], 'C15': [(('rand', 'regex'), True)],
}


def thorough_extras(ctx, mod, pid):
    """thorough tier: (1) the same rules on alternative build configurations, (2) the seeded-mutant self-test of this property's rules"""
    if os.environ.get('EVX_NO_EXTRAS'):
        return
    for feats, ovf in ALT_CONFIGS.get(pid, []):
        ctx.default_features, ctx.default_overflow = feats, ovf
        ctx.prefix = 'cfg[%s%s]:' % (','.join(feats) or 'default', '' if ovf else ',overflow-checks=off')
        try:
            mod.run(ctx)
        finally:
            ctx.default_features, ctx.default_overflow, ctx.prefix = (), True, ''
    import mutate
    ms = [m for m in mutate.load_mutants() if pid in m['properties']]
    # of the refactoring controls (every check must be silent on every one: `evx/mutate.py` runs that full cross product during
    # development), the thorough tier of one property re-runs those written for the code this property is anchored in and those on
    # which this property's check once raised a false alarm - the full product is 16 x 400+ extractions
    if not os.environ.get('EVX_ALL_CONTROLS'):
        ms = [m for m in ms if m.get('source') != 'refactors' or m.get('anchored') == pid or pid in (m.get('alarmed') or [])]
    import concurrent.futures
    with concurrent.futures.ThreadPoolExecutor(max_workers=8) as ex:
        results = list(ex.map(lambda m: mutate.run_one(m, only=pid), ms))
    n_skip = 0
    n_miss = 0
    for m, r in zip(ms, results):
        st = r['status']
        if st == 'skipped':
            n_skip += 1
            ctx.notes.append('mutant %s skipped: patch no longer applies to the current tree' % m['id'])
            continue
        good = st in ('caught', 'silent-ok')
        what = ('seeded mutant is reported by rule(s) %s' % m.get('rules')) if m.get('expect', 'violation') != 'silent' else 'behaviour-preserving edit stays silent'
        if good:
            ctx.ok('selftest', 'mutant:' + m['id'], '%s (status %s)' % (what, st))
        else:
            # a self-test miss says something about the checker on this tree, not about the property: it is recorded and printed,
            # never turned into a VIOLATION of the property (mutate.py, run during development, exits 1 on it)
            n_miss += 1
            msg = 'SELFTEST-MISS property=%s mutant=%s status=%s: %s' % (pid, m['id'], st, what)
            ctx.notes.append(msg + ' ' + '; '.join(r.get('detail', []))[:300])
            print(msg, file=sys.stderr)
    ctx.counters['selftest_misses'] = n_miss
    ctx.counters['mutants_run'] = len(ms) - n_skip
    ctx.counters['mutants_skipped'] = n_skip


def write_evidence(ctx, n_ok, n_keys, n_known, n_new, wall):
    level = LEVELS.get(ctx.pid, 'other')
    rules = {}
    for o in ctx.obligations:
        r = rules.setdefault(o['rule'], dict(ok=0, violated=0))
        if o['verdict'] == 'ok':
            r['ok'] += 1
        else:
            r['violated'] += 1
    insts = sorted({(o['rule'], o['instance']) for o in ctx.obligations})
    samples = list(ctx.samples)
    for o in ctx.obligations:
        if len(samples) >= 12:
            break
        samples.append(dict(rule=o['rule'], instance=o['instance'], verdict=o['verdict'], what=o['what'], span=o.get('span')))
    total = len(ctx.obligations)
    cov = {
        'explanation': getattr(sys.modules.get('rules.' + ctx.pid.lower()), 'EXPLANATION', ''),
        'rule': 'one obligation per (rule, instance) pair enumerated from the MIR / type facts of /repo\'s current tree; distinct = distinct (rule, instance)',
        'evaluations': total,
        'distinct_nontrivial': len(insts),
        'obligations': total,
        'discharged': n_ok + sum(1 for o in ctx.obligations if o.get('verdict_final') == 'known'),
        'known_findings_reported': n_known,
        'exhaustive': True,
        'configs': ctx.configs,
        'rules': rules,
        'counters': ctx.counters,
        'samples': samples,
        'trusted_base': ctx.trusted,
        'checker_cmd': 'python3 evx/check.py %s --tier %s' % (ctx.pid, ctx.tier),
        'notes': ctx.notes,
    }
    ev = {
        'property_id': ctx.pid,
        'tier': ctx.tier,
        'seed': ctx.seed,
        'level': level,
        'coverage': cov,
        'assumptions': ctx.assumptions,
        'wall_s': round(wall, 2),
        'violations': n_new,
    }
    p = os.path.join(VERIF, 'evidence', ctx.pid + '.json')
    tmp = p + '.tmp'
    with open(tmp, 'w') as fh:
        json.dump(ev, fh, indent=1, default=str)
    os.replace(tmp, p)


if __name__ == '__main__':
    main()
