"""MIR facts library: loading facts.json and the CFG analyses used by the rules.

Everything here works on the resolved program exported by the rustc_private driver
(def-paths, resolved callees, variant indices, constants, CFG), never on source text.
"""
import json
from collections import defaultdict, deque


# ----------------------------------------------------------------------------- places / operands

def place_key(pl):
    """hashable key of a place"""
    if pl is None:
        return None
    return (pl['l'], tuple(_proj_key(p) for p in pl['p']))


def _proj_key(p):
    if isinstance(p, str):
        return p
    if 'f' in p:
        return ('f', p['f'])
    if 'dc' in p:
        return ('dc', p['dc'])
    if 'index' in p:
        return ('index', p['index'])
    if 'cidx' in p:
        return ('cidx', p['cidx'], p['from_end'])
    if 'sub_from' in p:
        return ('sub', p['sub_from'], p['sub_to'], p['from_end'])
    return ('?', json.dumps(p, sort_keys=True))


def is_local(pl, l=None):
    return pl is not None and not pl['p'] and (l is None or pl['l'] == l)


def op_place(op):
    """place of a copy/move operand, else None"""
    if op and op.get('k') in ('copy', 'move'):
        return op['pl']
    return None


def op_const(op):
    """decoded constant of a const operand: returns dict c (k=int|bool|char|str|fn|zst|...) or None"""
    if op and op.get('k') == 'const':
        c = op['c']
        if c.get('k') == 'unevaluated' and 'value' in c:
            return c['value']
        return c
    return None


def const_value(op):
    c = op_const(op)
    if c is None:
        return None
    if c['k'] in ('int', 'bool', 'char', 'str'):
        return c['v']
    return None


def fmt_place(pl, fn=None):
    s = '_%d' % pl['l']
    if fn is not None:
        n = fn.local_name(pl['l'])
        if n:
            s = '%s(_%d)' % (n, pl['l'])
    for p in pl['p']:
        if p == 'deref':
            s = '(*%s)' % s
        elif isinstance(p, str):
            s += '.' + p
        elif 'f' in p:
            s += '.%s' % (p['name'] if p.get('name') else p['f'])
        elif 'dc' in p:
            s = '(%s as %s)' % (s, p.get('name') or p['dc'])
        elif 'index' in p:
            s += '[_%d]' % p['index']
        elif 'cidx' in p:
            s += '[%s%d]' % ('-' if p['from_end'] else '', p['cidx'])
        else:
            s += '[..]'
    return s


def fmt_op(op, fn=None):
    if op is None:
        return '?'
    k = op.get('k')
    if k in ('copy', 'move'):
        return ('move ' if k == 'move' else '') + fmt_place(op['pl'], fn)
    if k == 'const':
        c = op_const(op)
        if c['k'] in ('int', 'bool'):
            return 'const %s' % (c['v'],)
        if c['k'] == 'char':
            return 'const %r' % c['v']
        if c['k'] == 'str':
            return 'const %s' % json.dumps(c['v'])
        if c['k'] == 'fn':
            return 'fn %s' % c['def']
        if c['k'] == 'float':
            return 'const f%s' % c['bits']
        if c['k'] == 'unevaluated':
            return 'const <%s>' % c['def']
        return 'const <%s %s>' % (c['k'], c.get('ty', ''))
    return str(op)


def fmt_rv(rv, fn=None):
    k = rv['k']
    if k == 'use':
        return fmt_op(rv['op'], fn)
    if k == 'ref':
        return ('&mut ' if rv['mut'] else '&') + fmt_place(rv['pl'], fn)
    if k == 'discriminant':
        return 'discriminant(%s)' % fmt_place(rv['pl'], fn)
    if k == 'aggregate':
        ops = ', '.join(fmt_op(o, fn) for o in rv['ops'])
        if rv['agg'] == 'adt':
            return '%s::%s{%s}' % (rv['adt'], rv['vname'], ops)
        if rv['agg'] == 'closure':
            return 'closure %s{%s}' % (rv['def'], ops)
        return '%s(%s)' % (rv['agg'], ops)
    if k == 'binop':
        return '%s(%s, %s)' % (rv['op'], fmt_op(rv['a'], fn), fmt_op(rv['b'], fn))
    if k == 'unop':
        return '%s(%s)' % (rv['op'], fmt_op(rv['a'], fn))
    if k == 'cast':
        return '%s as %s [%s]' % (fmt_op(rv['op'], fn), rv['ty'], rv['kind'])
    if k == 'rawptr':
        return '&raw %s' % fmt_place(rv['pl'], fn)
    return '%s %s' % (k, rv.get('dbg', ''))


# ----------------------------------------------------------------------------- function bodies

class Fn:
    def __init__(self, j):
        self.j = j
        self.path = j['path']
        self.kind = j['kind']
        self.span = j['span']
        self.blocks = j['blocks']
        self.locals = j['locals']
        self.arg_count = j['arg_count']
        self.name = j.get('name')
        self._succ = None
        self._pred = None
        self._idom = None
        self._defs = None

    def __repr__(self):
        return '<Fn %s>' % self.path

    def local_name(self, l):
        return self.locals[l].get('name')

    def local_ty(self, l):
        return self.locals[l]['ty']

    def local_by_name(self, name):
        return [d['id'] for d in self.locals if d.get('name') == name]

    def arg_local(self, name):
        for d in self.locals:
            if d.get('arg') and d.get('name') == name:
                return d['id']
        return None

    # ---- CFG (cleanup blocks and unwind edges are ignored throughout)
    def term(self, b):
        return self.blocks[b]['term']

    def stmts(self, b):
        return self.blocks[b]['stmts']

    def succ_edges(self, b):
        """list of (label, target) for non-cleanup successors. label: 'goto', ('sw', value) , 'otherwise', 'ret', 'ok' """
        t = self.blocks[b]['term']
        k = t['k']
        if k == 'goto':
            return [('goto', t['target'])]
        if k == 'switch':
            out = [(('sw', v), tg) for v, tg in t['targets']]
            out.append(('otherwise', t['otherwise']))
            return out
        if k in ('call', 'call_indirect'):
            return [('ret', t['target'])] if t.get('target') is not None else []
        if k in ('assert', 'drop'):
            return [('ok', t['target'])]
        return []

    def succ(self, b):
        if self._succ is None:
            self._succ = {}
            for blk in self.blocks:
                if blk['cleanup']:
                    self._succ[blk['id']] = []
                    continue
                seen = []
                for _, tg in self.succ_edges(blk['id']):
                    if tg not in seen and not self.blocks[tg]['cleanup']:
                        seen.append(tg)
                self._succ[blk['id']] = seen
        return self._succ[b]

    def pred(self, b):
        if self._pred is None:
            self._pred = defaultdict(list)
            for blk in self.blocks:
                for s in self.succ(blk['id']):
                    self._pred[s].append(blk['id'])
        return self._pred[b]

    def live_blocks(self):
        return [b['id'] for b in self.blocks if not b['cleanup']]

    def reachable_from(self, start, avoid=(), avoid_edges=()):
        """set of blocks reachable from block `start` (inclusive) without entering blocks in `avoid`
        and without using edges in avoid_edges (pairs)"""
        avoid = set(avoid)
        avoid_edges = set(avoid_edges)
        if start in avoid:
            return set()
        seen = {start}
        q = deque([start])
        while q:
            b = q.popleft()
            for s in self.succ(b):
                if s in avoid or s in seen or (b, s) in avoid_edges:
                    continue
                seen.add(s)
                q.append(s)
        return seen

    def reachable_after(self, start, avoid=(), avoid_edges=()):
        """blocks reachable from the successors of `start` (start itself only if on a cycle)"""
        out = set()
        for s in self.succ(start):
            if (start, s) in set(avoid_edges):
                continue
            out |= self.reachable_from(s, avoid, avoid_edges)
        return out

    # ---- dominators (iterative; bodies are small)
    def _dominators(self, entry=0, removed_edges=(), extra=None):
        """returns dict block -> set of dominators, over the graph reachable from entry.
        `extra`: optional (p,q) edge to split with a virtual node 'E' for edge-dominance."""
        succ = {}
        nodes = set()
        removed = set(removed_edges)
        q = deque([entry])
        nodes.add(entry)
        while q:
            b = q.popleft()
            ss = []
            for s in (self.succ(b) if b != 'E' else [extra[1]]):
                if (b, s) in removed:
                    continue
                if extra is not None and (b, s) == tuple(extra):
                    s = 'E'
                ss.append(s)
                if s not in nodes:
                    nodes.add(s)
                    q.append(s)
            succ[b] = ss
        pred = defaultdict(list)
        for b, ss in succ.items():
            for s in ss:
                pred[s].append(b)
        dom = {n: set(nodes) for n in nodes}
        dom[entry] = {entry}
        changed = True
        order = list(nodes)
        while changed:
            changed = False
            for n in order:
                if n == entry:
                    continue
                ps = [dom[p] for p in pred[n]]
                new = set.intersection(*ps) if ps else set()
                new = new | {n}
                if new != dom[n]:
                    dom[n] = new
                    changed = True
        return dom

    def dominators(self):
        if self._idom is None:
            self._idom = self._dominators()
        return self._idom

    def dominates(self, a, b):
        """block a dominates block b (b reachable): b is unreachable from entry once a is removed"""
        if a == b:
            return b in self._reach0()
        key = ('d', a)
        c = self._cache().get(key)
        if c is None:
            c = self.reachable_from(0, avoid=[a])
            self._cache()[key] = c
        return b in self._reach0() and b not in c

    def _cache(self):
        if self._idom is None:
            self._idom = {}
        return self._idom

    def _reach0(self):
        c = self._cache().get('r0')
        if c is None:
            c = self.reachable_from(0)
            self._cache()['r0'] = c
        return c

    def edge_dominates(self, edge, b):
        """every path from entry to block b uses CFG edge (p, q): b is unreachable once the edge is removed"""
        p, q = edge
        if q not in self.succ(p):
            return False
        key = ('e', p, q)
        c = self._cache().get(key)
        if c is None:
            c = self.reachable_from(0, avoid_edges=[(p, q)])
            self._cache()[key] = c
        return b in self._reach0() and b not in c

    def must_pass_through(self, frm, to, through):
        """`to` is unreachable from `frm` once blocks in `through` are removed"""
        through = set(through)
        if frm in through or to in through:
            return True
        return to not in self.reachable_from(frm, avoid=through)

    # ---- definitions
    def defs(self):
        """map local -> list of (block, stmt_index|'term', rvalue-or-term) assigning the whole local"""
        if self._defs is None:
            d = defaultdict(list)
            for blk in self.blocks:
                if blk['cleanup']:
                    continue
                for i, st in enumerate(blk['stmts']):
                    if st['k'] == 'assign' and is_local(st['pl']):
                        d[st['pl']['l']].append((blk['id'], i, st['rv']))
                t = blk['term']
                if t['k'] in ('call', 'call_indirect') and is_local(t['dest']):
                    d[t['dest']['l']].append((blk['id'], 'term', t))
            self._defs = d
        return self._defs

    def single_def(self, l):
        ds = self.defs().get(l, [])
        return ds[0] if len(ds) == 1 else None

    def calls(self, pred=None):
        """yield (block_id, term) for call terminators in live blocks"""
        for blk in self.blocks:
            if blk['cleanup']:
                continue
            t = blk['term']
            if t['k'] == 'call' and (pred is None or pred(t)):
                yield blk['id'], t

    def calls_to(self, *names, by='def'):
        """calls whose callee def path (or resolved def path) ends with one of names"""
        out = []
        for b, t in self.calls():
            if callee_matches(t, names):
                out.append((b, t))
        return out

    def dump(self):
        lines = ['fn %s  [%s]' % (self.path, self.span)]
        for d in self.locals:
            lines.append('    let _%d: %s%s%s' % (d['id'], d['ty'], ('  // ' + d['name']) if d.get('name') else '', ' (arg)' if d.get('arg') else ''))
        for blk in self.blocks:
            if blk['cleanup']:
                continue
            lines.append('  bb%d:' % blk['id'])
            for st in blk['stmts']:
                if st['k'] == 'assign':
                    lines.append('      %s = %s' % (fmt_place(st['pl'], self), fmt_rv(st['rv'], self)))
                else:
                    lines.append('      %s' % st['k'])
            t = blk['term']
            k = t['k']
            if k == 'call':
                c = t['callee']
                res = c.get('resolved')
                lines.append('      %s = call %s(%s) -> bb%s   [%s]%s' % (
                    fmt_place(t['dest'], self), c['full'], ', '.join(fmt_op(a, self) for a in t['args']), t.get('target'), t['span'],
                    ('  => ' + res['def']) if res and res['def'] != c['def'] else ''))
            elif k == 'call_indirect':
                lines.append('      %s = call_indirect %s(%s) -> bb%s' % (fmt_place(t['dest'], self), fmt_op(t['fn_operand'], self), ', '.join(fmt_op(a, self) for a in t['args']), t.get('target')))
            elif k == 'switch':
                lines.append('      switch %s : %s, otherwise bb%d' % (fmt_op(t['discr'], self), ', '.join('%s->bb%d' % (v, tg) for v, tg in t['targets']), t['otherwise']))
            elif k == 'assert':
                lines.append('      assert %s (%s==%s) -> bb%d  [%s]' % (t['kind'], fmt_op(t['cond'], self), t['expected'], t['target'], t['span']))
            elif k == 'drop':
                lines.append('      drop %s -> bb%d' % (fmt_place(t['pl'], self), t['target']))
            elif k == 'goto':
                lines.append('      goto bb%d' % t['target'])
            else:
                lines.append('      %s' % k)
        return '\n'.join(lines)


_GEN = __import__('re').compile(r"(::)?<[A-Za-z0-9_', ]+>")


def short(d):
    """def-path with plain generic argument lists removed: `a::B::<T>::f::<C>` -> `a::B::f`,
    `x::<impl a::B<T>>::f` -> `x::<impl a::B>::f`"""
    if not d:
        return ''
    prev = None
    while prev != d:
        prev = d
        d = _GEN.sub('', d)
    return d


def callee_def(t):
    return t['callee']['def'] if t['k'] == 'call' else None


def callee_resolved(t):
    if t['k'] != 'call':
        return None
    r = t['callee'].get('resolved')
    return r['def'] if r else None


def path_endswith(path, name):
    """def-path match on `::` boundaries: 'a::b::c' matches 'c', 'b::c', 'a::b::c'"""
    if path is None:
        return False
    return path == name or path.endswith('::' + name)


def callee_matches(t, names):
    if t['k'] != 'call':
        return False
    d = t['callee']['def']
    r = callee_resolved(t)
    for n in names:
        if path_endswith(d, n) or path_endswith(r, n):
            return True
    return False


# ----------------------------------------------------------------------------- program

class Program:
    def __init__(self, facts, reach=None):
        self.facts = facts
        self.reach = reach
        self.fns = [Fn(j) for j in facts['fns']]
        self.by_path = {}
        for f in self.fns:
            self.by_path.setdefault(f.path, f)
        self.adts = {a['path']: a for a in facts['adts']}

    @classmethod
    def load(cls, facts_path, reach_path=None):
        with open(facts_path) as fh:
            facts = json.load(fh)
        reach = None
        if reach_path:
            with open(reach_path) as fh:
                reach = json.load(fh)
        return cls(facts, reach)

    def fn(self, path):
        """exact def-path lookup, or unique suffix match on :: boundary"""
        if path in self.by_path:
            return self.by_path[path]
        c = [f for f in self.fns if path_endswith(f.path, path)]
        if len(c) == 1:
            return c[0]
        return None

    def find(self, substr, kind=None):
        return [f for f in self.fns if substr in f.path and (kind is None or f.kind == kind)]

    def fn_inlined(self, path, keep=(), module=None, max_rounds=3):
        """the body of `path` with its calls to crate-private helper functions inlined (MIR-level inlining, see inline_calls): what a
        structural rule sees is then the same whether a piece of the anchored function was moved into a helper or not.
        keep: callee names the rules themselves look for by name (never inlined); module: only helpers whose path starts with it."""
        f = self.fn(path)
        if f is None:
            return None
        key = (f.path, tuple(sorted(keep)), module, max_rounds)
        cache = self.__dict__.setdefault('_inl', {})
        if key not in cache:
            def select(h, t):
                if h.name in keep or h.kind != 'Fn' and h.kind != 'AssocFn':
                    return False
                if module is not None and not short(h.path).startswith(module):
                    return False
                return str(h.j.get('vis') or '').startswith('Restricted')
            cache[key] = inline_calls(self, f, select, max_rounds=max_rounds)
        return cache[key]

    def closures_of(self, parent_path):
        return [f for f in self.fns if f.kind == 'Closure' and f.j.get('parent') == parent_path]

    def adt(self, path):
        if path in self.adts:
            return self.adts[path]
        c = [a for p, a in self.adts.items() if path_endswith(p, path)]
        return c[0] if len(c) == 1 else None

    def variants(self, adt_path):
        a = self.adt(adt_path)
        return {v['idx']: v['name'] for v in a['variants']}

    def variant_idx(self, adt_path, name):
        a = self.adt(adt_path)
        for v in a['variants']:
            if v['name'] == name:
                return v['idx']
        return None

    def impl_fns(self, trait_suffix, self_ty_pred):
        out = []
        for f in self.fns:
            t = f.j.get('impl_trait')
            if t and path_endswith(t, trait_suffix) and self_ty_pred(f.j.get('impl_self_ty', '')):
                out.append(f)
        return out


# ----------------------------------------------------------------------------- analyses

def strip_refs(fn, op, depth=12):
    """follow single-definition temporaries through use/ref/deref copies to a root place.
    returns a place dict (possibly with projections) or None"""
    pl = op_place(op)
    return resolve_place(fn, pl, depth)


def resolve_place(fn, pl, depth=12):
    """Normalise a place: while its base local is a single-def temporary defined as `&X`/`&mut X`/use X
    (and the place derefs it or is bare), substitute. Returns place dict."""
    while pl is not None and depth > 0:
        depth -= 1
        l = pl['l']
        decl = fn.locals[l]
        if decl.get('arg') or l == 0:
            return pl
        sd = fn.single_def(l)
        if sd is None:
            return pl
        _, idx, rv = sd
        proj = list(pl['p'])
        if idx == 'term':
            # `Deref::deref(&X)` / `DerefMut::deref_mut(&mut X)` of std containers (Vec -> slice, String -> str): alias of X's contents
            if rv['k'] == 'call' and rv['callee']['name'] in ('deref', 'deref_mut') and not rv['callee'].get('local') \
               and path_endswith(rv['callee'].get('trait') or '', ('ops::DerefMut' if rv['callee']['name'] == 'deref_mut' else 'ops::Deref')) \
               and (rv['callee'].get('self_ty') or '').startswith(('std::vec::Vec<', 'std::string::String', 'std::boxed::Box<')):
                a = op_place(rv['args'][0])
                if a is not None and proj and proj[0] == 'deref':
                    pl = {'l': a['l'], 'p': list(a['p']) + proj}
                    continue
                if a is not None and not proj:
                    pl = {'l': a['l'], 'p': list(a['p']), 'ref': True}
                    continue
            return pl
        if rv['k'] == 'ref':
            if proj and proj[0] == 'deref':
                pl = {'l': rv['pl']['l'], 'p': list(rv['pl']['p']) + proj[1:]}
                continue
            if not proj:
                # the temp *is* a reference to X: report as X (reference identity)
                pl = {'l': rv['pl']['l'], 'p': list(rv['pl']['p']), 'ref': True}
                # keep flag but continue resolving
                continue
            return pl
        if rv['k'] == 'use' and op_place(rv['op']) is not None and fn.locals[l]['ty'].startswith(('&', '*')):
            # copies/moves of *references* keep the identity of the referent; moved values do not
            src = op_place(rv['op'])
            pl = {'l': src['l'], 'p': list(src['p']) + proj}
            continue
        return pl
    return pl


def same_place(a, b):
    return a is not None and b is not None and place_key(a) == place_key(b)


class DSP:
    """Discriminant-set propagation for one place in one function.

    state[block] = set of variant indices the place may hold at block entry (None = unknown/all).
    Refinement on `switchInt(discriminant(place))` edges. The place must not be assigned / mutably
    borrowed in the function (checked by caller when it matters)."""

    def __init__(self, fn, place, all_variants, extra_refine=None, kill_defs=False):
        self.fn = fn
        self.place = place
        self.allv = frozenset(all_variants)
        self.extra_refine = extra_refine
        # kill_defs: the place is an owned local that may be assigned again (a loop variable): a block that assigns to it (statement or
        # call destination) forgets what was known
        self.kill_defs = kill_defs
        self.entry = {}
        self.edge = {}
        self._run()

    def _discr_locals(self):
        """locals that hold discriminant(place) (possibly via refs to the place)"""
        out = {}
        for blk in self.fn.blocks:
            if blk['cleanup']:
                continue
            for st in blk['stmts']:
                if st['k'] == 'assign' and st['rv']['k'] == 'discriminant' and is_local(st['pl']):
                    src = resolve_place(self.fn, st['rv']['pl'])
                    if same_place(src, self.place):
                        out[st['pl']['l']] = blk['id']
        return out

    def _run(self):
        fn = self.fn
        dl = self._discr_locals()
        self.discr_locals = dl
        entry = {0: self.allv}
        work = deque([0])
        while work:
            b = work.popleft()
            cur = entry[b]
            t = fn.term(b)
            outs = []
            if self.kill_defs:
                if any(st['k'] == 'assign' and st['pl']['l'] == self.place['l'] for st in fn.blocks[b]['stmts']):
                    cur = self.allv
                if t['k'] == 'call' and t.get('dest') and t['dest']['l'] == self.place['l']:
                    outs = [(s, self.allv) for s in fn.succ(b)]
            if outs:
                pass
            elif t['k'] == 'switch' and op_place(t['discr']) is not None and is_local(op_place(t['discr'])) and op_place(t['discr'])['l'] in dl and dl[op_place(t['discr'])['l']] == b:
                listed = set()
                for v, tg in t['targets']:
                    listed.add(v)
                    outs.append((tg, cur & {v}))
                outs.append((t['otherwise'], cur - listed))
            else:
                ref = None
                if self.extra_refine is not None:
                    ref = self.extra_refine(fn, b, cur)
                if ref is not None:
                    outs = ref
                else:
                    outs = [(s, cur) for s in fn.succ(b)]
            for tg, st in outs:
                if fn.blocks[tg]['cleanup']:
                    continue
                self.edge[(b, tg)] = self.edge.get((b, tg), frozenset()) | st
                if not st:
                    # infeasible edge: do not propagate
                    continue
                old = entry.get(tg)
                new = st if old is None else (old | st)
                if new != old:
                    entry[tg] = frozenset(new)
                    work.append(tg)
        self.entry = entry

    def at(self, b):
        return self.entry.get(b, frozenset())

    def feasible(self, b):
        return bool(self.entry.get(b))


def switch_on_discriminant(fn, b):
    """if block b ends in switchInt(discriminant(P)) with the discriminant computed in b, return (P_resolved, targets, otherwise)"""
    t = fn.term(b)
    if t['k'] != 'switch':
        return None
    pl = op_place(t['discr'])
    if pl is None or not is_local(pl):
        return None
    for st in fn.stmts(b):
        if st['k'] == 'assign' and is_local(st['pl'], pl['l']) and st['rv']['k'] == 'discriminant':
            return resolve_place(fn, st['rv']['pl']), t['targets'], t['otherwise']
    return None


def bool_switch(fn, b):
    """if block b ends in switchInt(bool local): returns (local, false_target, true_target)"""
    t = fn.term(b)
    if t['k'] != 'switch' or t.get('discr_ty') != 'bool':
        return None
    pl = op_place(t['discr'])
    if pl is None:
        return None
    f = None
    for v, tg in t['targets']:
        if v == 0:
            f = tg
    if f is None:
        return None
    return pl, f, t['otherwise']


def call_result_bool_edges(fn, call_block):
    """For a call in `call_block` returning bool into local r, find the switch on r that follows
    (through goto-only / statement-free chains) and return (switch_block, false_target, true_target)."""
    t = fn.term(call_block)
    if t['k'] != 'call' or t.get('target') is None or not is_local(t['dest']):
        return None
    r = t['dest']['l']
    b = t['target']
    seen = set()
    vals = {r}
    while b not in seen:
        seen.add(b)
        # track simple copies
        for st in fn.stmts(b):
            if st['k'] == 'assign' and is_local(st['pl']) and st['rv']['k'] == 'use':
                src = op_place(st['rv']['op'])
                if src is not None and is_local(src) and src['l'] in vals:
                    vals.add(st['pl']['l'])
        bs = bool_switch(fn, b)
        if bs is not None and is_local(bs[0]) and bs[0]['l'] in vals:
            return b, bs[1], bs[2]
        tt = fn.term(b)
        if tt['k'] == 'goto':
            b = tt['target']
            continue
        return None
    return None


def def_roots(fn, l, depth=10, _seen=None):
    """all reaching definitions of whole-local `l`, followed through plain copies/moves of other locals.
    returns list of (block, idx, rv_or_term); arguments yield ('arg', l, None)."""
    if _seen is None:
        _seen = set()
    if l in _seen or depth <= 0:
        return []
    _seen.add(l)
    out = []
    if fn.locals[l].get('arg'):
        out.append(('arg', l, None))
    for (b, idx, rv) in fn.defs().get(l, []):
        if idx != 'term' and rv['k'] == 'use':
            src = op_place(rv['op'])
            if src is not None and is_local(src):
                out.extend(def_roots(fn, src['l'], depth - 1, _seen))
                continue
        out.append((b, idx, rv))
    return out


def _norm_rv(rv, norm):
    k = rv['k']
    if k == 'aggregate':
        return (k, rv.get('agg'), norm(rv.get('adt') or rv.get('def') or ''), rv.get('vname'))
    if k == 'binop' or k == 'unop':
        return (k, rv['op'])
    if k == 'cast':
        return (k, rv['kind'])
    if k == 'ref':
        return (k,)
    if k == 'use':
        c = op_const(rv['op'])
        if c is not None and c.get('k') in ('int', 'bool', 'char', 'str'):
            return (k, 'const', c['v'])
        return (k,)
    return (k,)


def cfg_isomorphic(f1, f2, norm=lambda s: s, ignore_stmt=False):
    """lock-step walk of two bodies from bb0: same terminator kinds, same (normalised) callees, same switch values,
    same statement skeleton. returns (True, n_blocks) or (False, description)"""
    m = {0: 0}
    work = deque([(0, 0)])
    seen = set()
    while work:
        a, b = work.popleft()
        if (a, b) in seen:
            continue
        seen.add((a, b))
        ba, bb = f1.blocks[a], f2.blocks[b]
        if not ignore_stmt:
            sa = [_norm_rv(s['rv'], norm) for s in ba['stmts'] if s['k'] == 'assign']
            sb = [_norm_rv(s['rv'], norm) for s in bb['stmts'] if s['k'] == 'assign']
            if sa != sb:
                return False, 'statements differ in bb%d / bb%d: %s vs %s' % (a, b, sa, sb)
        ta, tb = ba['term'], bb['term']
        if ta['k'] != tb['k']:
            return False, 'terminator kinds differ in bb%d / bb%d: %s vs %s' % (a, b, ta['k'], tb['k'])
        if ta['k'] == 'call':
            ca = norm(callee_resolved(ta) or ta['callee']['def'])
            cb = norm(callee_resolved(tb) or tb['callee']['def'])
            if ca != cb:
                return False, 'callees differ in bb%d / bb%d: %s vs %s' % (a, b, ca, cb)
            if len(ta['args']) != len(tb['args']):
                return False, 'argument counts differ in bb%d / bb%d' % (a, b)
        if ta['k'] == 'switch':
            if [v for v, _ in ta['targets']] != [v for v, _ in tb['targets']]:
                return False, 'switch values differ in bb%d / bb%d' % (a, b)
        ea = [tg for _, tg in f1.succ_edges(a) if not f1.blocks[tg]['cleanup']]
        eb = [tg for _, tg in f2.succ_edges(b) if not f2.blocks[tg]['cleanup']]
        if len(ea) != len(eb):
            return False, 'successor counts differ in bb%d / bb%d' % (a, b)
        for x, y in zip(ea, eb):
            if x in m and m[x] != y:
                return False, 'block correspondence breaks at bb%d->bb%d / bb%d->bb%d' % (a, x, b, y)
            m[x] = y
            work.append((x, y))
    return True, len(m)


def reaching_defs(fn, l):
    """forward dataflow: for whole-local `l`, map block -> set of definition ids (block, idx) reaching block ENTRY.
    ('entry', 0) stands for the value on function entry (argument / uninitialised)."""
    defs_in = {b: [] for b in fn.live_blocks()}
    for (b, idx, _rv) in fn.defs().get(l, []):
        defs_in[b].append(idx)
    out = {}
    entry = {0: frozenset([('entry', 0)])}
    work = deque([0])
    while work:
        b = work.popleft()
        cur = entry[b]
        if defs_in.get(b):
            last = defs_in[b][-1]
            cur_out = frozenset([(b, last)])
        else:
            cur_out = cur
        out[b] = cur_out
        for s in fn.succ(b):
            old = entry.get(s)
            new = cur_out if old is None else (old | cur_out)
            if new != old:
                entry[s] = new
                work.append(s)
    return entry


def defs_reaching_use(fn, l, block, stmt_idx=None):
    """definitions of local l reaching a use in `block` at statement index stmt_idx (None = terminator)"""
    entry = reaching_defs(fn, l).get(block, frozenset())
    last = None
    for (b, idx, _rv) in fn.defs().get(l, []):
        if b == block and idx != 'term' and (stmt_idx is None or idx < stmt_idx):
            last = (b, idx)
    return frozenset([last]) if last is not None else entry


def def_rv(fn, d):
    """rvalue / terminator of a definition id (block, idx)"""
    b, idx = d
    if b == 'entry':
        return None
    if idx == 'term':
        return fn.term(b)
    return fn.stmts(b)[idx]['rv']


def question_mark(fn, call_block):
    """`expr?` shape: call in call_block returns a Result into r; the next block calls Try::branch(r) -> d; the block
    after switches on discriminant(d). returns dict(switch=, cont=, brk=, d=) or None"""
    t = fn.term(call_block)
    if t['k'] != 'call' or t.get('target') is None or not is_local(t['dest']):
        return None
    r = t['dest']['l']
    b1 = t['target']
    t1 = fn.term(b1)
    if t1['k'] != 'call' or not callee_matches(t1, ['ops::Try::branch']) or t1.get('target') is None:
        return None
    a = op_place(t1['args'][0])
    if a is None or not is_local(a, r):
        return None
    d = t1['dest']
    b2 = t1['target']
    sw = switch_on_discriminant(fn, b2)
    if sw is None or not same_place(sw[0], d):
        return None
    cont = brk = None
    for v, tg in sw[1]:
        if v == 0:
            cont = tg
        elif v == 1:
            brk = tg
    if cont is None:
        return None
    return dict(switch=b2, cont=cont, brk=brk, d=d)


def continue_payload_local(fn, qm):
    """the user local that receives `(d as Continue).0` (followed through one move)"""
    out = []
    for st in fn.stmts(qm['cont']):
        if st['k'] == 'assign' and st['rv']['k'] == 'use':
            src = op_place(st['rv']['op'])
            if src is not None and src['l'] == qm['d']['l'] and any(isinstance(p, dict) and p.get('dc') == 0 for p in src['p']):
                out.append(st['pl']['l'])
            elif src is not None and is_local(src) and src['l'] in out and is_local(st['pl']):
                out.append(st['pl']['l'])
    return out


def mut_borrow_blocks(fn, place):
    """blocks containing `&mut place` (exact place or a prefix-compatible borrow of the whole local)"""
    out = []
    for blk in fn.blocks:
        if blk['cleanup']:
            continue
        for i, st in enumerate(blk['stmts']):
            if st['k'] == 'assign' and st['rv']['k'] == 'ref' and st['rv']['mut']:
                r = resolve_place(fn, st['rv']['pl'])
                if same_place(r, place) or (r['l'] == place['l'] and len(r['p']) < len(place['p']) and [_proj_key(x) for x in r['p']] == [_proj_key(x) for x in place['p'][:len(r['p'])]]):
                    out.append((blk['id'], i))
    return out


def between(fn, start_block, end_block, barrier=()):
    """blocks on some path start_block ->* end_block (inclusive), not passing through barrier blocks"""
    fwd = fn.reachable_from(start_block, avoid=barrier)
    # backward reachability
    back = {end_block}
    q = deque([end_block])
    while q:
        b = q.popleft()
        for p in fn.pred(b):
            if p in back or p in barrier:
                continue
            back.add(p)
            q.append(p)
    return fwd & back


# ----------------------------------------------------------------------------- MIR-level inlining

def _remap(x, lmap, bmap, pbase):
    """deep copy of a MIR JSON fragment with locals, block ids and promoted indices renumbered"""
    if isinstance(x, list):
        return [_remap(y, lmap, bmap, pbase) for y in x]
    if not isinstance(x, dict):
        return x
    out = {}
    is_place = isinstance(x.get('l'), int) and isinstance(x.get('p'), list)
    for k, v in x.items():
        if is_place and k == 'l':
            out[k] = lmap(v)
        elif k == 'index' and isinstance(v, int):
            out[k] = lmap(v)
        elif k in ('target', 'otherwise', 'unwind') and isinstance(v, int) and not isinstance(v, bool):
            out[k] = bmap(v)
        elif k == 'targets' and isinstance(v, list):
            out[k] = [[a, bmap(b)] for a, b in v]
        elif k == 'promoted' and isinstance(v, int) and not isinstance(v, bool) and x.get('k') == 'unevaluated':
            out[k] = v + pbase
        else:
            out[k] = _remap(v, lmap, bmap, pbase)
    return out


def inline_calls(prog, fn, select, max_rounds=3, max_blocks=6000):
    """returns a new Fn: `fn` with every call to a local function h for which select(h, term) holds replaced by h's body
    (parameters become fresh locals assigned from the argument operands, `return` becomes an assignment of the callee's _0 to the
    call's destination followed by a goto to the call's target). Recursive callees are left alone. Repeats up to max_rounds."""
    import copy
    j = copy.deepcopy(fn.j)
    j.setdefault('promoted', [])
    inlined = []
    for _round in range(max_rounds):
        changed = False
        nblocks = len(j['blocks'])
        for b in range(nblocks):
            blk = j['blocks'][b]
            t = blk['term']
            if t['k'] != 'call' or blk['cleanup'] or t.get('target') is None:
                continue
            c = t['callee']
            if not c.get('local'):
                continue
            h = prog.by_path.get(c['def']) or prog.by_path.get(c.get('resolved') or '')
            if h is None or h.path == fn.path or not select(h, t):
                continue
            if any(tc['callee'].get('local') and short(tc['callee']['def']) in (short(h.path), short(fn.path)) for _, tc in h.calls()):
                continue  # recursion
            if len(j['blocks']) + len(h.blocks) > max_blocks or h.arg_count != len(t['args']):
                continue
            base_l, base_b, base_p = len(j['locals']), len(j['blocks']), len(j['promoted'])
            for d in h.locals:
                nd = dict(d)
                nd['id'] = base_l + d['id']
                nd['arg'] = False
                nd['inlined_from'] = h.path
                j['locals'].append(nd)
            j['promoted'] += copy.deepcopy(h.j.get('promoted') or [])
            lmap = lambda l, base_l=base_l: l + base_l
            bmap = lambda x, base_b=base_b: x + base_b
            for hb in h.blocks:
                nb = _remap(hb, lmap, bmap, base_p)
                nb['id'] = base_b + hb['id']
                if nb['term']['k'] == 'return':
                    nb['stmts'] = nb['stmts'] + [dict(k='assign', pl=t['dest'], rv=dict(k='use', op=dict(k='move', pl=dict(l=base_l, p=[]))), span=t.get('span'), exp=False)]
                    nb['term'] = dict(k='goto', target=t['target'], span=t.get('span'), exp=False)
                j['blocks'].append(nb)
            for i, a in enumerate(t['args']):
                blk['stmts'] = blk['stmts'] + [dict(k='assign', pl=dict(l=base_l + 1 + i, p=[]), rv=dict(k='use', op=a), span=t.get('span'), exp=False)]
            blk['term'] = dict(k='goto', target=base_b, span=t.get('span'), exp=False, inlined_call=c['def'])
            inlined.append(dict(caller_block=b, helper=h.path, block_base=base_b, local_base=base_l))
            changed = True
        if not changed:
            break
    j['inlined'] = inlined
    return Fn(j)
