"""debug helper: dump.py <facts.json> <fn-substring> [...]"""
import sys
sys.path.insert(0, __import__('os').path.dirname(__import__('os').path.abspath(__file__)))
from mirlib import Program
p = Program.load(sys.argv[1])
for pat in sys.argv[2:]:
    for f in p.fns:
        if pat in f.path:
            print(f.dump()); print()
