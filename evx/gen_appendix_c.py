#!/usr/bin/env python3
"""regenerates DESIGN.md Appendix C from evx/mutants/*.json and mutants/test_survival.json"""
import glob, json, os
HERE = os.path.dirname(os.path.abspath(__file__))
ROOT = os.path.dirname(HERE)
p = os.path.join(ROOT, 'DESIGN.md')
s = open(p).read()
start = s.index('## Appendix C')
end = s.index('## Appendix D')
surv = json.load(open(os.path.join(HERE, 'mutants', 'test_survival.json')))
rows = []
n = neg = passing = 0
for fn in sorted(glob.glob(os.path.join(HERE, 'mutants', '*.json'))):
    if fn.endswith('test_survival.json'):
        continue
    for m in json.load(open(fn)):
        n += 1
        silent = m.get('expect') == 'silent'
        neg += silent
        sv = surv.get(m['id'], 'not run')
        txt = {'passes-tests': 'passes all tests'}.get(sv, sv.replace('killed-by-tests:', 'killed (') + ' failing)' if sv.startswith('killed') else sv)
        if not silent and sv == 'passes-tests':
            passing += 1
        base = (' on `%s`' % m['base_patch'].split('/')[1]) if m.get('base_patch') else ''
        rows.append('| %s | `%s`%s | %s | %s | %s |' % ('/'.join(m['properties'][:3]), m['id'], base, 'silent' if silent else 'reported', ', '.join(m.get('rules') or []) or '-', txt))
text = '''## Appendix C — seeded mutants (`evx/mutants/*.json`), the rule that reports each, and whether /repo's own tests kill it

%d edits; %d are negative controls (behaviour-preserving, must stay silent). Of the %d property-breaking edits, **%d compile and
pass the complete test suite of /repo** (`evx/mutant_survival.py`, results in `evx/mutants/test_survival.json`) — for those the
check is the only line of defence; the others are killed by the suite on the inputs it samples, whereas the rule holds for all
inputs. "on `rcNN_k`" marks an edit applied on top of that independent refactoring (`/verif/refactors/`). The thorough tier re-runs
every mutant of a property, every independent seeded change of that property and every refactoring control on scratch copies
(regenerate this table with `evx/gen_appendix_c.py`).

| property | mutant | expected | rule(s) that report it | repo test suite |
|---|---|---|---|---|
%s

''' % (n, neg, n - neg, passing, '\n'.join(rows))
s = s[:start] + text + s[end:]
open(p, 'w').write(s)
print(n, neg, passing)
