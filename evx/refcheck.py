#!/usr/bin/env python3
"""refcheck.py <patch.diff> [--name NAME --origin PID --store] [--no-tests]

Negative control from an independently produced behaviour-preserving refactoring:
 1. the patch applies to a scratch copy of /repo's HEAD and the repository's own test suite passes (default and serde features);
 2. all 16 registered checks (quick tier) are run against the patched copy; every one must stay silent.
With --store the patch is kept under /verif/refactors/<NAME>/ (patch.diff, meta.json) and from then on is part of the
negative controls of the mutant self-test. Scratch copies live in a temp dir outside /repo and /verif and are removed."""
import argparse
import json
import os
import re
import shutil
import subprocess
import sys
import tempfile

HERE = os.path.dirname(os.path.abspath(__file__))
ROOT = os.path.dirname(HERE)
ALL = ['C%02d' % i for i in range(1, 17)]


def run(cmd, cwd, env=None):
    r = subprocess.run(cmd, cwd=cwd, env=env, capture_output=True, text=True)
    return r.returncode, r.stdout + r.stderr


def tests_summary(out):
    res = re.findall(r'test result: \w+\. (\d+) passed; (\d+) failed', out)
    return sum(int(a) for a, b in res), sum(int(b) for a, b in res)


def check_patch(patch, tests=True, pids=ALL):
    d = tempfile.mkdtemp(prefix='evx-ref-')
    root = os.path.join(d, 'repo')
    report = {}
    try:
        shutil.copytree('/repo', root, ignore=shutil.ignore_patterns('target', 'benches'))
        run(['git', 'checkout', '-q', '--', '.'], root)
        rc, out = run(['git', 'apply', '--whitespace=nowarn', patch], root)
        report['patch_applies'] = rc == 0
        if rc != 0:
            report['apply_error'] = out[-400:]
            return report
        if tests:
            env = dict(os.environ, CARGO_NET_OFFLINE='true', CARGO_TARGET_DIR=os.path.join(d, 'target'))
            for feat, label in (([], 'tests_default'), (['--features', 'serde'], 'tests_serde')):
                rc, out = run(['cargo', 'test', '--offline'] + feat, root, env)
                p, f = tests_summary(out)
                report[label] = 'passes (%d passed)' % p if rc == 0 and f == 0 else 'FAILS (%d passed, %d failed) %s' % (p, f, out[-300:] if p + f == 0 else '')
            shutil.rmtree(os.path.join(d, 'target'), ignore_errors=True)
        env2 = dict(os.environ, EVX_REPO=root, EVX_NO_EXTRAS='1')
        alarms = {}
        for pid in pids:
            r = subprocess.run([sys.executable, os.path.join(HERE, 'check.py'), pid, '--no-evidence'], env=env2, capture_output=True, text=True)
            if r.returncode != 0:
                rules = sorted(set(re.findall(r'rule=(\S+) instance=(.+?) kind=', r.stdout)))
                alarms[pid] = dict(rc=r.returncode, reports=['%s %s' % x for x in rules][:10], tail=(r.stdout + r.stderr)[-300:] if not rules else '')
        report['alarms'] = alarms
        report['silent'] = [p for p in pids if p not in alarms]
        return report
    finally:
        shutil.rmtree(d, ignore_errors=True)


def main():
    ap = argparse.ArgumentParser()
    ap.add_argument('patch')
    ap.add_argument('--name')
    ap.add_argument('--origin')
    ap.add_argument('--note', default='')
    ap.add_argument('--store', action='store_true')
    ap.add_argument('--no-tests', action='store_true')
    a = ap.parse_args()
    patch = os.path.abspath(a.patch)
    rep = check_patch(patch, tests=not a.no_tests)
    print(json.dumps(rep, indent=1))
    if a.store:
        dst = os.path.join(ROOT, 'refactors', a.name)
        os.makedirs(dst, exist_ok=True)
        if os.path.abspath(os.path.join(dst, 'patch.diff')) != patch:
            shutil.copy(patch, os.path.join(dst, 'patch.diff'))
        meta = dict(name=a.name, origin='independent sub-agent asked for behaviour-preserving refactorings of the code anchoring %s (given only the property text and a scratch worktree)' % a.origin,
                    anchored_property=a.origin, note=a.note, results=rep)
        mp = os.path.join(dst, 'meta.json')
        if os.path.exists(mp):
            old = json.load(open(mp))
            for k in ('history', 'note'):
                if old.get(k) and not meta.get(k):
                    meta[k] = old[k]
        json.dump(meta, open(mp, 'w'), indent=1)
    return 0 if rep.get('patch_applies') and not rep.get('alarms') else 1


if __name__ == '__main__':
    sys.exit(main())
