#!/usr/bin/env python3
"""Regenerates /verif/MANIFEST.json from the table below (kept in one place so the manifest stays valid)."""
import json
import os
import subprocess

VERIF = os.path.dirname(os.path.dirname(os.path.abspath(__file__)))

# pid -> (category, text, design_ref, level_note, technique)
CHECKS = {
    'C01': ('other',
            'Exhaustive enumeration of every panic-capable construct in evalexpr code (MIR Assert terminators, diverging calls, indirect calls, and call/drop/vtable edges into std whose transitive std MIR reaches a panic leaf outside a reviewed trusted-leaf table), found by a monomorphic instantiation walk from every local function over the default numeric types and the three provided contexts; each site must be discharged by a structural guard rule re-validated on every run (arity guard dominance, fixed/ranged tuple length, non-empty slice, stack/pop pairing, discriminant-set infeasibility, tokenizer cutoff path enumeration, constant radix/arith) or by a listed manual entry. New unguarded unwrap/index/arithmetic/shift anywhere in the crate fails. Thorough tier: overflow checks on and off, features regex/rand/serde.',
            'DESIGN.md §4 C01',
            'Trusted: nightly std MIR standing in for the pinned toolchain\'s std; trusted-std-leaf table (rules/c01_trust.py); one manual invariant (M-seq) for two unreachable!() in tokens_to_operator_tree; user functions do not panic. Not decided: stack exhaustion (recursion depth is a run-time quantity), memory exhaustion.',
            'whole-program panic-site enumeration over MIR (monomorphic reachability into std) + dominance/provenance guard rules'),
    'C02': ('other',
            'Clause level: the tables the tree builder consults (precedence order for all 351 pairs of documented operators, associativity, arity, prefix/binary split, char->token->operator symbol chain, operand-boundary sets) are extracted from MIR for every enum variant and compared with the documented table; in addition the decision procedure of insert_back_prioritized (error / descend into the last child / rotate / push) is reconstructed from all its MIR paths and compared with the reference decision of precedence climbing for every combination of operator-kind classes (T7). Every single insertion step is thereby decided for all operator kinds; the induction over the token sequence (that the steps compose to the reference tree) is not mechanised.',
            'DESIGN.md §4 C02',
            'Trusted: nightly rustc MIR of the same source; documentation tables as oracle; the reference decision function written from the documented rules (rules/c02.py t7). Not decided: the inductive argument that correct single steps yield the reference tree for every token sequence.',
            'abstract interpretation of MIR per enum variant (table extraction) vs documentation oracle; decision-procedure agreement over all operator-kind classes'),
    'C12': ('other',
            'Wrapper matrix over all 48 typed/untyped entry points (24 string-level, 24 tree-level) plus the 3 string pipelines: each wrapper is abstractly interpreted over its MIR once per case of the base evaluator result (6 value variants + error) and must return exactly the projection its name promises, for every input. Context-free forms must forward to the same-typed _with_context_mut form with a fresh HashMapContext.',
            'DESIGN.md §4 C12',
            'Trusted: nightly rustc MIR; std semantics of `?` (Try::branch/FromResidual). Determinism of repeated evaluation is C15. The evaluator behind the wrappers is not decided here.',
            'value-numbering abstract interpretation of wrapper MIR per result case (wrapper matrix)'),
    'C14': ('other',
            'Clause level: the 10 identifier-iterator filter closures are tabulated for all 32 operator variants and must select exactly the variant set their method name states and yield that variant\'s identifier; mutable twins agree with immutable ones; the two traversals are structurally identical (lock-step CFG comparison); not-found errors are constructed only from the evaluated node\'s / the requested identifier. Pre-order correctness of the explicit-stack traversal is not decided.',
            'DESIGN.md §4 C14',
            'Trusted: nightly rustc MIR; std Iterator::filter_map. Not decided: traversal order for every tree shape; renaming invariance follows only as far as classification and error provenance.',
            'closure tabulation by abstract interpretation + sibling CFG cross-check + who-may-construct rule'),
    'C05': ('other',
            'Clause level: (S5.1) on every path through the separator branch of the tree builder the sequence node left on top of the stack received a fresh placeholder as its last child (all four sub-branches, path enumeration by abstract interpretation); (S5.2) collapsing absorbs only sequence nodes, never the brace level\'s RootNode (explicit guard or precedence table); (S5.3) evaluation arms Tuple -> tuple of all arguments, Chain -> last argument, empty RootNode -> Empty; (S5.4) Tuple binds tighter than Chain. Tree equality for all mixed programs is not decided.',
            'DESIGN.md §4 C05',
            'Trusted: nightly rustc MIR; std Vec push/pop semantics. Not decided: that the root_stack algorithm yields the reference tree for every program; the clauses are necessary conditions that failed for `1, 2; 3` and `1; 2, 3; 4` before the fixes.',
            'sibling-branch must-pass-through rule over enumerated MIR paths + precedence-table evaluation of the absorb guard'),
    'C13': ('other',
            'Clause level: feasible-kind analysis of the two insertion modes of insert_back_prioritized (abstract interpretation once per operator kind): plain push infeasible for every arity-2 operator, rotation infeasible for parenthesis groups and leaves; parenthesis accounting of `(`, `)` and end of input by dominance rules; every fixed-arity arm of Operator::eval/eval_mut checks its arity before any other outcome (must-pass-through). Completeness of rejection is not decided.',
            'DESIGN.md §4 C13',
            'Trusted: nightly rustc MIR; operator tables (C02). The recursive descent of insert_back_prioritized is covered inductively. Not decided: that every ill-formed token sequence is rejected.',
            'per-kind abstract interpretation (feasible-kind analysis) + dominance / must-pass-through rules'),
    'C04': ('other',
            'Clause level: effect table of all 11 HashMapContext methods on its three fields; set_value decided exhaustively over lookup hit/miss x type of existing value x type of new value (37 cases): same type overwrites regardless of content, different type returns the matching expected-type error with nothing written, miss inserts; ValueType::from / expected_type tables; the nine assignment arms of eval_mut read X, apply exactly the matching operator to (old X, e), write the result, for each failure world; clones share nothing (derived Clone, type walk). HashMap itself is trusted std.',
            'DESIGN.md §4 C04',
            'Trusted: nightly rustc MIR; std HashMap semantics. Not decided: what right-hand sides evaluate to (C03); histories are covered only as far as each single operation is decided for every abstract state.',
            'abstract interpretation of context methods and assignment arms over exhaustive type case splits; type walk'),
    'C08': ('other',
            'Structural: both recursive evaluators evaluate children in one forward pass over slice::Iter of self.children(), exactly one recursive call site under `?` (first error returned, nothing evaluated after it), the operator is not consulted before the loop exit edge (no short-circuit) and is applied once to the collected arguments; op-assign read-compute-write order by dominance; the mutable path neither clones nor restores the context.',
            'DESIGN.md §4 C08',
            'Trusted: nightly rustc MIR; std slice::Iter order and Vec::push. Accepted-idiom caveat: only the for-loop shape is recognised; another (equivalent) iteration idiom is reported as unrecognised.',
            'path / dominance / must-pass-through rules over evaluator MIR'),
    'C09': ('other',
            'Structural: the FunctionIdentifier arm is abstractly interpreted for every context result (Ok, each of the error variants) x builtin switch x table hit: the builtin table is consulted exactly when the context reported FunctionIdentifierNotFound and builtins are enabled, with the same identifier and argument; otherwise the context result is returned unchanged. builtin_function has one call site. Policy methods of the three contexts, namespaces of HashMapContext, the identifier classification in the tree builder (assignment => write, left-sided value => function, else read) and name agreement with the documentation are decided.',
            'DESIGN.md §4 C09',
            'Trusted: nightly rustc MIR; std HashMap. Not decided: argument values of the call forms (tree shape: C02/C05).',
            'case-split abstract interpretation + who-may-call + table agreement'),
    'C11': ('other',
            'Structural: immutable entry points take &C and the provided contexts contain no interior mutability (type walk, forbid(unsafe_code)); Operator::eval answers the nine assignment variants with the constant ContextNotMutable; eval_mut forwards the other 23 variants unchanged; context mutators are called only from the assignment arms; the two recursive evaluators are CFG-isomorphic up to _mut names; compile-fail witnesses show the empty contexts cannot be evaluated mutably.',
            'DESIGN.md §4 C11',
            'Trusted: rustc type/borrow checker, nightly MIR. User contexts with interior mutability are outside the provided-context claim.',
            'type facts + per-variant abstract interpretation + sibling CFG isomorphism + compile-fail witnesses'),
    'C06': ('other',
            'Clause level: escape table (exactly `\\"` and `\\\\`), string scanner (special characters, unterminated literal, no comment/operator recognition inside strings), classification order of words (int, float, bool, scientific join, identifier - first success decides), hex prefix/radix constants, consume = match for every path of one tokenizer iteration (229 paths enumerated), and payload pass-through from tokens to constant nodes - all by abstract interpretation of the tokenizer MIR. What std number parsing accepts is not decided.',
            'DESIGN.md §4 C06',
            'Trusted: nightly rustc MIR; i64/f64/bool FromStr and from_str_radix (std). Seen but outside this technique: the words inf/nan/infinity lex as floats.',
            'tokenizer path enumeration by abstract interpretation + table rules'),
    'C07': ('other',
            'Clause level: every path on which a comment was skipped pushes a Whitespace separator (must-pass-through); default character arm classifies with the Unicode char::is_whitespace; fusion only Literal+Literal, everything else its own element, whitespace yields no token; try_skip_comment returns Ok(true) only after `//` or a closed `/* */`, errors on unterminated `/*`, consumes nothing on false, line comments end at `\\n`; comment markers in strings are plain text (C06 R6.2).',
            'DESIGN.md §4 C07',
            'Trusted: nightly rustc MIR; std char::is_whitespace = Unicode White_Space. Not decided: tree equality for all separator assignments beyond the tokenizer clauses.',
            'must-pass-through / fusion rules over enumerated MIR paths of the character loop'),
    'C15': ('proof',
            'Type-level proof obligations discharged by rustc and by exhaustive walks: Send + Sync witnesses for the 8 public types (with a failing twin), unsafe_code forbidden and absent, no static / thread_local in the crate, no UnsafeCell and no Rc/Arc reachable from any of the 14 ADTs (type walk through std types), no body reaches process-global state except RandomState::new in HashMap::default, HashMap iteration order is never observed by evaluation. Together: data-race freedom and schedule-independent results of read-only evaluation. Zero-count rules are exercised on a fixture crate on every run.',
            'DESIGN.md §4 C15',
            'Trusted base: rustc trait solver, borrow checker and unsafe_code lint; std types are what their definitions say. User closures are Send + Sync by the bound on Function::new.',
            'compile-pass/compile-fail witnesses + exhaustive type walk + reachability rule (proof by type system)'),
    'C16': ('other',
            'Clause level (serde feature configuration): Deserialize for Node is deserialize_str + build_operator_tree with the error text passed through E::custom; witnesses that Value / HashMapContext over the default numeric types are Serialize + DeserializeOwned and Node is DeserializeOwned; derived impls serialise exactly `variables` and the builtin switch and rebuild `functions` from Default. Wire formats / bit-exact float round trips are not decided.',
            'DESIGN.md §4 C16',
            'Trusted: serde_derive expansion, rustc. Not decided: behaviour of concrete data formats.',
            'witness compilation + abstract interpretation of the visitor + derived-impl facts (serde configuration)'),
    'C03': ('other',
            'Clause level: the dispatch of every operator is decided for every combination of operand types (14 binary x 36 + 2 unary x 6 cases) by abstract interpretation of Operator::eval with symbolic payloads: two integers go to exactly the matching checked_* method (operands in order, result Int), other numeric pairs are converted to float and combined with the matching core::ops method (result Float), `^` always pow -> Float, string `+` concatenates, comparisons use the matching PartialOrd method, ==/!= are Value\'s derived equality, &&/||/! accept only booleans, every other type combination is a type error. The i64 checked_* implementations forward to i64::checked_* and turn None into the matching arithmetic error with operands in order. A compile-fail witness shows generic integer arithmetic cannot bypass the checked methods. Numeric values are not decided.',
            'DESIGN.md §4 C03',
            'Trusted: nightly rustc MIR; i64::checked_*, IEEE-754 operations, PartialOrd of std types. Accepted-idiom caveat: a value-dependent guard inside an arm (more than one path per type combination) is reported as a violation.',
            'per-arm abstract interpretation over the full operand-type matrix + compile-fail witness'),
    'C10': ('other',
            'Clause level: builtin_function(name) is interpreted for every name to obtain its closure; each closure is interpreted over a matrix of argument shapes/types: math::X / rounding / bit operations reach exactly the same-named numeric-trait method with tuple[0], tuple[1] in order and the f64/i64 implementations forward to the same-named std method; result typing (Float/Int/Boolean, typeof table, abs keeps type and reports overflow); the code accepts every documented argument amount; len and str::substring share String::len and slice with str::get; min/max/if return one of their arguments (no sentinel constant reaches a result). Numeric results themselves are not decided.',
            'DESIGN.md §4 C10',
            'Trusted: nightly rustc MIR; libm / f64 methods, i64 bit operations, str methods (std); documentation table as arity oracle. Not decided: values of shifts outside 0..63, NaN handling of min/max, bytes-vs-characters of len (only mutual consistency).',
            'builtin table by abstract interpretation (name -> closure -> trait method -> std method) vs documentation oracle'),
}

PENDING_REASON = 'check not yet built in this revision of the framework (design in DESIGN.md); not claimed until its rules run'


def main():
    props = []
    with open(os.path.join(VERIF, 'properties.jsonl')) as fh:
        for line in fh:
            if line.strip():
                props.append(json.loads(line)['id'])
    fix_commits = []
    try:
        out = subprocess.run(['git', '-C', '/repo', 'log', '--format=%h %s'], capture_output=True, text=True).stdout
        for l in out.splitlines():
            h, _, s = l.partition(' ')
            if s.startswith('fix:'):
                fix_commits.append(h)
    except OSError:
        pass
    checks = []
    na = []
    for pid in props:
        if pid in CHECKS:
            cat, text, ref, note, tech = CHECKS[pid]
            checks.append({
                'property_id': pid,
                'quick_cmd': 'python3 evx/check.py %s --tier quick' % pid,
                'thorough_cmd': 'python3 evx/check.py %s --tier thorough' % pid,
                'evidence_file': '/verif/evidence/%s.json' % pid,
                'replay_cmd_template': 'python3 evx/check.py %s --replay {path}' % pid,
                'engine': 'evx',
                'level_claimed': {'category': cat, 'text': text, 'design_ref': ref},
                'level_note': note,
                'technique': tech,
            })
        else:
            na.append({'property_id': pid, 'reason': NA.get(pid, PENDING_REASON)})
    m = {
        'version': 1,
        'setup_cmd': 'cd /verif/evx/driver && CARGO_NET_OFFLINE=true cargo build --offline --release',
        'hooks': {
            'guard': 'none (no source hooks are needed: every check analyses the unmodified crate through a rustc_private driver)',
            'enable': 'n/a - checks compile /repo\'s working tree with the nightly driver (rustc -Zmir-opt-level=0 --emit=metadata), no cfg flag',
            'baseline_off_cmd': 'cd /repo && cargo test --workspace --no-fail-fast --offline',
            'source_commits': fix_commits,
            'add_only': True,
        },
        'engines': [
            {'name': 'evx', 'path': '/verif/evx', 'serves_properties': sorted(CHECKS),
             'kind_free_text': 'static analysis: rustc_private driver exporting type-checked MIR facts + monomorphic reachability; Python rule modules (dominance, discriminant-set propagation, abstract interpretation per enum variant, provenance); compile-pass/compile-fail witnesses'},
        ],
        'checks': checks,
        'notes': 'All verdicts are computed from /repo\'s current source (MIR/type facts); nothing in a registered check executes evalexpr. known findings: /verif/known_findings.json',
        'not_applicable': na,
    }
    with open(os.path.join(VERIF, 'MANIFEST.json'), 'w') as fh:
        json.dump(m, fh, indent=1)
    print('MANIFEST.json: %d checks, %d not_applicable' % (len(checks), len(na)))


NA = {}

if __name__ == '__main__':
    main()
