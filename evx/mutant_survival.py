#!/usr/bin/env python3
"""Review aid (not a registered check): which seeded mutants compile and pass /repo's own test suite?
Writes evx/mutants/test_survival.json. Scratch copies live under a temp dir and are removed."""
import concurrent.futures, json, os, re, shutil, subprocess, sys, tempfile
HERE = os.path.dirname(os.path.abspath(__file__))
sys.path.insert(0, HERE)
import mutate

def one(args):
    m, slot = args
    d, root = mutate.scratch_copy()
    try:
        if m.get('base_patch'):
            bp = os.path.join(os.path.dirname(HERE), m['base_patch'])
            if subprocess.run(['git', 'apply', '--whitespace=nowarn', bp], cwd=root, capture_output=True).returncode != 0:
                return m['id'], 'patch-miss'
        if not mutate.apply_edits(root, m['edits']):
            return m['id'], 'patch-miss'
        tgt = os.path.join(tempfile.gettempdir(), 'evx-surv-tgt-%d' % slot)
        env = dict(os.environ, CARGO_TARGET_DIR=tgt, CARGO_NET_OFFLINE='true')
        r = subprocess.run(['cargo', 'test', '--offline', '--tests', '--lib'], cwd=root, env=env, capture_output=True, text=True)
        out = r.stdout + r.stderr
        if 'could not compile' in out:
            return m['id'], 'compile-error'
        res = re.findall(r'test result: \w+\. (\d+) passed; (\d+) failed', out)
        passed = sum(int(a) for a, b in res); failed = sum(int(b) for a, b in res)
        return m['id'], ('passes-tests' if failed == 0 and passed >= 58 else 'killed-by-tests:%d' % failed)
    finally:
        shutil.rmtree(d, ignore_errors=True)

def main():
    ms = [m for m in mutate.load_mutants() if 'patch' not in m]  # seeds / refactorings are confirmed by seedcheck / refcheck
    only = [a for a in sys.argv[1:] if a != '--missing']
    if '--missing' in sys.argv[1:]:
        pp = os.path.join(HERE, 'mutants', 'test_survival.json')
        have = json.load(open(pp)) if os.path.exists(pp) else {}
        ms = [m for m in ms if m['id'] not in have]
        only = only or ['']
    if only:
        ms = [m for m in ms if any(o in m['id'] for o in only)]
    W = 8
    out = {}
    with concurrent.futures.ThreadPoolExecutor(max_workers=W) as ex:
        import itertools
        slots = itertools.cycle(range(W))
        # one target dir per worker thread: assign by index modulo W, serialised per slot by chunking
        chunks = [[] for _ in range(W)]
        for i, m in enumerate(ms):
            chunks[i % W].append(m)
        def run_chunk(ic):
            i, chunk = ic
            return [one((m, i)) for m in chunk]
        for res in ex.map(run_chunk, enumerate(chunks)):
            for k, v in res:
                out[k] = v
                print(k, v, flush=True)
    p = os.path.join(HERE, 'mutants', 'test_survival.json')
    old = {}
    if os.path.exists(p) and only:
        old = json.load(open(p))
    old.update(out)
    json.dump(old, open(p, 'w'), indent=1, sort_keys=True)
    for i in range(W):
        shutil.rmtree(os.path.join(tempfile.gettempdir(), 'evx-surv-tgt-%d' % i), ignore_errors=True)

if __name__ == '__main__':
    main()
