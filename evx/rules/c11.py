"""C11 — read-only evaluation equals mutable evaluation and never mutates (claimed structurally).

R11.1 immutable entry points take `&C`; the three provided contexts contain no interior mutability (type walk), so nothing
      reachable through `&C` can change (safe Rust, forbid(unsafe_code));
R11.2 in Operator::eval the nine assignment variants are the constant Err(ContextNotMutable) with no call; the default
      ContextWithMutableVariables::set_value likewise; EmptyContext* do not implement ContextWithMutableVariables;
R11.3 Operator::eval_mut forwards every non-assignment variant to Operator::eval with the same arguments and returns its result
      unchanged;
R11.4 who-may-call: set_value (and any other `&mut self` context method) is called only from the assignment arms of eval_mut;
R11.5 Node::eval_with_context and Node::eval_with_context_mut satisfy the same evaluator specification (C08's) up to the dispatcher;
R11.6 no assignment arm of eval_mut returns Ok without having called Context::set_value (shared with C04 R4.4), so contexts whose
      set_value rejects reject every assignment, whatever the values.
"""
import os
import tables
from absint import Interp, SYM, C, ADT, OK, ERR, fmt, is_adt, Budget, has_subterm
from mirlib import short, path_endswith, callee_matches, cfg_isomorphic
from rules.witness import compile_witness

EXPLANATION = ('type-level facts (signatures, impl table, type walk for interior mutability), abstract interpretation of Operator::eval / eval_mut per operator '
               'variant (32 x 2), who-may-call rule for context mutators, lock-step CFG comparison of the two recursive evaluators, and a compile-fail witness '
               'that the empty contexts cannot be evaluated mutably')

CONTEXTS = ('context::HashMapContext', 'context::EmptyContext', 'context::EmptyContextWithBuiltinFunctions')


def run(ctx):
    prog = ctx.prog()
    ctx.trust('rustc nightly type checker and borrow checker; MIR of /repo')
    facts = prog.facts
    # R11.1
    for name in ('tree::Node::<NumericTypes>::eval_with_context', 'interface::eval_with_context', 'operator::Operator::<NumericTypes>::eval'):
        f = prog.fn(name)
        if f is None:
            ctx.unrecognised('R11.1', short(name), 'missing', 'not found')
            continue
        ins = f.j.get('inputs') or []
        ctx.check(bool(ins) and ins[-1] == '&C', 'R11.1', short(name) + ':signature', 'shared-ref', 'the context parameter is a shared reference `&C` (inputs %s)' % ins, span=f.span)
    ctx.check(facts['crate']['unsafe_code_lint_level'] == 'Forbid', 'R11.1', 'crate:forbid(unsafe_code)', 'unsafe', 'unsafe_code is forbidden at the crate root (lint level %s)' % facts['crate']['unsafe_code_lint_level'])
    for c in CONTEXTS:
        tw = [t for t in facts['type_walk'] if t['adt'] == c]
        if not tw:
            ctx.unrecognised('R11.1', c + ':type-walk', 'missing', 'context type not found')
            continue
        t = tw[0]
        ctx.check(not t['unsafe_cell'] and not t['shared_ownership'], 'R11.1', c + ':freeze', 'interior-mutability',
                  'no UnsafeCell (Cell/RefCell/Mutex/atomics) and no Rc/Arc reachable from %s: a shared reference cannot mutate it (cells %s, shared %s)' % (c, t['unsafe_cell'], t['shared_ownership']))
    # R11.2 / R11.3
    ev = prog.fn('operator::Operator::<NumericTypes>::eval')
    evm = prog.fn('operator::Operator::<NumericTypes>::eval_mut')
    op = prog.adt(tables.OPERATOR)
    if ev is None or evm is None:
        ctx.unrecognised('R11.2', 'Operator::eval', 'missing', 'Operator::eval / eval_mut not found')
    else:
        n_fwd = 0
        for v in op['variants']:
            selfv = ADT(op['path'], v['idx'], v['name'], [SYM('f_' + fd['name']) for fd in v['fields']])
            if v['name'] in tables.ASSIGN:
                ps = Interp(prog, max_depth=1).paths(ev, [selfv, SYM('arguments'), SYM('context')])
                calls = [e[0] for ret, eff in ps for e in eff if not e[0].startswith('<')]
                good = len(ps) == 1 and is_adt(ps[0][0], 'result::Result', 'Err') and is_adt(ps[0][0][4][0], 'error::EvalexprError', 'ContextNotMutable') and not calls
                ctx.check(good, 'R11.2', 'eval[%s]' % v['name'], 'not-constant', 'the immutable dispatcher answers %s with the constant Err(ContextNotMutable) and calls nothing (returns %s, calls %s)' % (v['name'], [fmt(p[0]) for p in ps], calls), span=ev.span)
            else:
                def hook(it, fn, t, args):
                    c = t['callee']
                    if c.get('local') and c['name'] == 'eval' and 'Operator' in c['def']:
                        return ('app', 'Operator::eval', tuple(args))
                    return None
                ps = Interp(prog, hook=hook, max_depth=1).paths(evm, [selfv, SYM('arguments'), SYM('context')])
                want = ('app', 'Operator::eval', (selfv, SYM('arguments'), SYM('context')))
                eff_calls = [e for ret, eff in ps for e in eff if not e[0].startswith('<')]
                fwd = [e for e in eff_calls if e[0].endswith('::eval') and 'Operator' in e[0] and tuple(e[2]) == want[2]]
                # anything else on the way (a table look-up on `self`, say) must not touch the context
                touching = [e[0] for e in eff_calls if e not in fwd and any(has_subterm(a, SYM('context')) for a in e[2] if isinstance(a, tuple))]
                good = len(ps) == 1 and ps[0][0] == want and len(fwd) == 1 and not touching
                n_fwd += 1
                ctx.check(good, 'R11.3', 'eval_mut[%s]' % v['name'], 'not-forwarded', 'the mutable dispatcher forwards %s to Operator::eval(self, arguments, &*context) and returns its result unchanged (returns %s)' % (v['name'], [fmt(p[0]) for p in ps]), span=evm.span)
        ctx.floor('R11.3', 'forwarded_variants', n_fwd, 23)
    # default set_value
    d = [f for f in prog.fns if f.name == 'set_value' and f.j.get('trait_default_of') and path_endswith(f.j['trait_default_of'], 'ContextWithMutableVariables')]
    if len(d) == 1:
        ps = Interp(prog).paths(d[0], [SYM('self'), SYM('identifier'), SYM('value')])
        good = len(ps) == 1 and is_adt(ps[0][0], 'result::Result', 'Err') and is_adt(ps[0][0][4][0], 'error::EvalexprError', 'ContextNotMutable')
        ctx.check(good, 'R11.2', 'ContextWithMutableVariables::set_value(default)', 'default', 'the provided set_value rejects with ContextNotMutable', span=d[0].span)
    else:
        ctx.unrecognised('R11.2', 'ContextWithMutableVariables::set_value(default)', 'missing', 'default method not found')
    impls = [(i.get('trait') or '', i['self_ty']) for i in facts['impls']]
    for c in ('context::EmptyContext<', 'context::EmptyContextWithBuiltinFunctions<'):
        has = [i for i in impls if path_endswith(i[0], 'ContextWithMutableVariables') and i[1].startswith(c)]
        ctx.check(not has, 'R11.2', c.rstrip('<') + ':!ContextWithMutableVariables', 'impl', '%s does not implement ContextWithMutableVariables (contexts without variable storage cannot be assigned to)' % c.rstrip('<'))
    witness(ctx)
    # R11.4 who-may-call the mutators (crate-private helpers between the call and Operator::eval_mut are followed to their callers;
    # that the non-assignment variants never reach them is R11.3: those are forwarded with nothing touching the context)
    from rules.common import terminal_call_sites
    mutators = {'set_value': 'ContextWithMutableVariables', 'set_function': 'ContextWithMutableFunctions', 'set_builtin_functions_disabled': 'Context'}

    def is_mutator(c):
        tr = c.get('trait') or ''
        if c.get('name') in mutators and path_endswith(tr, 'context::' + mutators[c['name']]):
            return True
        return bool(c.get('local') and c.get('name') in ('clear', 'clear_variables', 'clear_functions') and 'HashMapContext' in (c.get('def') or ''))
    sites = [(a, sp) for a, sp in terminal_call_sites(prog, is_mutator, roots={'operator::Operator::eval_mut'}) if 'HashMapContext' not in a]
    callers = sorted({a for a, _ in sites})
    from rules.common import is_delegation
    names = sorted({t['callee']['name'] for f in prog.fns if 'HashMapContext' not in f.path and not is_delegation(f, is_mutator) for _, t in f.calls() if is_mutator(t['callee'])})
    ctx.check(callers == ['operator::Operator::eval_mut'] and names == ['set_value'], 'R11.4', 'context-mutators', 'who-may-call', 'inside the crate, context state is changed only by Operator::eval_mut (or a private helper called only from it) calling set_value (callers found: %s, mutators called: %s)' % (callers, names))
    # R11.5 sibling evaluators: both walks satisfy the same specification (C08's evaluator rule: children in order, each once, with the
    # caller's context, first error wins, then Operator::eval resp. eval_mut on the collected values), so they differ only in the
    # dispatcher they end in. The earlier block-by-block comparison of the two bodies alarmed whenever the walk was shared through a
    # generic helper or only one of them was restyled, and was replaced by this.
    from rules.c08 import evaluator
    from rules.c05 import _Renamed
    for name, opname in (('eval_with_context', 'eval'), ('eval_with_context_mut', 'eval_mut')):
        g = prog.fn('tree::Node::<NumericTypes>::' + name)
        if g is None:
            ctx.unrecognised('R11.5', 'Node::' + name, 'missing', 'evaluator not found')
            continue
        evaluator(_Renamed(ctx, 'R11.5'), prog, g, name, opname)
    # R11.6 every assignment that the mutable route completes successfully has gone through Context::set_value, whatever values are
    # involved: a context without variable storage rejects assignments in its set_value (R11.2: the default is the constant
    # Err(ContextNotMutable)), so "rejects every assignment in the same way" needs that no assignment arm can return Ok without
    # having called it (the C04 R4.4 case analysis of the nine assignment arms, reported here)
    from rules.c04 import r44
    r44(_Renamed(ctx, 'R11.6'), prog)
    # R11.7 the typed accessors of the two routes are the same projection of their evaluator's result: the whole C12 entry-point analysis
    # (value of each type -> payload or the matching expected-type error carrying it, errors passed through unchanged) for the
    # `_with_context` and the `_with_context_mut` forms, reported here - an accessor of one route that repairs or rewrites errors makes
    # the read-only result differ from the mutable one although both evaluators agree
    from rules import c12
    c12.run(_Renamed(ctx, 'R11.7'))
    # R11.8 "the result of evaluating with a mutable context" is observed on a copy of the context (the immutable form keeps the
    # original): the copy must be the same context, so Clone for HashMapContext is the field-wise clone (decided by interpretation)
    from rules.common import fieldwise_clone
    okc, how = fieldwise_clone(prog)
    ctx.check(okc, 'R11.8', 'HashMapContext:Clone', 'derived-clone', 'Clone for HashMapContext copies every field (variables, functions, the builtin switch): a cloned context evaluates like the original (%s)' % how)


def witness(ctx):
    ex = ctx.extraction()
    okp, msg = compile_witness(ex, '''
use evalexpr::*;
fn check(node: &Node, c: &mut HashMapContext) { let _ = node.eval_with_context_mut(c); }
''', expect_ok=True)
    ctx.check(okp, 'R11.2', 'witness:HashMapContext-evaluates-mutably', 'witness-pass', 'compiling twin: HashMapContext can be evaluated mutably (%s)' % msg)
    for cname in ('EmptyContext', 'EmptyContextWithBuiltinFunctions'):
        okf, msg = compile_witness(ex, '''
use evalexpr::*;
fn check(node: &Node, c: &mut %s<DefaultNumericTypes>) { let _ = node.eval_with_context_mut(c); }
''' % cname, expect_ok=False, code='E0277', must_mention='ContextWithMutableVariables')
        ctx.check(okf, 'R11.2', 'witness:%s-rejects-mutable-evaluation' % cname, 'witness-fail', 'compile-fail witness: eval_with_context_mut(&mut %s) does not type-check (E0277 ContextWithMutableVariables) (%s)' % (cname, msg))
