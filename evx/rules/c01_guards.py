"""Discharge rules (guards) for C01.  Each guard takes a site and returns a reason string when the site is
structurally guarded on every path, else None.  Lemmas about the crate's own helper functions are re-validated on
every run (Lemmas class); a guard that relies on a failed lemma does not discharge."""
import re
from absint import Interp, ADT, SYM, C, UNK, fmt, Budget, is_adt, Fork, has_subterm
from mirlib import (short, path_endswith, callee_matches, op_place, op_const, const_value, is_local, resolve_place,
                    same_place, place_key, def_roots, bool_switch, call_result_bool_edges, switch_on_discriminant,
                    question_mark, continue_payload_local, mut_borrow_blocks, between, defs_reaching_use, def_rv, DSP)


# ----------------------------------------------------------------------------- small helpers

def const_of(fn, op):
    """integer/bool constant of an operand, directly or through copy-only definitions; None if not a single constant"""
    v = const_value(op)
    if v is not None:
        return v
    pl = op_place(op)
    if pl is None or not is_local(pl):
        return None
    roots = def_roots(fn, pl['l'])
    vals = set()
    for (b, idx, rv) in roots:
        if b == 'arg' or idx == 'term':
            return None
        if rv['k'] == 'use' and const_value(rv['op']) is not None:
            vals.add(const_value(rv['op']))
        else:
            return None
    return vals.pop() if len(vals) == 1 else None


def const_set_of(fn, op):
    """set of constants an operand may hold (all reaching definitions are constants), else None"""
    v = const_value(op)
    if v is not None:
        return {v}
    pl = op_place(op)
    if pl is None or not is_local(pl):
        return None
    vals = set()
    for (b, idx, rv) in def_roots(fn, pl['l']):
        if b == 'arg' or idx == 'term':
            return None
        if rv['k'] == 'use' and const_value(rv['op']) is not None:
            vals.add(const_value(rv['op']))
        else:
            return None
    return vals or None


def call_def_of_local(fn, l):
    """the single call terminator defining whole-local l (through plain copies), else None"""
    roots = def_roots(fn, l)
    if len(roots) == 1 and roots[0][1] == 'term':
        return roots[0][0], roots[0][2]
    return None


def arg_place(fn, t, i):
    pl = op_place(t['args'][i]) if i < len(t['args']) else None
    return resolve_place(fn, pl) if pl is not None else None


def is_shared_param(fn, pl):
    """place is `*param` of an immutable reference parameter that is never reassigned"""
    if pl is None:
        return False
    l = pl['l']
    d = fn.locals[l]
    if not d.get('arg'):
        return False
    if fn.defs().get(l):
        return False
    return d['ty'].startswith('&') and not d['ty'].startswith('&mut')


def bounds_site(fn, site, many=False):
    """(container place, constant index) of a BoundsCheck assert, else None; many=True: the index may be one of several constants
    (`if c { 1 } else { 2 }`), and their maximum is returned"""
    t = site['term']
    if t['k'] != 'assert' or t['kind'] != 'BoundsCheck':
        return None
    k = const_of(fn, t['index'])
    if k is None and many:
        ks = const_set_of(fn, t['index'])
        if ks and all(isinstance(x, int) and not isinstance(x, bool) and x >= 0 for x in ks):
            k = max(ks)
    lp = op_place(t['len'])
    if k is None or lp is None or not is_local(lp):
        return None
    sd = fn.single_def(lp['l'])
    if sd is None or sd[1] == 'term':
        return None
    rv = sd[2]
    if rv['k'] == 'unop' and rv['op'] == 'PtrMetadata':
        p = op_place(rv['a'])
        if p is None:
            return None
        p = resolve_place(fn, p)
        base = dict(l=p['l'], p=[x for x in p['p']])
        if not base['p'] or base['p'][-1] != 'deref':
            base = dict(l=p['l'], p=list(p['p']) + ['deref']) if fn.locals[p['l']]['ty'].startswith('&') and not p['p'] else base
        return base, k
    if rv['k'] == 'len':
        return resolve_place(fn, rv['pl']), k
    return None


def len_call_of(fn, op, container):
    """operand is the result of `len(&container)` (slice/Vec/str len), through copies"""
    pl = op_place(op)
    if pl is None or not is_local(pl):
        return False
    cd = call_def_of_local(fn, pl['l'])
    if cd is None:
        return False
    _, t = cd
    if not (t['callee']['name'] == 'len' and not t['callee'].get('local')):
        return False
    a = arg_place(fn, t, 0)
    return a is not None and place_key(strip_trailing_deref(a)) == place_key(strip_trailing_deref(container))


def strip_trailing_deref(pl):
    p = list(pl['p'])
    while p and p[-1] == 'deref':
        p.pop()
    return dict(l=pl['l'], p=p)


NON_RESIZING = {'deref', 'deref_mut', 'last', 'last_mut', 'first', 'first_mut', 'get', 'get_mut', 'iter', 'iter_mut', 'len', 'is_empty', 'as_slice', 'as_mut_slice', 'index', 'index_mut', 'contains'}


def resizing_sites(fn, place):
    """blocks where the vector at `place` may change length or be replaced: calls that receive `&mut Vec` to it
    (other than slice-level accessors), moves out of it, and direct assignments to it"""
    key = place_key(strip_trailing_deref(place))
    out = []
    for blk in fn.blocks:
        if blk['cleanup']:
            continue
        for st in blk['stmts']:
            if st['k'] == 'assign':
                tgt = st['pl']
                if tgt['p']:
                    r = strip_trailing_deref(resolve_place(fn, tgt))
                    if place_key(r) == key:
                        out.append(blk['id'])
                elif not tgt['p'] and place_key(tgt) == key:
                    pass  # initial definition of a local vector is handled by the callers (single definition)
                if st['rv']['k'] == 'use' and st['rv']['op'].get('k') == 'move':
                    src = st['rv']['op']['pl']
                    if place_key(strip_trailing_deref(resolve_place(fn, src))) == key and not fn.locals[src['l']]['ty'].startswith('&'):
                        out.append(blk['id'])
        t = blk['term']
        if t['k'] == 'call':
            for a in t['args']:
                pl = op_place(a)
                if pl is None:
                    continue
                ty = fn.locals[pl['l']]['ty'] if not pl['p'] else ''
                if ty.startswith('&mut std::vec::Vec<') or ty.startswith('&mut std::string::String'):
                    r = strip_trailing_deref(resolve_place(fn, pl))
                    if place_key(r) == key and t['callee']['name'] not in NON_RESIZING:
                        out.append(blk['id'])
                elif a.get('k') == 'move' and not ty.startswith('&') and not pl['p'] and place_key(pl) == key:
                    out.append(blk['id'])  # vector moved into a call
    return out


def no_mut_use_between(fn, place, start_block, site_block, barrier=(), allow_blocks=()):
    """the vector at `place` cannot change length on paths start ->* site (the site's own producer call is allowed)"""
    region = between(fn, start_block, site_block, barrier)
    for b in resizing_sites(fn, place):
        if b in region and b not in allow_blocks:
            return False
    return True


# ----------------------------------------------------------------------------- lemmas

class Lemmas:
    def __init__(self, ctx, prog):
        self.ctx = ctx
        self.prog = prog
        self.cache = {}

    def get(self, name):
        if name not in self.cache:
            try:
                if ':' in name:
                    kind, fname = name.split(':', 1)
                    ok, why = getattr(self, 'lemma_' + kind)(fname)
                else:
                    ok, why = getattr(self, 'lemma_' + name)()
            except Exception as e:
                ok, why = False, 'lemma evaluation failed: %r' % (e,)
            self.cache[name] = (ok, why)
        return self.cache[name][0]

    def report(self):
        for name, (ok, why) in sorted(self.cache.items()):
            if ok:
                self.ctx.ok('lemma', 'L-' + name, why)
            else:
                self.ctx.violation('lemma', 'L-' + name, 'failed', 'helper lemma no longer holds: ' + why)

    def _ok_paths(self, fn, args, hook=None):
        it = Interp(self.prog, hook=hook)
        return it.paths(fn, args)

    def lemma_arity(self):
        f = self.prog.fn('error::expect_operator_argument_amount')
        if f is None:
            return False, 'error::expect_operator_argument_amount not found'
        paths = self._ok_paths(f, [SYM('actual'), SYM('expected')])
        n_ok = 0
        for ret, eff in paths:
            if is_adt(ret, 'result::Result', 'Ok'):
                n_ok += 1
                br = [e for e in eff if e[0] == '<branch>']
                pair = ((SYM('actual'), SYM('expected')), (SYM('expected'), SYM('actual')))
                good = any((e[2][0] in [('app', 'binop:Eq', x_) for x_ in pair] and e[2][1] in (SYM('otherwise'), C(1)))
                           or (e[2][0] in [('app', 'binop:Ne', x_) for x_ in pair] and e[2][1] == C(0)) for e in br)
                if not good:
                    return False, 'an Ok path of expect_operator_argument_amount is not guarded by actual == expected'
        return n_ok > 0, 'expect_operator_argument_amount returns Ok only on the true edge of actual == expected / the false edge of actual != expected (%d Ok path)' % n_ok

    def _tuple_lemma(self, fname, cond):
        f = self.prog.fn('value::Value::<NumericTypes>::' + fname)
        if f is None:
            return False, 'Value::%s not found' % fname
        val = self.prog.adt('value::Value')
        n_ok = 0
        for v in val['variants']:
            fields = [SYM('payload')] if v['fields'] else []
            selfv = ADT(val['path'], v['idx'], v['name'], fields)
            for ret, eff in self._ok_paths(f, [selfv, SYM('bound')]):
                if is_adt(ret, 'result::Result', 'Ok'):
                    if v['name'] != 'Tuple' or ret[4][0] != SYM('payload'):
                        return False, '%s returns Ok for a non-tuple or a different vector (%s)' % (fname, fmt(ret))
                    br = [e for e in eff if e[0] == '<branch>']
                    if not any(cond(e[2][0]) and e[2][1] in (SYM('otherwise'), C(1)) for e in br):
                        return False, 'an Ok path of %s is not guarded by the length test' % fname
                    n_ok += 1
        return n_ok > 0, 'Value::%s returns Ok(tuple.clone()) only for Value::Tuple on the true edge of its length test' % fname

    def lemma_fixed(self, fname='as_fixed_len_tuple'):
        def cond(v):
            if v[0] == 'app' and v[1] == 'binop:Eq':
                a, b = v[2]
                for x, y in ((a, b), (b, a)):
                    if y == SYM('bound') and x[0] == 'app' and x[1].endswith('::len') and x[2] == (SYM('payload'),):
                        return True
            return False
        return self._tuple_lemma(fname, cond)

    def lemma_ranged(self, fname='as_ranged_len_tuple'):
        def cond(v):
            return v[0] == 'app' and v[1].endswith('::contains') and len(v[2]) == 2 and v[2][0] == SYM('bound') and v[2][1][0] == 'app' and v[2][1][1].endswith('::len') and v[2][1][2] == (SYM('payload'),)
        return self._tuple_lemma(fname, cond)

    def lemma_enough(self):
        """!is_leaf(op) && has_enough_children(node)  ==>  node.children.len() >= 1"""
        import tables
        T = tables.operator_tables(self.prog)
        f = self.prog.fn('tree::Node::<NumericTypes>::has_enough_children')
        if f is None:
            return False, 'Node::has_enough_children not found'
        op = self.prog.adt('operator::Operator')
        node = self.prog.adt('tree::Node')
        for v in op['variants']:
            if T['is_leaf'][v['name']]:
                continue
            fields = [SYM('f') for _ in v['fields']]
            n = ADT(node['path'], 0, 'Node', [ADT(op['path'], v['idx'], v['name'], fields), SYM('children')])
            def len_eq_k(t):
                # `children.len() == k` with a constant k >= 1 (either operand order)
                if t[0] == 'app' and t[1] == 'binop:Eq':
                    for x, y in (t[2], t[2][::-1]):
                        if x[0] == 'app' and x[1].endswith('::len') and has_subterm(x, SYM('children')) and y[0] == 'c' and isinstance(y[1], int) and not isinstance(y[1], bool) and y[1] >= 1:
                            return True
                return False

            for ret, _eff in self._ok_paths(f, [n]):
                if ret in (C(False), C(0)):
                    continue
                good = len_eq_k(ret) or any(e[0] == '<branch>' and len_eq_k(e[2][0]) and e[2][1] in (SYM('otherwise'), C(1)) for e in _eff)
                if ret[0] == 'app' and ret[1].endswith('PartialEq>::eq') or (ret[0] == 'app' and 'PartialEq' in ret[1] and ret[1].endswith('::eq')):
                    a, b = ret[2]
                    for x, y in ((a, b), (b, a)):
                        if is_adt(x, 'option::Option', 'Some') and x[4][0][0] == 'app' and x[4][0][1].endswith('::len') and x[4][0][2] == (SYM('children'),) \
                           and is_adt(y, 'option::Option', 'Some') and y[4][0][0] == 'c' and isinstance(y[4][0][1], int) and y[4][0][1] >= 1:
                            good = True
                if not good:
                    return False, 'has_enough_children(%s) = %s does not imply a non-empty child list' % (v['name'], fmt(ret))
        return True, 'for every non-leaf operator kind, has_enough_children is `Some(children.len()) == Some(k)` / holds only under `children.len() == k`, with k >= 1 (or is false)'

    def lemma_float_inf(self):
        """<f64 as EvalexprFloat>::MAX/MIN are +-infinity and is_infinite forwards to f64::is_infinite"""
        vals = {}
        for c in self.prog.facts['consts']:
            if path_endswith(c.get('impl_trait') or '', 'EvalexprFloat') and c.get('impl_self_ty') == 'f64' and c.get('value'):
                vals[c['name']] = c['value'].get('bits')
        if vals.get('MAX') != '0x7ff0000000000000' or vals.get('MIN') != '0xfff0000000000000':
            return False, '<f64 as EvalexprFloat>::MAX/MIN are not +inf/-inf: %s' % vals
        f = [x for x in self.prog.fns if x.name == 'is_infinite' and path_endswith(x.j.get('impl_trait') or '', 'EvalexprFloat') and x.j.get('impl_self_ty') == 'f64']
        if len(f) != 1:
            return False, '<f64 as EvalexprFloat>::is_infinite not found'
        it = Interp(self.prog)
        ps = it.paths(f[0], [SYM('x')])
        if len(ps) != 1 or ps[0][0][0] != 'app' or not ps[0][0][1].endswith('f64>::is_infinite') or ps[0][0][2] != (SYM('x'),):
            return False, 'is_infinite does not forward to f64::is_infinite: %s' % [fmt(p[0]) for p in ps]
        return True, '<f64 as EvalexprFloat>::MAX/MIN evaluate to +inf/-inf (compiler const value) and is_infinite forwards to f64::is_infinite'


# ----------------------------------------------------------------------------- guards

_WRAPPERS = {}


def arity_wrappers(prog):
    """local helper functions that establish an argument count: {fn path: (parameter index, n)} when every path of the helper that
    can return Ok has passed the Ok side of expect_operator_argument_amount(len(parameter), n)"""
    key = id(prog)
    if key in _WRAPPERS:
        return _WRAPPERS[key]
    out = {}
    target = 'error::expect_operator_argument_amount'
    for h in prog.fns:
        if h.kind == 'Closure' or short(h.path) == target or not any(True for _ in h.calls_to(target)):
            continue
        nparams = h.j.get('arg_count') or 0
        if not nparams:
            continue
        try:
            it = Interp(prog, max_depth=1, opaque=lambda g: True, max_steps=20000)
            ps = it.paths(h, [SYM('p%d' % i) for i in range(nparams)])
        except Budget:
            continue
        found = None
        good = True
        for ret, eff in ps:
            if ret == ('diverge',):
                continue
            if is_adt(ret, 'result::Result', 'Err'):
                continue
            passed = None
            for e in eff:
                if e[0] != '<branch>':
                    continue
                v, taken = e[2]
                if v[0] == 'app' and v[1] == 'discriminant' and taken == C(0):
                    g = v[2][0]
                    if g[0] == 'app' and short(g[1]).endswith('expect_operator_argument_amount') and len(g[2]) == 2 and g[2][1][0] == 'c':
                        ln = g[2][0]
                        if ln[0] == 'app' and ln[1].split('::')[-1] == 'len' and len(ln[2]) == 1 and ln[2][0][0] == 'sym':
                            passed = (int(ln[2][0][1][1:]), g[2][1][1])
            if passed is None or (found is not None and found != passed):
                good = False
                break
            found = passed
        if good and found is not None:
            out[short(h.path)] = found
    _WRAPPERS[key] = out
    return out


def _arity_guard(fn, lem, container, k, site_block, prog=None):
    """site dominated by Continue edge of expect_operator_argument_amount(len(container), n)? with n > k, directly or through a
    local helper that establishes the same fact about the slice passed to it"""
    if prog is not None and lem.get('arity'):
        for hp, (pi, n) in arity_wrappers(prog).items():
            if not isinstance(n, int) or n <= k:
                continue
            for b, t in fn.calls_to(hp):
                if pi >= len(t['args']):
                    continue
                a = arg_place(fn, t, pi)
                if a is None or place_key(strip_trailing_deref(a)) != place_key(strip_trailing_deref(container)):
                    continue
                qm = question_mark(fn, b)
                if qm is not None and fn.edge_dominates((qm['switch'], qm['cont']), site_block):
                    return 'dominated by the Continue edge of %s(arguments)?, every Ok path of which passed expect_operator_argument_amount(len, %d) with %d > index %d (lemma L-arity)' % (hp.split('::')[-1], n, n, k)
    for b, t in fn.calls_to('error::expect_operator_argument_amount'):
        n = const_of(fn, t['args'][1])
        if n is None or not isinstance(n, int) or n <= k:
            continue
        if not len_call_of(fn, t['args'][0], container):
            continue
        qm = question_mark(fn, b)
        if qm is None:
            continue
        if fn.edge_dominates((qm['switch'], qm['cont']), site_block) and lem.get('arity'):
            return 'dominated by the Continue edge of expect_operator_argument_amount(len, %d)? with %d > index %d (lemma L-arity)' % (n, n, k)
    return None


def G_arity(ctx, prog, lem, site):
    fn = site['fn']
    bs = bounds_site(fn, site)
    if bs is not None:
        container, k = bs
        if not is_shared_param(fn, strip_trailing_deref(container)):
            return None
        return _arity_guard(fn, lem, container, k, site['block'], prog)
    # arguments.get(k).unwrap()
    t = site['term']
    if t['k'] == 'call' and callee_matches(t, ['option::Option::<T>::unwrap']):
        pl = op_place(t['args'][0])
        if pl is None or not is_local(pl):
            return None
        cd = call_def_of_local(fn, pl['l'])
        if cd is None:
            return None
        _, g = cd
        if not (g['callee']['name'] == 'get' and not g['callee'].get('local')):
            return None
        container = arg_place(fn, g, 0)
        k = const_of(fn, g['args'][1])
        if container is None or k is None or not is_shared_param(fn, strip_trailing_deref(container)):
            return None
        return _arity_guard(fn, lem, container, k, site['block'], prog)
    return None


def _tuple_origin(fn, lem, local):
    """local is the Continue payload of as_fixed_len_tuple(_, n)? / as_ranged_len_tuple(_, a..=b)?  -> (min_len, cont_block, desc)"""
    for b, t in fn.calls():
        name = t['callee']['name']
        # any two-argument accessor of Value whose own length lemma holds (whatever it is called; it may clone the vector or lend the slice)
        if not t['callee'].get('local') or 'value::Value' not in t['callee']['def'] or len(t['args']) != 2:
            continue
        qm = question_mark(fn, b)
        if qm is None or local not in continue_payload_local(fn, qm):
            continue
        # the local must have no other definition
        if len(fn.defs().get(local, [])) != 1:
            continue
        n = const_of(fn, t['args'][1])
        if isinstance(n, int) and not isinstance(n, bool):
            if lem.get('fixed:' + name):
                return n, qm['cont'], '%s(_, %d)?' % (name, n)
        else:
            pl = op_place(t['args'][1])
            if pl is None or not is_local(pl):
                continue
            cd = call_def_of_local(fn, pl['l'])
            if cd is None or not callee_matches(cd[1], ['ops::RangeInclusive::<Idx>::new']):
                continue
            a = const_of(fn, cd[1]['args'][0])
            if isinstance(a, int) and lem.get('ranged:' + name):
                return a, qm['cont'], '%s(_, %d..=_)?' % (name, a)
    return None


def G_tuplelen(ctx, prog, lem, site):
    fn = site['fn']
    t = site['term']
    if t['k'] == 'assert' and t.get('kind') == 'BoundsCheck':
        # `args[k]` on the slice lent by borrow_fixed_len_tuple(_, n)? / borrow_ranged_len_tuple(_, a..=b)?
        bs = bounds_site(fn, site, many=True)
        if bs is None:
            return None
        container, k = bs
        base = strip_trailing_deref(container)
        org = None
        if not base['p']:
            org = _tuple_origin(fn, lem, base['l'])
        elif len(base['p']) == 2 and isinstance(base['p'][0], dict) and base['p'][0].get('name') == 'Continue' and isinstance(base['p'][1], dict) and base['p'][1].get('f') == 0:
            # the slice is read straight out of the `?` result: find the accessor call whose Try::branch produced that local
            for b_, t_ in fn.calls():
                nm_ = t_['callee']['name']
                if t_['callee'].get('local') and 'value::Value' in t_['callee']['def'] and len(t_['args']) == 2:
                    qm_ = question_mark(fn, b_)
                    if qm_ is not None and is_local(qm_['d']) and qm_['d']['l'] == base['l']:
                        for pl_ in continue_payload_local(fn, qm_):
                            org = org or _tuple_origin(fn, lem, pl_)
        if org is None:
            return None
        n, cont, desc = org
        if k < n and not fn.defs().get(base['l'], [])[1:] and fn.edge_dominates((fn.pred(cont)[0], cont) if len(fn.pred(cont)) == 1 else (cont, cont), site['block']) | (site['block'] in fn.reachable_from(cont) and fn.dominates(cont, site['block'])):
            return 'index %d < %d: the slice is the Continue payload of %s (its lemma holds), a shared borrow that cannot change' % (k, n, desc)
        return None
    if t['k'] != 'call':
        return None
    is_index = t['callee']['name'] == 'index' and path_endswith(t['callee'].get('trait') or '', 'ops::Index') and 'Vec<' in (t['callee'].get('self_ty') or '')
    is_swap = callee_matches(t, ['vec::Vec::<T, A>::swap_remove']) or callee_matches(t, ['vec::Vec::<T, A>::remove'])
    if not (is_index or is_swap):
        return None
    v = arg_place(fn, t, 0)
    if v is None or v['p']:
        return None
    org = _tuple_origin(fn, lem, v['l'])
    if org is None:
        return None
    n, cont, desc = org
    if is_index:
        k = const_of(fn, t['args'][1])
        if not isinstance(k, int) or k >= n:
            return None
        if not no_mut_use_between(fn, v, cont, site['block']):
            return None
        return 'index %d < %d: vector is the Continue payload of %s, not mutated before (lemma L-fixed/L-ranged)' % (k, n, desc)
    ks = const_set_of(fn, t['args'][1])
    if not ks or not all(isinstance(k, int) and 0 <= k < n for k in ks):
        return None
    # earlier element removals on the way shrink the vector by one each (acyclic region: each such block runs at most once)
    region = between(fn, cont, site['block'], ())
    shrink = []
    for b in resizing_sites(fn, v):
        if b not in region or b == site['block']:
            continue
        tb = fn.term(b)
        if tb['k'] == 'call' and not tb['callee'].get('local') and tb['callee']['name'] in ('swap_remove', 'pop', 'remove') and 'vec::Vec' in tb['callee']['def'] \
                and not any(b in fn.reachable_from(s_) for s_ in fn.succ(b) if not fn.blocks[s_]['cleanup']):
            shrink.append(b)
        else:
            return None
    m = len(shrink)
    if not all(k < n - m for k in ks):
        return None
    return 'swap_remove index in %s, all < %d: vector is the Continue payload of %s with %d earlier removal(s), not otherwise mutated before' % (sorted(ks), n - m, desc, m)


def G_nonempty(ctx, prog, lem, site):
    """slice[0] dominated by the false edge of slice.is_empty() with no reassignment in between"""
    fn = site['fn']
    bs = bounds_site(fn, site)
    if bs is None:
        return None
    container, k = bs
    if k != 0:
        return None
    base = strip_trailing_deref(container)
    if base['p']:
        return None
    for b, t in fn.calls():
        if t['callee']['name'] != 'is_empty' or t['callee'].get('local'):
            continue
        a = arg_place(fn, t, 0)
        if a is None or place_key(strip_trailing_deref(a)) != place_key(base):
            continue
        e = call_result_bool_edges(fn, b)
        if e is None:
            continue
        sw, ffalse, ftrue = e
        if not fn.edge_dominates((sw, ffalse), site['block']):
            continue
        region = between(fn, ffalse, site['block'], barrier=(sw,))
        redefined = any(db in region for (db, _i, _rv) in fn.defs().get(base['l'], []))
        if not redefined:
            return 'index 0 dominated by the false edge of is_empty() on the same slice, no reassignment in between'
    return None


def _none_arm_source(fn, site):
    """a diverging site (`None => unreachable!()`, `else { panic!() }`) in a block that is entered only on the None edge of a match on an
    Option produced by a call: the same obligation as `.unwrap()` on that Option -> (producer call term, producer block, container place)"""
    if not site['kind'].startswith('diverge:'):
        return None
    b = site['block']
    # walk up through straight-line predecessors (formatting the panic message takes a few blocks) to the deciding switch
    for _ in range(6):
        preds = [p for p in fn.pred(b) if not fn.blocks[p]['cleanup']]
        if len(preds) != 1:
            return None
        p = preds[0]
        sw = switch_on_discriminant(fn, p)
        if sw is not None:
            place, targets, otherwise = sw
            none_targets = [tg for v, tg in targets if v == 0]
            listed = {v for v, _ in targets}
            is_none_edge = (b in none_targets) or (otherwise == b and listed == {1})
            if not is_none_edge or not is_local(place) or not fn.locals[place['l']]['ty'].startswith('std::option::Option<'):
                return None
            cd = call_def_of_local(fn, place['l'])
            if cd is None or not cd[1]['args']:
                return None
            return cd[1], cd[0], arg_place(fn, cd[1], 0)
        if fn.term(p)['k'] not in ('goto', 'call', 'drop'):
            return None
        b = p
    return None


def _unwrap_source(fn, site):
    """for an Option::unwrap site: (producer call term, producer block, container place) when the Option comes from a call; the None arm
    of a match that diverges is the same obligation (see _none_arm_source)"""
    t = site['term']
    if site['kind'].startswith('diverge:'):
        return _none_arm_source(fn, site)
    if t['k'] != 'call' or not callee_matches(t, ['option::Option::<T>::unwrap']):
        return None
    pl = op_place(t['args'][0])
    if pl is None or not is_local(pl):
        return None
    cd = call_def_of_local(fn, pl['l'])
    if cd is None:
        return None
    b, g = cd
    if not g['args']:
        return None
    return g, b, arg_place(fn, g, 0)


def G_stackpop(ctx, prog, lem, site):
    """stack.pop().unwrap() dominated by the Some edge of stack.last_mut() with no mutation of the vector in between"""
    fn = site['fn']
    us = _unwrap_source(fn, site)
    if us is None:
        return None
    g, gb, container = us
    if g['callee']['name'] != 'pop' or container is None:
        return None
    for b, t in fn.calls():
        if t['callee']['name'] not in ('last_mut', 'last') or t['callee'].get('local'):
            continue
        a = arg_place(fn, t, 0)
        if a is None or place_key(strip_trailing_deref(a)) != place_key(strip_trailing_deref(container)):
            continue
        if t.get('target') is None:
            continue
        sw = switch_on_discriminant(fn, t['target'])
        if sw is None or not same_place(sw[0], t['dest']):
            continue
        some = [tg for v, tg in sw[1] if v == 1]
        if not some:
            continue
        if not fn.edge_dominates((t['target'], some[0]), site['block']):
            continue
        if no_mut_use_between(fn, strip_trailing_deref(container), some[0], site['block'], barrier=(t['target'],), allow_blocks=(gb,)):
            return 'pop() dominated by the Some edge of last_mut() on the same vector, vector not mutated in between'
    return None


def G_afterpush(ctx, prog, lem, site):
    fn = site['fn']
    us = _unwrap_source(fn, site)
    if us is None:
        return None
    g, gb, container = us
    if g['callee']['name'] not in ('last', 'last_mut') or container is None:
        return None
    for b, t in fn.calls():
        if not callee_matches(t, ['vec::Vec::<T, A>::push']):
            continue
        a = arg_place(fn, t, 0)
        if a is None or place_key(strip_trailing_deref(a)) != place_key(strip_trailing_deref(container)):
            continue
        if t.get('target') is None or not fn.dominates(b, site['block']) or b == site['block']:
            continue
        if no_mut_use_between(fn, strip_trailing_deref(container), t['target'], site['block'], barrier=(b,), allow_blocks=(gb, site['block'])):
            return 'last()/last_mut() after a dominating push() on the same vector with no mutation in between'
    return None


def G_enough(ctx, prog, lem, site):
    fn = site['fn']
    us = _unwrap_source(fn, site)
    if us is None:
        return None
    g, gb, container = us
    if g['callee']['name'] not in ('last', 'last_mut', 'pop') or container is None:
        return None
    base = strip_trailing_deref(container)
    # container must be (*self).children
    if not (fn.locals[base['l']].get('arg') and base['p'] and isinstance(base['p'][-1], dict) and base['p'][-1].get('name') == 'children'):
        return None
    selfl = base['l']
    leaf_edge = enough_edge = None
    for b, t in fn.calls():
        if callee_matches(t, ['operator::Operator::<NumericTypes>::is_leaf']):
            # receiver is self.operator()
            a = op_place(t['args'][0])
            cd = call_def_of_local(fn, resolve_place(fn, a)['l']) if a is not None else None
            if cd is None or not callee_matches(cd[1], ['tree::Node::<NumericTypes>::operator']):
                continue
            r = arg_place(fn, cd[1], 0)
            if r is None or r['l'] != selfl:
                continue
            e = call_result_bool_edges(fn, b)
            if e and fn.edge_dominates((e[0], e[1]), site['block']):
                leaf_edge = e
        if callee_matches(t, ['tree::Node::<NumericTypes>::has_enough_children']):
            r = arg_place(fn, t, 0)
            if r is None or r['l'] != selfl:
                continue
            e = call_result_bool_edges(fn, b)
            if e and fn.edge_dominates((e[0], e[2]), site['block']):
                enough_edge = e
    if leaf_edge is None or enough_edge is None:
        return None
    if not lem.get('enough'):
        return None
    if not no_mut_use_between(fn, base, enough_edge[2], site['block'], barrier=(enough_edge[0],), allow_blocks=(gb, site['block'])):
        return None
    return 'dominated by !is_leaf() and has_enough_children() on self, children not mutated in between (lemma L-enough: len >= 1)'


def G_discr(ctx, prog, lem, site):
    """diverging call in a block that discriminant-set propagation proves infeasible"""
    fn = site['fn']
    if not site['kind'].startswith('diverge:'):
        return None
    if fn.arg_count < 1:
        return None
    ty = fn.locals[1]['ty']
    by_ref = ty.startswith('&')
    if ty.startswith('&mut'):
        return None
    adt = None
    for p, a in prog.adts.items():
        if a['kind'] == 'Enum' and ty.lstrip('&').startswith(p):
            adt = a
    if adt is None:
        return None
    if fn.defs().get(1) or (not by_ref and _mut_borrowed(fn, 1)):
        return None
    place = dict(l=1, p=['deref'] if by_ref else [])
    d = DSP(fn, place, [v['idx'] for v in adt['variants']])
    if not d.feasible(site['block']):
        return 'block is infeasible: the outer match arm admits only variants that the inner match on the same immutable place lists (discriminant-set propagation)'
    # interprocedural form: a crate-private helper whose diverging arm is reached only for the variant set `bad`; every use of
    # the helper is a direct call that passes either the caller's own immutable enum parameter, or (helper taking the enum by value)
    # an owned local of the caller, at a point where discriminant-set propagation in the caller excludes all of `bad`
    bad = d.at(site['block'])
    if not str(fn.j.get('vis') or '').startswith('Restricted') or fn.kind == 'Closure':
        return None
    me = short(fn.path)
    ncalls = 0
    for g in prog.fns:
        # any non-call mention of the helper (fn item taken as a value) defeats the argument
        for blk in g.blocks:
            for st in blk['stmts']:
                if st['k'] == 'assign' and _mentions_fn(st['rv'], me):
                    return None
        for b, t in g.calls():
            for a in t['args']:
                c = op_const(a)
                if c and c.get('k') == 'fn' and short(c.get('def') or '') == me:
                    return None
            if not (t['callee'].get('local') and short(t['callee']['def']) == me):
                continue
            if blkof(g, b)['cleanup']:
                continue
            ncalls += 1
            recv = arg_place(g, t, 0)
            if recv is None:
                return None
            recv = resolve_place(g, recv)
            if by_ref and recv['l'] == 1 and strip_trailing_deref(recv)['p'] == [] and g.arg_count >= 1 and g.locals[1]['ty'].lstrip('&') == ty.lstrip('&') and g.locals[1]['ty'].startswith('&') and not g.locals[1]['ty'].startswith('&mut') and not g.defs().get(1):
                dg = DSP(g, dict(l=1, p=['deref']), [v['idx'] for v in adt['variants']])
            elif not by_ref and not recv['p'] and g.locals[recv['l']]['ty'] == ty:
                # an owned local of the caller (moved into the helper, possibly through a temporary): what the caller's own match on it
                # has excluded still holds, assignments to the local forget it
                # follow whole-value moves back (`_t = move token` / a `token => ..` binding of the matched value): a local with a single
                # definition `move x` holds what x held in the block of that move
                src_l, at_b = recv['l'], b
                for _ in range(4):
                    sd = g.single_def(src_l)
                    if sd is None or sd[1] == 'term' or sd[2]['k'] != 'use':
                        break
                    src = op_place(sd[2]['op'])
                    if src is None or not is_local(src) or g.locals[src['l']]['ty'] != ty:
                        break
                    if _mut_borrowed(g, src_l):
                        return None
                    src_l, at_b = src['l'], sd[0]
                if g.locals[src_l]['ty'] != ty or _mut_borrowed(g, src_l) \
                        or any(st['k'] == 'assign' and st['pl']['l'] == src_l for st in g.blocks[at_b]['stmts']):
                    return None
                dg = DSP(g, dict(l=src_l, p=[]), [v['idx'] for v in adt['variants']], kill_defs=True)
                if dg.at(at_b) & bad:
                    return None
                continue
            else:
                return None
            if dg.at(b) & bad:
                return None
    if ncalls:
        names = sorted(v['name'] for v in adt['variants'] if v['idx'] in bad)
        return 'diverging arm of a crate-private helper is reached only for variants %s; each of its %d call sites passes the caller\'s own immutable `self` (or an owned local it has matched on) where discriminant-set propagation excludes all of them' % (names[:4] + (['...'] if len(names) > 4 else []), ncalls)
    return None


def _mut_borrowed(fn, local):
    """some statement takes a mutable or raw borrow of the local or of a part of it"""
    for blk in fn.blocks:
        for st in blk['stmts']:
            if st['k'] != 'assign':
                continue
            rv = st['rv']
            if rv['k'] == 'rawptr' and rv['pl']['l'] == local:
                return True
            if rv['k'] == 'ref' and rv['pl']['l'] == local and (rv.get('mut') or 'Shared' not in str(rv.get('bk'))):
                return True
    return False


def blkof(fn, b):
    return fn.blocks[b]


def _mentions_fn(rv, me):
    """an rvalue that uses the fn item `me` as a value (reification, storing in an aggregate, ...)"""
    ops = []
    for k in ('op', 'a', 'b'):
        if isinstance(rv.get(k), dict):
            ops.append(rv[k])
    for o in rv.get('ops') or []:
        ops.append(o)
    for o in ops:
        c = op_const(o)
        if c and c.get('k') == 'fn' and short(c.get('def') or '') == me:
            return True
    return False


def G_lensum(ctx, prog, lem, site):
    fn = site['fn']
    t = site['term']
    if t['k'] != 'assert' or t['kind'] != 'Overflow':
        return None
    for st in fn.stmts(site['block']):
        if st['k'] == 'assign' and st['rv']['k'] == 'binop' and st['rv']['op'] in ('AddWithOverflow',):
            okk = True
            for o in (st['rv']['a'], st['rv']['b']):
                pl = op_place(o)
                cd = call_def_of_local(fn, pl['l']) if pl is not None and is_local(pl) else None
                if cd is None or cd[1]['callee']['name'] != 'len' or cd[1]['callee'].get('local'):
                    okk = False
            if okk:
                return 'sum of two len() results (each <= isize::MAX) cannot overflow usize'
    return None


def G_constarith(ctx, prog, lem, site):
    """checked arithmetic whose operands are small constants or zero-extended booleans (serde_derive field counting)"""
    fn = site['fn']
    t = site['term']
    if t['k'] != 'assert' or not t['kind'].startswith('Overflow'):
        return None

    def bound(op, depth=6):
        v = const_value(op)
        if isinstance(v, bool):
            return 1
        if isinstance(v, int):
            return abs(v)
        pl = op_place(op)
        if pl is None or depth == 0:
            return None
        if pl['p']:
            # field .0 of a checked-arithmetic pair
            if len(pl['p']) == 1 and isinstance(pl['p'][0], dict) and pl['p'][0].get('f') == 0:
                sd = fn.single_def(pl['l'])
                if sd and sd[1] != 'term' and sd[2]['k'] == 'binop' and sd[2]['op'] in ('AddWithOverflow', 'Add'):
                    a, b = bound(sd[2]['a'], depth - 1), bound(sd[2]['b'], depth - 1)
                    return None if a is None or b is None else a + b
            return None
        sd = fn.single_def(pl['l'])
        if sd is None or sd[1] == 'term':
            return None
        rv = sd[2]
        if rv['k'] == 'use':
            return bound(rv['op'], depth - 1)
        if rv['k'] == 'cast':
            ip = op_place(rv['op'])
            if isinstance(const_value(rv['op']), bool) or (ip is not None and not ip['p'] and fn.locals[ip['l']]['ty'] == 'bool'):
                return 1
            return bound(rv['op'], depth - 1) if rv['kind'].startswith('IntToInt') else None
        if rv['k'] == 'binop' and rv['op'] in ('AddWithOverflow', 'Add'):
            a, b = bound(rv['a'], depth - 1), bound(rv['b'], depth - 1)
            return None if a is None or b is None else a + b
        return None
    for st in fn.stmts(site['block']):
        if st['k'] == 'assign' and st['rv']['k'] == 'binop' and st['rv']['op'] == 'AddWithOverflow':
            a, b = bound(st['rv']['a']), bound(st['rv']['b'])
            if a is not None and b is not None and a + b < 2 ** 31:
                return 'sum of compile-time-bounded operands (<= %d)' % (a + b)
    # shift by a literal amount: the assert condition is `Lt(const amount, const bits)` over constants
    cp = op_place(t['cond'])
    if cp is not None:
        base = cp['l']
        for st in fn.stmts(site['block']):
            if st['k'] == 'assign' and is_local(st['pl'], base) and st['rv']['k'] == 'binop' and st['rv']['op'] == 'Lt':
                a, b = bound(st['rv']['a']), bound(st['rv']['b'])
                ca = const_value(st['rv']['a']) is not None or _is_const_chain(fn, st['rv']['a'])
                cb = const_value(st['rv']['b']) is not None
                if ca and cb and a is not None and b is not None and a < b and t['expected'] is True:
                    return 'shift by the literal amount %d < %d bits' % (a, b)
    return None


def _is_const_chain(fn, op, depth=4):
    """operand is a constant, possibly through casts/copies of single-definition temporaries"""
    if const_value(op) is not None:
        return True
    pl = op_place(op)
    if pl is None or pl['p'] or depth == 0:
        return False
    sd = fn.single_def(pl['l'])
    if sd is None or sd[1] == 'term':
        return False
    rv = sd[2]
    if rv['k'] in ('use', 'cast'):
        return _is_const_chain(fn, rv['op'], depth - 1)
    return False


def G_constinf(ctx, prog, lem, site):
    """debug_assert!(x.is_infinite()) where x is the EvalexprFloat::MAX/MIN associated constant"""
    fn = site['fn']
    if not site['kind'].startswith('diverge:core::panicking::panic'):
        return None
    for b, t in fn.calls():
        if t['callee']['name'] != 'is_infinite' or not path_endswith(t['callee'].get('trait') or '', 'EvalexprFloat'):
            continue
        e = call_result_bool_edges(fn, b)
        if e is None or not fn.edge_dominates((e[0], e[1]), site['block']):
            continue
        a = arg_place(fn, t, 0)
        if a is None or a['p']:
            continue
        ds = defs_reaching_use(fn, a['l'], b)
        good = bool(ds)
        for d in ds:
            rv = def_rv(fn, d)
            c = op_const(rv['op']) if rv is not None and rv.get('k') == 'use' else None
            if not (c and c.get('k') == 'unevaluated' and (c['def'].endswith('EvalexprFloat::MAX') or c['def'].endswith('EvalexprFloat::MIN'))):
                good = False
        if good and lem.get('float_inf'):
            return 'assertion on the associated constant EvalexprFloat::MAX/MIN, which is +-infinity for f64 (lemma L-float_inf)'
    return None


def G_radix(ctx, prog, lem, site):
    t = site['term']
    if t['k'] == 'call' and t['callee']['name'] == 'from_str_radix' and not t['callee'].get('local'):
        r = const_of(site['fn'], t['args'][1])
        if isinstance(r, int) and 2 <= r <= 36:
            return 'radix is the constant %d (within 2..=36)' % r
    return None


def G_fnptr(ctx, prog, lem, site):
    """indirect call through a fn pointer captured by the float_is closure: every value passed to float_is is a reified
    trait method of EvalexprFloat (whose bodies are themselves enumerated)"""
    fn = site['fn']
    if site['kind'] != 'indirect' or fn.kind != 'Closure':
        return None
    parent = prog.by_path.get(fn.j.get('parent'))
    if parent is None:
        return None
    n = 0
    for f in prog.fns:
        for b, t in f.calls():
            if t['callee'].get('local') and short(t['callee']['def']) == short(parent.path):
                pl = op_place(t['args'][0]) if t['args'] else None
                if pl is None:
                    return None
                roots = def_roots(f, pl['l'])
                for (rb, idx, rv) in roots:
                    if idx == 'term' or rb == 'arg' or rv['k'] != 'cast' or 'ReifyFnPointer' not in rv['kind']:
                        return None
                    c = op_const(rv['op'])
                    if not (c and c['k'] == 'fn' and 'EvalexprFloat' in c['def']):
                        return None
                    n += 1
    if n:
        return 'fn pointer captured from %s: all %d values passed are reified EvalexprFloat methods, whose bodies are enumerated separately' % (short(parent.path), n)
    return None


def _fn_values(prog, fn, op, depth=3, seen=None):
    """the set of values a fn-pointer operand can hold: list of fn-item def paths, or None when some source is not a function item.
    Followed: copies, ReifyFnPointer casts of function items, a fn-pointer parameter of a crate-private function (to the arguments
    at all of its call sites), a closure capture (to the operand the closure was built with) and a field of a crate struct (to that
    field's operand in every construction of the struct)."""
    if seen is None:
        seen = set()
    c = op_const(op)
    if c is not None:
        return [c['def']] if c.get('k') == 'fn' else None
    pl = op_place(op)
    if pl is None or depth < 0:
        return None
    rp = resolve_place(fn, pl)
    fields = [p_ for p_ in rp['p'] if isinstance(p_, dict) and 'f' in p_]
    key = (fn.path, rp['l'], tuple(p_['f'] for p_ in fields))
    if key in seen:
        return []
    seen.add(key)
    out = []
    if fields:
        base_ty = fn.locals[rp['l']]['ty']
        fidx = fields[-1]['f']
        if fn.kind == 'Closure' and rp['l'] == 1 and len(fields) == 1:
            parent = prog.by_path.get(fn.j.get('parent'))
            if parent is None:
                return None
            found = False
            for blk in parent.blocks:
                for st in blk['stmts']:
                    if st['k'] == 'assign' and st['rv']['k'] == 'aggregate' and st['rv'].get('agg') == 'closure' and short(st['rv'].get('def') or '') == short(fn.path):
                        found = True
                        ops = st['rv'].get('ops') or []
                        if fidx >= len(ops):
                            return None
                        r = _fn_values(prog, parent, ops[fidx], depth - 1, seen)
                        if r is None:
                            return None
                        out += r
            return out if found else None
        # field of a struct defined in the crate: every construction of the struct
        sty = None
        for pth, a in prog.adts.items():
            if a['kind'] == 'Struct' and base_ty.lstrip('&').replace('mut ', '').startswith(pth) and len(fields) == 1:
                sty = pth
        if sty is None:
            return None
        found = False
        for g in prog.fns:
            for blk in g.blocks:
                for st in blk['stmts']:
                    if st['k'] == 'assign' and st['rv']['k'] == 'aggregate' and st['rv'].get('agg') == 'adt' and path_endswith(st['rv'].get('adt') or '', sty):
                        found = True
                        ops = st['rv'].get('ops') or []
                        if fidx >= len(ops):
                            return None
                        r = _fn_values(prog, g, ops[fidx], depth - 1, seen)
                        if r is None:
                            return None
                        out += r
        return out if found else None
    for (rb, idx, rv) in def_roots(fn, rp['l']):
        if rb == 'arg':
            # parameter of a crate-private function: the arguments at every call site; no fn-item use of the function itself
            if fn.kind == 'Closure' or not str(fn.j.get('vis') or '').startswith('Restricted'):
                return None
            pos = idx - 1
            me = short(fn.path)
            ncall = 0
            for g in prog.fns:
                for blk in g.blocks:
                    for st in blk['stmts']:
                        if st['k'] == 'assign' and _mentions_fn(st['rv'], me):
                            return None
                for b, t in g.calls():
                    if t['callee'].get('local') and short(t['callee']['def']) == me:
                        ncall += 1
                        if pos >= len(t['args']):
                            return None
                        r = _fn_values(prog, g, t['args'][pos], depth - 1, seen)
                        if r is None:
                            return None
                        out += r
            if not ncall:
                return None
            continue
        if idx == 'term':
            return None
        if rv['k'] == 'cast' and 'ReifyFnPointer' in (rv.get('kind') or ''):
            r = _fn_values(prog, fn, rv['op'], depth, seen)
        elif rv['k'] == 'cast' and 'ClosureFnPointer' in (rv.get('kind') or ''):
            # a non-capturing closure coerced to a function pointer: its body is a local function like any other
            cpl = op_place(rv['op'])
            cr = def_roots(fn, cpl['l']) if cpl is not None and is_local(cpl) else []
            r = [x[2].get('def') for x in cr if x[1] != 'term' and x[0] != 'arg' and x[2].get('k') == 'aggregate' and x[2].get('agg') == 'closure']
            if len(r) != len(cr) or not r:
                r = None
        elif rv['k'] == 'use':
            r = _fn_values(prog, fn, rv['op'], depth, seen)
        else:
            return None
        if r is None:
            return None
        out += r
    return out


def G_fnptr2(ctx, prog, lem, site):
    """indirect call whose function operand can only hold function items (every source followed through parameters of crate-private
    functions, closure captures and struct fields): the call runs one of those functions, whose bodies and panic leaves are
    enumerated at the sites that reify them"""
    fn = site['fn']
    t = site['term']
    if site['kind'] != 'indirect' or t.get('k') != 'call_indirect':
        return None
    vals = _fn_values(prog, fn, t['fn_operand'])
    if vals:
        names = sorted({short(v).split('::')[-1] for v in vals})
        return 'the called pointer holds only function items (%d sources: %s), each enumerated where it is reified' % (len(vals), ', '.join(names[:6]) + (' ...' if len(names) > 6 else ''))
    return None


def _copy_of(fn, l, depth=3):
    """the local that temporary `l` is a plain copy of (its single definition is `use copy/move x`), followed transitively; else l"""
    while depth > 0:
        sd = fn.single_def(l)
        if sd is None or sd[1] == 'term' or sd[2]['k'] != 'use':
            return l
        src = op_place(sd[2]['op'])
        if src is None or not is_local(src) or fn.locals[l].get('name'):
            return l
        l = src['l']
        depth -= 1
    return l


def _enumerate_index(fn, idx_local):
    """the usize local is the counter of `iter.enumerate()`: the `.0` of the Some payload of <Enumerate<_> as Iterator>::next. Such a
    counter is smaller than the number of items yielded so far <= the length of a slice/Vec (<= isize::MAX)."""
    for (b, i, rv) in fn.defs().get(idx_local, []):
        if i == 'term' or rv['k'] != 'use':
            return None
        pl = op_place(rv['op'])
        if pl is None:
            return None
        fields = [p_ for p_ in pl['p'] if isinstance(p_, dict)]
        if not (len(fields) >= 1 and fields[-1].get('f') == 0):
            return None
        # the tuple local holds the payload of next(): follow it back to the call
        base = pl['l']
        seen = 0
        while seen < 4:
            seen += 1
            cd = call_def_of_local(fn, base)
            if cd is not None:
                c = cd[1]['callee']
                if c['name'] == 'next' and 'Enumerate<' in (c.get('self_ty') or '') and ('slice::Iter' in c.get('self_ty') or 'vec::IntoIter' in c.get('self_ty') or 'slice::IterMut' in c.get('self_ty')):
                    continue_ok = True
                    break
                return None
            sd = fn.single_def(base)
            if sd is None or sd[1] == 'term' or sd[2]['k'] != 'use' or op_place(sd[2]['op']) is None:
                return None
            base = op_place(sd[2]['op'])['l']
        else:
            return None
    return 'the counter of enumerate() over a slice: smaller than the slice length' if fn.defs().get(idx_local) else None


def _cursor_in_bounds(fn, idx_local, site_block):
    """the usize local is known to be a valid index of an immutable slice parameter at the site: the site is dominated by the Some edge of
    `slice.get(idx)` or by the true edge of `idx < slice.len()` (false edge of `idx >= slice.len()`), and the local is not assigned on
    the way. Returns a description or None. (A valid index is < len <= isize::MAX, so adding a small constant cannot overflow.)"""
    defs = fn.defs().get(idx_local, [])

    def unchanged(start_edge):
        region = between(fn, start_edge[1], site_block, barrier=(start_edge[0],))
        return not any(db in region for (db, _i, _rv) in defs)

    def is_idx(op):
        pl = op_place(op)
        if pl is None or not is_local(pl):
            return False
        if pl['l'] == idx_local:
            return True
        return _copy_of(fn, pl['l']) == idx_local
    for b, t in fn.calls():
        c = t['callee']
        if c['name'] == 'get' and not c.get('local') and 'slice' in c['def'] and len(t['args']) == 2 and is_idx(t['args'][1]):
            recv = arg_place(fn, t, 0)
            if recv is None or not is_shared_param(fn, strip_trailing_deref(recv)):
                continue
            sw = switch_on_discriminant(fn, t['target'])
            if sw is None or not same_place(sw[0], t['dest']):
                continue
            some = [tg for v, tg in sw[1] if v == 1]
            if len(some) == 1 and fn.edge_dominates((t['target'], some[0]), site_block) and unchanged((t['target'], some[0])):
                return 'dominated by the Some edge of slice.get(cursor) on an immutable slice, cursor not assigned in between'
    # cursor < slice.len()
    for blk in fn.blocks:
        if blk['cleanup'] or blk['term']['k'] != 'switch':
            continue
        for st in blk['stmts']:
            if st['k'] != 'assign' or st['rv']['k'] != 'binop' or st['rv']['op'] not in ('Lt', 'Ge', 'Gt', 'Le'):
                continue
            if op_place(blk['term']['discr']) is None or op_place(blk['term']['discr'])['l'] != st['pl']['l']:
                continue
            a, b_ = st['rv']['a'], st['rv']['b']
            opn = st['rv']['op']
            cand = None
            if opn in ('Lt', 'Ge') and is_idx(a):
                cand, true_means_in = b_, opn == 'Lt'
            elif opn in ('Gt', 'Le') and is_idx(b_):
                cand, true_means_in = a, opn == 'Gt'
            if cand is None:
                continue
            lp = op_place(cand)
            if lp is None or not is_local(lp):
                continue
            cd = call_def_of_local(fn, lp['l'])
            is_len = False
            if cd is not None and cd[1]['callee']['name'] == 'len' and not cd[1]['callee'].get('local'):
                recv = arg_place(fn, cd[1], 0)
                is_len = recv is not None and is_shared_param(fn, strip_trailing_deref(recv))
            else:
                sd = fn.single_def(lp['l'])
                if sd is not None and sd[1] != 'term' and sd[2]['k'] == 'unop' and sd[2]['op'] == 'PtrMetadata':
                    rp = op_place(sd[2]['a'])
                    is_len = rp is not None and is_shared_param(fn, strip_trailing_deref(resolve_place(fn, rp)))
            if not is_len:
                continue
            sw = blk['term']
            false_t = [tg for v, tg in sw['targets'] if v == 0]
            if not false_t:
                continue
            edge = (blk['id'], sw['otherwise']) if true_means_in else (blk['id'], false_t[0])
            if fn.edge_dominates(edge, site_block) and unchanged(edge):
                return 'dominated by `cursor < slice.len()` on an immutable slice, cursor not assigned in between'
    return None


def _small_values(prog, fn, op, depth=6):
    """set of constants the usize operand can hold, when every source is a constant, a tuple field built from a constant, or the
    same field of a crate function's result that is a constant on all of that function's paths; else None"""
    v = const_value(op)
    if isinstance(v, int) and not isinstance(v, bool):
        return {v}
    if depth <= 0:
        return None
    pl = op_place(op)
    if pl is None:
        return None
    out = set()
    proj = list(pl['p'])
    via_try = False
    if len(proj) >= 2 and isinstance(proj[0], dict) and proj[0].get('name') == 'Continue' and isinstance(proj[1], dict) and proj[1].get('f') == 0:
        # the payload of `helper(..)?`: look through Try::branch to the call it was applied to
        cd = call_def_of_local(fn, pl['l'])
        if cd is None or cd[1]['callee']['name'] != 'branch' or not cd[1]['args']:
            return None
        inner = op_place(cd[1]['args'][0])
        if inner is None or not is_local(inner):
            return None
        pl = dict(l=inner['l'], p=proj[2:])
        proj = proj[2:]
        via_try = True
    fields = [p_ for p_ in proj if isinstance(p_, dict) and 'f' in p_]
    if proj and len(fields) != len(proj):
        return None
    for (rb, idx, rv) in def_roots(fn, pl['l']):
        if rb == 'arg':
            return None
        if idx == 'term':
            t = rv
            h = prog.by_path.get(t['callee']['def']) if t['callee'].get('local') else None
            if h is None or depth <= 0:
                return None
            try:
                # constant arguments are passed as such (a helper may return `length + 1` of a length it was given)
                actual = [C(const_value(a)) if (isinstance(const_value(a), int) and not isinstance(const_value(a), bool)) else SYM('p%d' % i) for i, a in enumerate(t['args'])]
                if len(actual) != h.arg_count:
                    return None
                ps = Interp(prog, max_depth=3, max_steps=60000).paths(h, actual)
            except Budget:
                return None
            for ret, _e in ps:
                if ret == ('diverge',):
                    continue
                x = ret
                if via_try:
                    if is_adt(x, 'result::Result', 'Err') or is_adt(x, 'option::Option', 'None'):
                        continue
                    if not (is_adt(x, 'result::Result', 'Ok') or is_adt(x, 'option::Option', 'Some')):
                        return None
                    x = x[4][0]
                for f_ in fields:
                    if x[0] == 'tuple' and f_['f'] < len(x[1]):
                        x = x[1][f_['f']]
                    elif x[0] == 'adt' and f_['f'] < len(x[4]):
                        x = x[4][f_['f']]
                    else:
                        return None
                if x[0] != 'c' or not isinstance(x[1], int) or isinstance(x[1], bool):
                    return None
                out.add(x[1])
            continue
        if fields:
            if rv['k'] == 'aggregate' and fields[0]['f'] < len(rv.get('ops') or []) and len(fields) == 1:
                r = _small_values(prog, fn, rv['ops'][fields[0]['f']], depth - 1)
            elif rv['k'] == 'binop' and rv['op'] == 'AddWithOverflow' and len(fields) == 1 and fields[0]['f'] == 0:
                ra, rb_ = _small_values(prog, fn, rv['a'], depth - 1), _small_values(prog, fn, rv['b'], depth - 1)
                r = {x + y for x in ra for y in rb_} if ra and rb_ and len(ra) * len(rb_) <= 64 else None
            elif rv['k'] == 'use' and op_place(rv['op']) is not None:
                src = op_place(rv['op'])
                r = _small_values(prog, fn, dict(k="copy", pl=dict(l=src["l"], p=list(src["p"]) + proj)), depth - 1)
            else:
                return None
        elif rv['k'] == 'use':
            r = _small_values(prog, fn, rv['op'], depth - 1)
        elif rv['k'] == 'binop' and rv['op'] in ('Add', 'AddWithOverflow', 'AddUnchecked'):
            ra, rb_ = _small_values(prog, fn, rv['a'], depth - 1), _small_values(prog, fn, rv['b'], depth - 1)
            r = {x + y for x in ra for y in rb_} if ra and rb_ and len(ra) * len(rb_) <= 64 else None
        else:
            return None
        if r is None:
            return None
        out |= r
    return out or None


def _range_from_of_cursor(fn, b):
    """block b ends in `Index::index(slice, RangeFrom { start: cursor })` on an immutable slice parameter where the cursor is known to be
    a valid index of that slice at b -> (cursor local, why), else None"""
    t = fn.term(b)
    if not (t['k'] == 'call' and t['callee']['name'] == 'index' and not t['callee'].get('local') and 'RangeFrom<usize>' in ' '.join(t['callee'].get('args') or []) and len(t['args']) == 2):
        return None
    recv = arg_place(fn, t, 0)
    if recv is None or not is_shared_param(fn, strip_trailing_deref(recv)):
        return None
    rp = op_place(t['args'][1])
    if rp is None or not is_local(rp):
        return None
    sd = fn.single_def(_copy_of(fn, rp['l']))
    if sd is None or sd[1] == 'term' or sd[2]['k'] != 'aggregate' or 'RangeFrom' not in str(sd[2].get('adt')) or len(sd[2].get('ops') or []) != 1:
        return None
    ip = op_place(sd[2]['ops'][0])
    if ip is None or not is_local(ip):
        return None
    cur = _copy_of(fn, ip['l'])
    why = _cursor_in_bounds(fn, cur, b)
    # the bound must be about the same slice that is indexed
    if why is None or not _cursor_bound_is_about(fn, cur, b, strip_trailing_deref(recv)):
        return None
    return cur, why


def _cursor_bound_is_about(fn, cur, b, slice_pl):
    """the only immutable slice parameters of fn that the cursor is compared against / used with are `slice_pl` (so the bound that
    `_cursor_in_bounds` found is a bound by the length of that slice)"""
    shared = [i for i in range(1, fn.arg_count + 1) if is_shared_param(fn, dict(l=i, p=[])) and ('[' in fn.locals[i]['ty'] or 'Vec<' in fn.locals[i]['ty'])]
    return len(shared) == 1 and slice_pl['l'] == shared[0]


def G_cursor(ctx, prog, lem, site):
    """index cursor over an immutable slice: `slice[cursor]`, `cursor + k` and `cursor += consumed` where the cursor is known to be a
    valid index at that point (so < isize::MAX) and what is added is a small constant / one of a few small constants"""
    fn = site['fn']
    t = site['term']
    if t['k'] == 'call':
        # `&slice[cursor..]` on an immutable slice where the cursor is a valid index (so cursor <= len)
        r = _range_from_of_cursor(fn, site['block'])
        if r is not None:
            return 'slice[cursor..] with the cursor a valid index of that immutable slice (%s): start <= len' % r[1]
        return None
    if t['k'] != 'assert':
        return None
    if t['kind'] == 'BoundsCheck' and const_of(fn, t['index']) == 0:
        # `rest[0]` where rest = &slice[cursor..] and the cursor is a valid index of slice: rest has len - cursor >= 1 elements
        bs = bounds_site(fn, site)
        if bs is not None:
            base = strip_trailing_deref(bs[0])
            if not base['p']:
                cd = call_def_of_local(fn, base['l'])
                if cd is not None and fn.dominates(cd[0], site['block']):
                    r = _range_from_of_cursor(fn, cd[0])
                    if r is not None:
                        return 'rest[0] where rest = &slice[cursor..] and the cursor is a valid index of that immutable slice (%s): rest is not empty' % r[1]
    if t['kind'] == 'BoundsCheck':
        ip = op_place(t['index'])
        if ip is None or not is_local(ip):
            return None
        cur = _copy_of(fn, ip['l'])
        lp = op_place(t['len'])
        sd = fn.single_def(lp['l']) if lp is not None and is_local(lp) else None
        if sd is None or sd[1] == 'term' or not (sd[2]['k'] == 'unop' and sd[2]['op'] == 'PtrMetadata'):
            return None
        cont = op_place(sd[2]['a'])
        if cont is None or not is_shared_param(fn, strip_trailing_deref(resolve_place(fn, cont))):
            return None
        why = _cursor_in_bounds(fn, cur, site['block'])
        return ('index cursor %s' % why) if why else None
    if t['kind'] != 'Overflow':
        return None
    for st in fn.stmts(site['block']):
        if st['k'] == 'assign' and st['rv']['k'] == 'binop' and st['rv']['op'] == 'AddWithOverflow' and op_place(t['cond']) is not None and op_place(t['cond'])['l'] == st['pl']['l']:
            va, vb = _small_values(prog, fn, st['rv']['a']), _small_values(prog, fn, st['rv']['b'])
            if va and vb and max(va) <= 64 and max(vb) <= 64 and min(va) >= 0 and min(vb) >= 0:
                return 'sum of two small counts (%s + %s) cannot overflow' % (sorted(va), sorted(vb))
            for cur_op, add_op in ((st['rv']['a'], st['rv']['b']), (st['rv']['b'], st['rv']['a'])):
                cp = op_place(cur_op)
                if cp is None or not is_local(cp) or fn.locals[cp['l']]['ty'] != 'usize':
                    continue
                cur = _copy_of(fn, cp['l'])
                vals = _small_values(prog, fn, add_op)
                if not vals or max(vals) > 64 or min(vals) < 0:
                    continue
                why = _cursor_in_bounds(fn, cur, site['block']) or _enumerate_index(fn, cur)
                if why:
                    return 'cursor + %s cannot overflow: the cursor is a valid index (%s), hence < isize::MAX' % (sorted(vals), why)
    return None


def _masked_below(prog, fn, op, bound, depth=3):
    """the integer operand is `x & m` with a constant 0 <= m < bound (possibly cast, copied, or returned as such by a crate-private helper
    on all its paths): its value is in 0..=m"""
    pl = op_place(op)
    if pl is None or not is_local(pl) or depth <= 0:
        return None
    sd = fn.single_def(pl['l'])
    if sd is None:
        return None
    if sd[1] == 'term':
        t = sd[2]
        h = prog.by_path.get(t['callee']['def']) if (t['k'] == 'call' and t['callee'].get('local')) else None
        if h is None or h.kind == 'Closure':
            return None
        rets = []
        for blk in h.blocks:
            if blk['cleanup'] or blk['term']['k'] != 'return':
                continue
            rets.append(blk['id'])
        if not rets:
            return None
        # every definition of the helper's return place must be masked
        ms = []
        for (rb, idx, rv) in h.defs().get(0, []):
            if idx == 'term':
                return None
            m = _masked_rvalue(prog, h, rv, bound, depth - 1)
            if m is None:
                return None
            ms.append(m)
        return max(ms) if ms else None
    return _masked_rvalue(prog, fn, sd[2], bound, depth)


def _masked_rvalue(prog, fn, rv, bound, depth):
    if rv['k'] == 'binop' and rv['op'] == 'BitAnd':
        for x in (rv['a'], rv['b']):
            m = const_value(x)
            if isinstance(m, int) and not isinstance(m, bool) and 0 <= m < bound:
                return m
        return None
    if rv['k'] in ('cast', 'use') and rv.get('op') is not None:
        return _masked_below(prog, fn, rv['op'], bound, depth - 1)
    return None


def G_shiftmask(ctx, prog, lem, site):
    """`x << n` / `x >> n` whose overflow check is `n < BITS` with n = `y & m`, m < BITS (the masking wrapping_shl does itself)"""
    fn = site['fn']
    t = site['term']
    if t['k'] != 'assert' or t.get('kind') != 'Overflow':
        return None
    cp = op_place(t['cond'])
    if cp is None or not is_local(cp):
        return None
    sd = fn.single_def(cp['l'])
    if sd is None or sd[1] == 'term' or sd[2]['k'] != 'binop' or sd[2]['op'] != 'Lt':
        return None
    bits = const_value(sd[2]['b'])
    if not isinstance(bits, int) or bits not in (8, 16, 32, 64, 128):
        return None
    # the checked value must be what the shift in the continuation uses
    tgt = fn.blocks[t['target']]
    shifts = [st for st in tgt['stmts'] if st['k'] == 'assign' and st['rv']['k'] == 'binop' and st['rv']['op'] in ('Shl', 'Shr', 'ShlUnchecked', 'ShrUnchecked')]
    if not shifts:
        return None
    m = _masked_below(prog, fn, sd[2]['a'], bits)
    if m is None:
        return None
    return 'shift amount is masked with %d < %d (what wrapping_shl / wrapping_shr do themselves): the overflow check cannot fail' % (m, bits)


def G_utf8buf(ctx, prog, lem, site):
    """char::encode_utf8(c, buf) where buf is a whole fixed-size array of at least 4 bytes: every char encodes to at most 4 bytes"""
    fn = site['fn']
    t = site['term']
    if not (t['k'] == 'call' and t['callee']['name'] == 'encode_utf8' and not t['callee'].get('local') and 'char' in t['callee']['def'] and len(t['args']) == 2):
        return None
    pl = op_place(t['args'][1])
    if pl is None or not is_local(pl):
        return None
    # follow the unsizing cast and the reborrows back to the array local
    l = pl['l']
    for _ in range(5):
        sd = fn.single_def(l)
        if sd is None or sd[1] == 'term':
            return None
        rv = sd[2]
        src = None
        if rv['k'] == 'cast' or rv['k'] == 'use':
            src = op_place(rv['op'])
        elif rv['k'] == 'ref':
            src = rv['pl']
        if src is None:
            return None
        src = dict(l=src['l'], p=[x for x in src['p'] if x != 'deref'])
        if src['p']:
            return None
        l = src['l']
        m = re.match(r'^\[u8; (\d+)\]$', fn.locals[l]['ty'])
        if m:
            return ('the buffer is a whole [u8; %s]: a char needs at most 4 bytes' % m.group(1)) if int(m.group(1)) >= 4 else None
    return None


def G_cutoff(ctx, prog, lem, site):
    """&tokens[cutoff..] in the tokenizer loop: path enumeration of one loop iteration by abstract interpretation;
    on every path the constant cutoff is <= the number of tokens proven present (1 by the loop guard, 2/3 via Some(..) of get(1)/get(2))"""
    fn = site['fn']
    t = site['term']
    if not (t['k'] == 'call' and t['callee']['name'] == 'index' and 'RangeFrom' in ' '.join(t['callee'].get('args') or [])):
        return None
    from rules.tokpaths import iteration_paths
    try:
        paths = iteration_paths(prog, fn)
    except Exception as e:
        site.setdefault('guard_errors', []).append('tokpaths: %r' % (e,))
        return None
    if not paths:
        return None
    paths = [p for p in paths if p['ret'] is None]  # paths that reach the slice operation
    if not paths:
        return None
    for p in paths:
        if p['cutoff'] is None or p['cutoff'] > p['proven_len']:
            site.setdefault('guard_errors', []).append('path with cutoff %s but only %s tokens proven present' % (p['cutoff'], p['proven_len']))
            return None
    return 'all %d paths of one loop iteration slice at a constant cutoff <= the number of partial tokens proven present' % len(paths)


GUARDS = [G_constarith, G_arity, G_tuplelen, G_nonempty, G_stackpop, G_afterpush, G_enough, G_discr, G_lensum, G_constinf, G_radix, G_fnptr, G_fnptr2, G_cursor, G_utf8buf, G_shiftmask, G_cutoff]
