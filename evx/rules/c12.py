"""C12 — all evaluation entry points are views of one evaluator.

Wrapper matrix: every typed entry point (interface::eval_* and Node::eval_*) is abstractly evaluated once
per case of its base evaluator's result (Ok(Value::V(payload)) for each of the 6 variants, Err(e)); the abstract
return value must be the projection its *name* promises.  String forms share the pipeline
tokenize -> tokens_to_operator_tree -> Node::eval_with_context[_mut]; context-free forms use a fresh HashMapContext."""
import re
from absint import Interp, ADT, SYM, OK, ERR, UNK, fmt, Budget, P_OK, P_ERR, expand_results
from mirlib import path_endswith

EXPLANATION = ('wrapper matrix: each of the 48 typed/untyped entry points is abstractly interpreted over its MIR once per case of the base '
               'evaluator result (6 value variants + error); the returned abstract value must be the projection named by the function; '
               'string pipelines and context-free forms are checked as exact path sets. Decides the wrappers for all inputs; does not decide the evaluator itself')

TYPES = {'string': 'String', 'float': 'Float', 'int': 'Int', 'number': None, 'boolean': 'Boolean', 'tuple': 'Tuple', 'empty': 'Empty'}
NAME_RE = re.compile(r'^eval(?:_(string|float|int|number|boolean|tuple|empty))?(?:_with_context(_mut)?)?$')
VALUE = 'value::Value'


def value_worlds(prog):
    a = prog.adt(VALUE)
    ws = []
    for v in a['variants']:
        fields = [SYM('payload_' + v['name'])] if v['fields'] else []
        ws.append((v['name'], OK(ADT(a['path'], v['idx'], v['name'], fields))))
    ws.append(('Err', ERR(SYM('error'))))
    return ws


def short(d):
    return re.sub(r'::<[^>]*>', '', d or '')


def run(ctx):
    prog = ctx.prog()
    ctx.trust('rustc nightly MIR of /repo; name -> expectation table in rules/c12.py')
    ctx.assume('Try::branch / FromResidual on Result behave as the `?` operator (std)')
    worlds = value_worlds(prog)
    ctx.floor('matrix', 'value_variants', len(worlds) - 1, 6)
    groups = {'interface': [], 'node': []}
    for f in prog.fns:
        if f.kind not in ('Fn', 'AssocFn') or not f.name:
            continue
        m = NAME_RE.match(f.name)
        if not m:
            continue
        if f.path.startswith('interface::'):
            groups['interface'].append((f, m))
        elif path_endswith(short(f.path), 'tree::Node::' + f.name):
            groups['node'].append((f, m))
    ctx.floor('matrix', 'interface_wrappers', len(groups['interface']), 24)
    ctx.floor('matrix', 'node_wrappers', len(groups['node']), 24)
    for g, lst in groups.items():
        for f, m in lst:
            ty, mut = m.group(1), m.group(2)
            has_ctx = '_with_context' in f.name
            if ty is None and has_ctx and g == 'node':
                # Node::eval_with_context[_mut] are the evaluators themselves (C08/C11)
                continue
            entry(ctx, prog, f, g, ty, bool(mut), has_ctx, worlds)
    if 'interface' in groups:
        bot = prog.fn('interface::build_operator_tree')
        if bot is None:
            ctx.unrecognised('pipeline', 'interface::build_operator_tree', 'missing', 'build_operator_tree not found')
        else:
            pipeline(ctx, prog, bot, None)
    # "one evaluator": the entry points reach two root evaluators (shared and exclusive context); they are views of one evaluator only if
    # both are the same walk - every child evaluated in order, first error returned, then the operator applied to all values (the C08
    # R8.1-R8.3 analysis of each, reported here). An immutable evaluator that skips the discarded elements of a chain makes the
    # `_with_context` family disagree with `eval` and the `_mut` family on errors of those elements.
    from rules.c08 import evaluator
    from rules.c05 import _Renamed
    for name, opname in (('eval_with_context', 'eval'), ('eval_with_context_mut', 'eval_mut')):
        f = prog.fn('tree::Node::<NumericTypes>::' + name)
        if f is None:
            ctx.unrecognised('one-walk', 'Node::' + name, 'missing', 'evaluator not found')
            continue
        evaluator(_Renamed(ctx, 'one-walk'), prog, f, name, opname)


def _match(pat, term, var):
    """binding of SYM(var) that makes the pattern equal to the term, or None"""
    if pat == SYM(var):
        return term
    if pat[0] != term[0]:
        return None
    if pat[0] == 'adt' and pat[1:4] == term[1:4] and len(pat[4]) == len(term[4]):
        subs = [(_match(a, b, var) if a != b else Ellipsis) for a, b in zip(pat[4], term[4])]
    elif pat[0] == 'tuple' and len(pat[1]) == len(term[1]):
        subs = [(_match(a, b, var) if a != b else Ellipsis) for a, b in zip(pat[1], term[1])]
    else:
        return None
    found = [x for x in subs if x is not Ellipsis]
    if any(x is None for x in found) or len({repr(x) for x in found}) != 1:
        return None
    return found[0]


_ALIASES = {}


def evaluator_aliases(prog):
    """crate-private functions the root evaluators are thin wrappers of: when `Node::eval_with_context(self, context)` is, on its single
    path, exactly `G(self, X(context))` for a private G (a walk shared between the shared-reference and the exclusive-reference evaluator),
    a call `G(n, X(c))` made by an entry point is a call of that evaluator on (n, c)"""
    key = id(prog)
    if key in _ALIASES:
        return _ALIASES[key]
    out = {}
    for name in ('eval_with_context', 'eval_with_context_mut'):
        e = prog.fn('tree::Node::<NumericTypes>::' + name)
        if e is None:
            continue

        def hook(it, fn, t, args):
            c = t['callee']
            if c.get('local'):
                return ('app', short(c['def']), tuple(args))
            return None
        try:
            ps = Interp(prog, hook=hook).paths(e, [SYM('self'), SYM('context')])
        except Budget:
            continue
        if len(ps) != 1 or ps[0][0][0] != 'app' or len(ps[0][0][2]) != 2 or ps[0][0][2][0] != SYM('self'):
            continue
        g = ps[0][0][1]
        gf = [f_ for f_ in prog.fns if short(f_.path) == g]
        if len(gf) != 1 or not str(gf[0].j.get('vis') or '').startswith('Restricted') or g.endswith('::' + name):
            continue
        from absint import has_subterm
        if has_subterm(ps[0][0][2][1], SYM('context')):
            out.setdefault(g, []).append(('tree::Node::' + name, ps[0][0][2][1]))
    _ALIASES[key] = out
    return out


OPAQUE_PREFIX = ('error::',)
FRESH = ('app', 'context::HashMapContext::new', ())


def entry(ctx, prog, f, g, ty, mut, has_ctx, worlds):
    """One entry point, decided against the root evaluator: for every outcome of tokenize / tokens_to_operator_tree (string forms) and
    of Node::eval_with_context[_mut] (6 value variants + error), the entry point returns the projection its name promises, having
    called the root evaluator exactly once with (the parsed tree | self, the given context | a fresh HashMapContext). Every other
    crate function on the way (other entry points, helpers) is followed, so it does not matter how the wrappers are layered."""
    inst = short(f.path)
    rule = 'matrix' if has_ctx else 'context-free'
    evaluator = 'tree::Node::eval_with_context' + ('_mut' if (mut or not has_ctx) else '')
    variant = TYPES[ty] if ty else None
    stages = []
    if g == 'interface':
        stages = [('tokenize-fails', ERR(SYM('token_error')), None), ('parse-fails', OK(SYM('tokens')), ERR(SYM('tree_error')))]
    cases = [(n, tv, trv, None, None) for n, tv, trv in stages] + [(wn, OK(SYM('tokens')), OK(SYM('tree')), wn, wv) for wn, wv in worlds]
    n_ok = 0
    aliases = evaluator_aliases(prog)
    for cname, tok_w, tree_w, wname, wval in cases:
        calls = []

        def hook(it, fn, t, args, tok_w=tok_w, tree_w=tree_w, wval=wval, calls=calls):
            c = t['callee']
            if not c.get('local'):
                return None
            d = short(c['def'])
            if c['name'] == 'int_as_float' and path_endswith(c.get('trait') or '', 'EvalexprNumericTypes'):
                # the numeric conversion stays a named term, also where the numeric types are known (entry points fixed to the default types)
                return ('app', d, tuple(args))
            if d == 'token::tokenize':
                calls.append((d, tuple(args)))
                return tok_w
            if d == 'tree::tokens_to_operator_tree':
                calls.append((d, tuple(args)))
                return tree_w if tree_w is not None else ('app', d, tuple(args))
            if path_endswith(d, 'tree::Node::eval_with_context') or path_endswith(d, 'tree::Node::eval_with_context_mut'):
                calls.append((d, tuple(args)))
                return wval if wval is not None else ('app', d, tuple(args))
            if d in aliases and len(args) == 2:
                for ename, pat in aliases[d]:
                    b = _match(pat, args[1], 'context')
                    if b is not None:
                        calls.append((ename, (args[0], b)))
                        return wval if wval is not None else ('app', ename, (args[0], b))
            if d.startswith(OPAQUE_PREFIX) or d == 'context::HashMapContext::new' or c['name'] == 'clone':
                return ('app', d, tuple(args))
            return None
        it = Interp(prog, hook=hook, max_depth=5)
        try:
            paths = it.paths(f, [SYM('arg1'), SYM('arg2')][:(2 if has_ctx else 1)])
        except Budget:
            ctx.unrecognised(rule, inst, 'budget', 'entry point too complex for abstract evaluation', span=f.span)
            return
        rets = [p for p in paths if p[0] != ('diverge',)]
        if len(paths) != 1 or len(rets) != 1:
            ctx.violation(rule, inst, 'value-dependent:' + cname, 'for case %s the entry point has %d paths (a guard depends on something other than the result\'s type)' % (cname, len(paths)), span=f.span)
            continue
        ret = rets[0][0]
        ev = [c for c in calls if 'Node::eval_with_context' in c[0]]
        if wname is None:
            want = tok_w if cname == 'tokenize-fails' else tree_w
            good = ret == want and not ev
            wtxt = fmt(want) + ' without evaluating'
        else:
            subject = SYM('tree') if g == 'interface' else SYM('arg1')
            context = SYM('arg2') if has_ctx else FRESH
            if len(ev) != 1 or not path_endswith(ev[0][0], evaluator) or ev[0][1] != (subject, context):
                ctx.violation(rule, inst, 'base-call', 'must reach %s exactly once with (%s, %s); found %s' % (evaluator, fmt(subject), fmt(context), [(c[0], [fmt(a) for a in c[1]]) for c in ev]), span=f.span)
                continue
            if g == 'interface':
                tk = [c for c in calls if c[0] == 'token::tokenize']
                tr = [c for c in calls if c[0] == 'tree::tokens_to_operator_tree']
                if len(tk) != 1 or tk[0][1] != (SYM('arg1'),) or len(tr) != 1 or tr[0][1] != (SYM('tokens'),):
                    ctx.violation(rule, inst, 'pipeline', 'the string is tokenized once and the tokens parsed once (found %s)' % [(c[0], [fmt(a) for a in c[1]]) for c in calls], span=f.span)
                    continue
            if ty is None:
                want = wval
            elif wname == 'Err':
                want = ERR(SYM('error'))
            else:
                payload = wval[4][0][4]
                if ty == 'number' and wname == 'Float':
                    want = OK(payload[0])
                elif ty == 'number' and wname == 'Int':
                    want = 'int_as_float'
                elif ty == 'empty' and wname == 'Empty':
                    want = OK(('tuple', ()))
                elif wname == variant:
                    want = OK(payload[0]) if payload else OK(('tuple', ()))
                else:
                    want = ERR(('app', 'error::EvalexprError::expected_' + ty, (wval[4][0],)))
            if want == 'int_as_float':
                good = (ret[0] == 'adt' and ret[3] == 'Ok' and ret[4][0][0] == 'app' and ret[4][0][1].endswith('int_as_float') and ret[4][0][2] == (SYM('payload_Int'),))
                wtxt = 'Ok(int_as_float(payload))'
            else:
                good = norm_expected(prog, ret) == norm_expected(prog, want)
                wtxt = fmt(want)
        if good:
            n_ok += 1
            ctx.ok(rule, '%s[%s]' % (inst, cname), '%s -> %s' % (cname, fmt(ret)), span=f.span)
        else:
            ctx.violation(rule, inst, 'projection:' + cname, 'case %s must yield %s, the entry point returns %s' % (cname, wtxt, fmt(ret)), span=f.span)
    if n_ok == len(cases):
        ctx.sample(dict(instance=inst, evaluator=evaluator, variant=variant or ('Int|Float' if ty else 'untyped'), context='given' if has_ctx else 'fresh HashMapContext::new()', verdict='ok', span=f.span))


_EXPECTED_CACHE = {}


def norm_expected(prog, v):
    """`EvalexprError::expected_x(value)` and the error variant it builds are the same value: constructor helpers of the error module
    that were kept opaque are replaced by what they return (single path, no further calls), so it does not matter whether a wrapper
    calls the helper or constructs the variant itself"""
    k = v[0]
    if k == 'adt':
        return (v[0], v[1], v[2], v[3], tuple(norm_expected(prog, x) for x in v[4]))
    if k == 'tuple':
        return ('tuple', tuple(norm_expected(prog, x) for x in v[1]))
    if k == 'proj':
        return ('proj', norm_expected(prog, v[1]), v[2])
    if k == 'app':
        args = tuple(norm_expected(prog, x) if isinstance(x, tuple) else x for x in v[2])
        nm = v[1]
        if nm.startswith('error::EvalexprError::expected_') or nm.startswith('error::EvalexprError::<NumericTypes>::expected_'):
            g = prog.fn(nm) or prog.fn(nm.replace('error::EvalexprError::', 'error::EvalexprError::<NumericTypes>::'))
            if g is not None and g.arg_count == len(args):
                try:
                    ps = Interp(prog, max_depth=2).paths(g, list(args))
                except Budget:
                    ps = []
                if len(ps) == 1 and ps[0][0][0] == 'adt' and not any(not e[0].startswith('<') for e in ps[0][1]):
                    return ps[0][0]
        return ('app', nm, args)
    return v


def base_name(g, mut):
    return ('interface::eval_with_context' if g == 'interface' else 'tree::Node::eval_with_context') + ('_mut' if mut else '')


def typed(ctx, prog, f, g, ty, mut, worlds):
    base = base_name(g, mut)
    variant = TYPES[ty]
    inst = short(f.path)
    n_ok = 0
    for wname, wval in worlds:
        calls = []

        def hook(it, fn, t, args, wval=wval, calls=calls):
            c = t['callee']
            if c.get('local') and c['name'] not in ('clone',):
                d = short(c['def'])
                calls.append((d, tuple(args)))
                if path_endswith(d, base):
                    return wval
                return ('app', d, tuple(args))
            return None
        it = Interp(prog, hook=hook)
        try:
            paths = it.paths(f, [SYM('arg1'), SYM('arg2')])
        except Budget:
            ctx.unrecognised('matrix', inst, 'budget', 'wrapper too complex for abstract evaluation', span=f.span)
            return
        rets = [p for p in paths if p[0] != ('diverge',)]
        if len(paths) != 1 or len(rets) != 1:
            ctx.violation('matrix', inst, 'value-dependent:' + wname, 'for base result %s the wrapper has %d paths (a guard depends on something other than the result\'s type)' % (wname, len(paths)), span=f.span)
            continue
        ret = rets[0][0]
        bcalls = [c for c in calls if path_endswith(c[0], base)]
        if len(bcalls) != 1 or bcalls[0][1] != (SYM('arg1'), SYM('arg2')):
            ctx.violation('matrix', inst, 'base-call', 'must call %s exactly once with (self|string, context) forwarded in order; found %s' % (base, [(c[0], [fmt(a) for a in c[1]]) for c in calls]), span=f.span)
            continue
        # expectation
        if wname == 'Err':
            want = ERR(SYM('error'))
        else:
            payload = wval[4][0][4]
            if ty == 'number' and wname == 'Float':
                want = OK(payload[0])
            elif ty == 'number' and wname == 'Int':
                want = 'int_as_float'
            elif ty == 'empty' and wname == 'Empty':
                want = OK(('tuple', ()))
            elif wname == variant:
                want = OK(payload[0]) if payload else OK(('tuple', ()))
            else:
                want = ERR(('app', 'error::EvalexprError::expected_' + ty, (wval[4][0],)))
        if want == 'int_as_float':
            good = (ret[0] == 'adt' and ret[3] == 'Ok' and ret[4][0][0] == 'app' and ret[4][0][1].endswith('int_as_float') and ret[4][0][2] == (SYM('payload_Int'),))
            wtxt = 'Ok(int_as_float(payload))'
        else:
            good = norm_expected(prog, ret) == norm_expected(prog, want)
            wtxt = fmt(want)
        if good:
            n_ok += 1
            ctx.ok('matrix', '%s[%s]' % (inst, wname), '%s -> %s' % (wname, fmt(ret)), span=f.span)
        else:
            ctx.violation('matrix', inst, 'projection:' + wname, 'base result %s must be projected to %s, wrapper returns %s' % (fmt(wval), wtxt, fmt(ret)), span=f.span)
    if n_ok == len(worlds):
        ctx.sample(dict(instance=inst, base=base, variant=variant or 'Int|Float', verdict='ok', span=f.span))


def context_free(ctx, prog, f, g, ty):
    """eval[_T](x) == eval[_T]_with_context_mut(x, &mut HashMapContext::new())"""
    inst = short(f.path)
    target = ('interface::' if g == 'interface' else 'tree::Node::') + 'eval' + ('_' + ty if ty else '') + '_with_context_mut'
    calls = []

    def hook(it, fn, t, args):
        c = t['callee']
        if c.get('local'):
            d = short(c['def'])
            calls.append((d, tuple(args)))
            return ('app', d, tuple(args))
        return None
    it = Interp(prog, hook=hook)
    paths = it.paths(f, [SYM('arg1')])
    fresh = ('app', 'context::HashMapContext::new', ())
    want = ('app', target, (SYM('arg1'), fresh))
    good = len(paths) == 1 and paths[0][0] == want and [c[0] for c in calls] == ['context::HashMapContext::new', target]
    if good:
        ctx.ok('context-free', inst, 'returns %s unchanged' % fmt(want), span=f.span)
        ctx.sample(dict(instance=inst, forwards_to=target, context='fresh HashMapContext::new()', verdict='ok'))
    else:
        ctx.violation('context-free', inst, 'forwarding', 'must return %s unchanged; found %s via calls %s' % (fmt(want), [fmt(p[0]) for p in paths], [c[0] for c in calls]), span=f.span)


def pipeline(ctx, prog, f, mut):
    """tokenize(string)? -> tokens_to_operator_tree(..)? [-> Node::eval_with_context[_mut](&tree, context)]"""
    inst = short(f.path)

    def hook(it, fn, t, args):
        c = t['callee']
        if c.get('local'):
            d = short(c['def'])
            # the three stages are named terms; a private helper between the entry point and a stage (`parse(string)?`) is followed
            if d in ('token::tokenize', 'tree::tokens_to_operator_tree') or path_endswith(d, 'tree::Node::eval_with_context') or path_endswith(d, 'tree::Node::eval_with_context_mut') \
                    or d.startswith(OPAQUE_PREFIX) or not str((prog.by_path.get(c['def']) or f).j.get('vis') or '').startswith('Restricted'):
                return ('app', d, tuple(args))
        return None
    it = Interp(prog, hook=hook)
    nargs = 1 if mut is None else 2
    args = [SYM('string'), SYM('context')][:nargs]
    paths = it.paths(f, args)
    got = sorted({fmt(r) for r in expand_results([p[0] for p in paths])})
    tok = ('app', 'token::tokenize', (SYM('string'),))
    tree = ('app', 'tree::tokens_to_operator_tree', (P_OK(tok),))
    want = [ERR(P_ERR(tok))]
    if mut is None:
        want.append(tree)
    else:
        want.append(ERR(P_ERR(tree)))
        want.append(('app', 'tree::Node::eval_with_context' + ('_mut' if mut else ''), (P_OK(tree), SYM('context'))))
    want = expand_results(want)
    wantf = sorted({fmt(w) for w in want})
    if got == wantf:
        ctx.ok('pipeline', inst, 'path set = %s' % wantf, span=f.span)
        ctx.sample(dict(instance=inst, paths=wantf))
    else:
        ctx.violation('pipeline', inst, 'path-set', 'string entry point must be exactly tokenize -> tokens_to_operator_tree -> evaluate with errors passed through; expected %s, found %s' % (wantf, got), span=f.span)
