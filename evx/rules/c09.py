"""C09 — function resolution (claimed structurally).

R9.1 in the FunctionIdentifier arm of Operator::eval the builtin table is consulted only after Context::call_function returned
     FunctionIdentifierNotFound and only if builtins are not disabled; every other result of the context is returned unchanged
     (case split over context result x switch x table hit, by abstract interpretation);
R9.2 who-may-call: builtin_function has exactly one call site in the crate;
R9.3 policy constants of the three contexts (switch getter/setter, call_function, get_value);
R9.4 namespaces: HashMapContext::call_function reads only `functions`, get_value only `variables`; the switch is kept by the
     derived Clone and untouched by clear*;
R9.5 identifier classification in tokens_to_operator_tree: next token is an assignment => write; else left-sided value => function
     (one argument); else read;
R9.6 documented builtin names = arms of builtin_function (per feature set).
Not decided: argument values of the call forms (tree shape is C02/C05)."""
import tables
from absint import Interp, SYM, C, ADT, OK, ERR, SOME, NONE, UNK, Stop, Fork, fmt, is_adt, Budget
from mirlib import short, path_endswith, callee_matches, op_place, op_const, const_value, resolve_place
from rules.common import load_docs
from rules.treepaths import seed, branches_of, calls_of, is_true, opaque_hook

EXPLANATION = ('case-split abstract interpretation of the FunctionIdentifier arm (context result x builtin switch x table hit), who-may-call rule for '
               'builtin_function, abstract interpretation of the three contexts\' policy methods, path enumeration of the identifier classification in '
               'the tree builder, and name-table agreement with the documentation')

CONTEXT = 'context::Context'


def run(ctx):
    prog = ctx.prog()
    ctx.trust('rustc nightly MIR of /repo; std HashMap get/insert semantics')
    r91(ctx, prog)
    r92(ctx, prog)
    r93(ctx, prog)
    r95(ctx, prog)
    r96(ctx, prog, ())
    # R9.6 "the function the context currently defines for a name": set_function binds the name to the function it was given, replacing
    # an earlier binding, and clear_functions / clear remove them all - the C04 R4.6 semantics of the function map, reported here
    from rules.c04 import r46
    from rules.c05 import _Renamed
    r46(_Renamed(ctx, 'R9.6'), prog)
    if ctx.tier == 'thorough':
        pf = ctx.prog(features=('rand', 'regex', 'serde'))
        r96(ctx, pf, ('rand', 'regex', 'serde'))
        r91(ctx, pf, label='all-features:')
        r92(ctx, pf, label='all-features:')


def r91(ctx, prog, label=''):
    f = prog.fn('operator::Operator::<NumericTypes>::eval')
    if f is None:
        ctx.unrecognised('R9.1', 'Operator::eval', 'missing', 'Operator::eval not found')
        return
    op = prog.adt(tables.OPERATOR)
    v = [x for x in op['variants'] if x['name'] == 'FunctionIdentifier'][0]
    selfv = ADT(op['path'], v['idx'], v['name'], [SYM('identifier')])
    err = prog.adt('error::EvalexprError')
    nf = [x for x in err['variants'] if x['name'] == 'FunctionIdentifierNotFound'][0]
    worlds = {
        'ok': OK(SYM('user_result')),
        'not_found': ERR(ADT(err['path'], nf['idx'], nf['name'], [SYM('reported_name')])),
    }
    for ev in err['variants']:
        if ev['name'] != 'FunctionIdentifierNotFound':
            worlds['err:' + ev['name']] = ERR(ADT(err['path'], ev['idx'], ev['name'], [SYM('p%d' % i) for i, _ in enumerate(ev['fields'])]))
    n = 0
    for wname, wval in worlds.items():
        for disabled in (True, False):
            for hit in (True, False):
                log = []

                def hook(it, fn, t, args, wval=wval, disabled=disabled, hit=hit, log=log):
                    c = t['callee']
                    if path_endswith(c.get('trait') or '', CONTEXT):
                        log.append((c['name'], tuple(args)))
                        if c['name'] == 'call_function':
                            return wval
                        if c['name'] == 'are_builtin_functions_disabled':
                            return C(disabled)
                        return ('app', 'Context::' + c['name'], tuple(args))
                    if c.get('local') and c['name'] == 'builtin_function':
                        log.append(('builtin_function', tuple(args)))
                        return SOME(SYM('builtin')) if hit else NONE
                    if c.get('local') and c['name'] == 'call' and 'Function' in c['def']:
                        log.append(('Function::call', tuple(args)))
                        return ('app', 'Function::call', tuple(args))
                    if c.get('local') and c['name'] == 'expect_operator_argument_amount':
                        return OK(('tuple', ()))
                    return None
                it = Interp(prog, hook=hook, max_depth=5)
                try:
                    paths = it.paths(f, [selfv, SYM('arguments'), SYM('context')])
                except Budget:
                    ctx.unrecognised('R9.1', label + 'FunctionIdentifier', 'budget', 'arm too complex', span=f.span)
                    return
                n += 1
                inst = '%sFunctionIdentifier[%s,disabled=%s,table_hit=%s]' % (label, wname, disabled, hit)
                if len(paths) != 1:
                    ctx.violation('R9.1', inst, 'paths', 'resolution depends on more than the context result, the builtin switch and the table (%d paths)' % len(paths), span=f.span)
                    continue
                ret = paths[0][0]
                names = [x[0] for x in log]
                arg0 = ('proj', SYM('arguments'), ('[0]',))
                # context first, with (identifier, arguments[0])
                cf = [x for x in log if x[0] == 'call_function']
                good_first = names[:1] == ['call_function'] and len(cf) == 1 and cf[0][1][1:] == (SYM('identifier'), arg0)
                consulted = 'builtin_function' in names
                if wname == 'not_found' and not disabled:
                    if hit:
                        want = ('app', 'Function::call', (SYM('builtin'), arg0))
                    else:
                        want = ERR(ADT(err['path'], nf['idx'], nf['name'], [SYM('identifier')]))
                    bf = [x for x in log if x[0] == 'builtin_function']
                    good = good_first and consulted and len(bf) == 1 and bf[0][1] == (SYM('identifier'),) and ret == want
                    what = 'context reports not-found and builtins are enabled: the builtin table is consulted once with the same identifier and argument (returns %s)' % fmt(ret)
                else:
                    good = good_first and not consulted and ret == wval
                    what = 'context result %s with builtins %s is returned unchanged and the builtin table is not consulted (returns %s; calls %s)' % (wname, 'disabled' if disabled else 'enabled', fmt(ret), names)
                ctx.check(good, 'R9.1', inst, 'resolution', what, span=f.span)
    ctx.counters[label + 'resolution_cases'] = n


def r92(ctx, prog, label=''):
    from rules.common import terminal_call_sites
    sites = terminal_call_sites(prog, lambda c: c.get('local') and c.get('name') == 'builtin_function', roots={'operator::Operator::eval'})
    ctx.check(len(sites) == 1 and sites[0][0] == 'operator::Operator::eval', 'R9.2', label + 'builtin_function', 'who-may-call',
              'builtin_function is reached from exactly one site, the FunctionIdentifier arm of Operator::eval (directly or through a private helper called only there; found %s)' % sites)


def ctx_method(prog, ctxname, method, trait=CONTEXT):
    c = [f for f in prog.fns if f.name == method and path_endswith(f.j.get('impl_trait') or '', trait) and (f.j.get('impl_self_ty') or '').startswith('context::' + ctxname + '<')]
    return c[0] if len(c) == 1 else None


def r93(ctx, prog):
    err = prog.adt('error::EvalexprError')
    for cname, disabled_const in (('EmptyContext', True), ('EmptyContextWithBuiltinFunctions', False), ('HashMapContext', None)):
        f = ctx_method(prog, cname, 'are_builtin_functions_disabled')
        if f is None:
            ctx.unrecognised('R9.3', cname + '::are_builtin_functions_disabled', 'missing', 'method not found')
            continue
        ps = Interp(prog).paths(f, [SYM('self')])
        if disabled_const is None:
            good = len(ps) == 1 and ps[0][0] == ('proj', SYM('self'), ('without_builtin_functions',))
            what = 'HashMapContext reports its stored switch'
        else:
            good = len(ps) == 1 and ps[0][0] == C(disabled_const)
            what = '%s::are_builtin_functions_disabled is the constant %s' % (cname, disabled_const)
        ctx.check(good, 'R9.3', cname + '::are_builtin_functions_disabled', 'switch-getter', what + ' (found %s)' % [fmt(p[0]) for p in ps], span=f.span)
        # setter
        g = ctx_method(prog, cname, 'set_builtin_functions_disabled')
        if g is None:
            ctx.unrecognised('R9.3', cname + '::set_builtin_functions_disabled', 'missing', 'method not found')
        else:
            res = {}
            stores = {}
            for val in (True, False):
                ps = Interp(prog).paths(g, [SYM('self'), C(val)])
                res[val] = [fmt(p[0]) for p in ps]
                stores[val] = [e for p in ps for e in p[1] if e[0] == '<store-field>']
            if disabled_const is True:
                good = res[True] == ['Result::Ok(())'] and res[False] == ['Result::Err(EvalexprError::BuiltinFunctionsCannotBeEnabled)']
            elif disabled_const is False:
                good = res[False] == ['Result::Ok(())'] and res[True] == ['Result::Err(EvalexprError::BuiltinFunctionsCannotBeDisabled)']
            else:
                good = all(res[v] == ['Result::Ok(())'] and len(stores[v]) == 1 and stores[v][0][2] == (SYM('self'), ('c', ('without_builtin_functions',)), C(v)) for v in (True, False))
            ctx.check(good, 'R9.3', cname + '::set_builtin_functions_disabled', 'switch-setter', 'setter accepts/rejects/stores as documented (true -> %s, false -> %s)' % (res[True], res[False]), span=g.span)
        # call_function / get_value of the empty contexts
        if disabled_const is not None:
            h = ctx_method(prog, cname, 'call_function')
            ps = Interp(prog).paths(h, [SYM('self'), SYM('identifier'), SYM('argument')]) if h else []
            good = len(ps) == 1 and is_adt(ps[0][0], 'result::Result', 'Err') and is_adt(ps[0][0][4][0], 'error::EvalexprError', 'FunctionIdentifierNotFound') and ps[0][0][4][0][4] == (SYM('identifier'),)
            ctx.check(good, 'R9.3', cname + '::call_function', 'no-functions', '%s defines no functions: call_function always reports FunctionIdentifierNotFound(identifier)' % cname, span=h.span if h else None)
            h = ctx_method(prog, cname, 'get_value')
            ps = Interp(prog).paths(h, [SYM('self'), SYM('identifier')]) if h else []
            ctx.check(len(ps) == 1 and ps[0][0] == NONE, 'R9.3', cname + '::get_value', 'no-variables', '%s has no variables: get_value is always None' % cname, span=h.span if h else None)
        else:
            # R9.4 namespaces
            h = ctx_method(prog, cname, 'call_function')
            ps = Interp(prog).paths(h, [SYM('self'), SYM('identifier'), SYM('argument')]) if h else []
            look = set()
            for ret, eff in ps:
                for e in eff:
                    if not e[0].startswith('<') and e[2] and e[2][0][0] == 'proj' and e[2][0][1] == SYM('self'):
                        look.add((e[0].split('::')[-1], e[2][0][2]))
            okp = len(ps) == 2 and look == {('get', ('functions',))}
            rets = sorted(fmt(p[0]) for p in ps)
            okp = okp and any(is_adt(p[0], 'result::Result', 'Err') and is_adt(p[0][4][0], 'error::EvalexprError', 'FunctionIdentifierNotFound') and p[0][4][0][4] == (SYM('identifier'),) for p in ps)
            okp = okp and any(p[0][0] == 'app' and p[0][2][-1] in (('tuple', (SYM('argument'),)), SYM('argument')) for p in ps)
            ctx.check(okp, 'R9.4', 'HashMapContext::call_function', 'namespace', 'functions are looked up only in the `functions` map, called with the given argument, else FunctionIdentifierNotFound(identifier) (field uses %s; returns %s)' % (sorted(look), rets), span=h.span if h else None)
            h = ctx_method(prog, cname, 'get_value')
            ps = Interp(prog).paths(h, [SYM('self'), SYM('identifier')]) if h else []
            good = len(ps) == 1 and ps[0][0][0] == 'app' and ps[0][0][1].endswith('::get') and ps[0][0][2] == (('proj', SYM('self'), ('variables',)), SYM('identifier'))
            ctx.check(good, 'R9.4', 'HashMapContext::get_value', 'namespace', 'variables are looked up only in the `variables` map (returns %s)' % [fmt(p[0]) for p in ps], span=h.span if h else None)
            # the switch is a plain field of a derived-Clone struct, untouched by clear*
            from rules.common import fieldwise_clone
            okc, how = fieldwise_clone(prog)
            ctx.check(okc, 'R9.4', 'HashMapContext:Clone', 'derived-clone', 'Clone for HashMapContext is the field-wise clone: it copies the switch field with the maps (%s)' % how)
            for m in ('clear', 'clear_variables', 'clear_functions'):
                mf = prog.fn('context::HashMapContext::<NumericTypes>::' + m)
                if mf is None:
                    ctx.unrecognised('R9.4', 'HashMapContext::' + m, 'missing', 'not found')
                    continue
                ps = Interp(prog).paths(mf, [SYM('self')])
                touched = set()
                for ret, eff in ps:
                    for e in eff:
                        if e[0] == '<store-field>':
                            touched.add(e[2][1][1])
                        elif not e[0].startswith('<') and e[2] and e[2][0][0] == 'proj' and e[2][0][1] == SYM('self'):
                            touched.add(e[2][0][2])
                ctx.check(('without_builtin_functions',) not in touched, 'R9.4', 'HashMapContext::' + m, 'switch-untouched', '%s does not touch the builtin switch (touches %s)' % (m, sorted(touched)), span=mf.span)


def r95(ctx, prog):
    """identifier classification, decided on what tokens_to_operator_tree inserts for `identifier` followed by each token kind
    (tables.token_semantics): an assignment token next => write target; else a left-sided value next => function; else (or at
    the end) => variable read; the node carries the identifier unchanged."""
    try:
        sem = tables.token_semantics(prog)
        tp = tables.token_predicates(prog)
    except tables.TableError as e:
        ctx.unrecognised('R9.5', 'token-semantics', 'shape', str(e))
        return
    f = sem['fn']
    n = 0
    bad = []
    # the specification, not the code's own predicates (C02 T5 checks those): a function when directly followed by `(`, a literal
    # or another identifier; an assignment target when followed by an assignment operator
    try:
        tsym = tables.display_symbols(prog, tables.TOKEN)
    except tables.TableError:
        tsym = {}
    spec_left = {'LBrace'} | {n_ for n_, s_ in tsym.items() if s_ is None}
    spec_assign = {n_ for n_, s_ in tsym.items() if s_ and s_.endswith('=') and s_ not in ('==', '!=', '>=', '<=')}
    ctx.check(spec_left == {'LBrace', 'Identifier', 'Float', 'Int', 'Boolean', 'String'} and len(spec_assign) == 9, 'R9.5', 'spec-sets', 'spec', 'tokens that start an operand: %s; assignment tokens: %s' % (sorted(spec_left), sorted(spec_assign)), span=f.span)
    for N, got in sorted(sem['ident_next'].items(), key=lambda kv: str(kv[0])):
        if N is None:
            want = 'VariableIdentifierRead'
        elif N in spec_assign:
            want = 'VariableIdentifierWrite'
        elif N in spec_left:
            want = 'FunctionIdentifier'
        else:
            want = 'VariableIdentifierRead'
        n += 1
        ok_ = len(got) == 1 and list(got)[0][3] == want and list(got)[0][4] == (SYM('p'),)
        if not ok_:
            bad.append('%s -> %s (expected %s)' % (N, sorted(fmt(x) for x in got), want))
    ctx.check(not bad, 'R9.5', 'Identifier-arm', 'classification', 'identifier followed by an assignment token is a write target, else followed by a left-sided value a function, else a variable read; the node carries the identifier (%d following-token cases; deviations: %s)' % (n, bad[:4]), span=f.span)
    ctx.floor('R9.5', 'identifier_next_cases', n, 34)
    ctx.sample(dict(rule='R9.5', classification={str(k): sorted(x[3] for x in v) for k, v in list(sem['ident_next'].items())[:8]}))


_NAMES = {}


def builtin_names(prog):
    """the names builtin_function resolves. Candidates are the string constants of the module's functions (the look-up may be split
    over several functions, or keyed without a namespace prefix it strips first), alone and behind the documented namespace
    prefixes; a candidate is a builtin name when builtin_function, interpreted on it, returns Some(..)."""
    key = id(prog)
    if key in _NAMES:
        return _NAMES[key]
    f = prog.fn('function::builtin::builtin_function')
    if f is None:
        return None
    consts = set()
    for g in prog.fns:
        if g.kind == 'Closure' or not short(g.path).startswith('function::builtin::'):
            continue
        for b, t in g.calls():
            for a in t['args']:
                v = const_value(a)
                if isinstance(v, str):
                    consts.add(v)
        for blk in g.blocks:
            for st in blk['stmts']:
                if st['k'] == 'assign' and st['rv']['k'] == 'use':
                    v = const_value(st['rv']['op'])
                    if isinstance(v, str):
                        consts.add(v)
    cands = set()
    for v in consts:
        if 0 < len(v) <= 40 and all(ch.isalnum() or ch in '_:' for ch in v):
            cands.add(v)
            if '::' not in v:
                for pre in ('math::', 'str::'):
                    cands.add(pre + v)
    names = set()
    for n in sorted(cands):
        try:
            ps = Interp(prog, max_depth=4).paths(f, [C(n)])
        except Budget:
            continue
        if ps and all(is_adt(p[0], 'option::Option', 'Some') for p in ps if p[0] != ('diverge',)):
            names.add(n)
    _NAMES[key] = names
    return names


def r96(ctx, prog, features):
    label = ('features=' + ','.join(features) + ':') if features else ''
    names = builtin_names(prog)
    lib, _ = load_docs(ctx)
    doc = lib.builtin_table()
    if names is None or not doc:
        ctx.unrecognised('R9.6', label + 'builtin-names', 'shape', 'builtin name table or documentation table not found')
        return
    gated = {'str::regex_matches': 'regex', 'str::regex_replace': 'regex', 'random': 'rand'}
    ctx.floor('R9.6', label + 'builtin_names', len(names), 52 if set(features) >= {'regex', 'rand'} else 49)
    for n in sorted(names):
        ctx.check(n in doc, 'R9.6', label + 'code-name:' + n, 'undocumented', 'builtin `%s` is documented' % n)
    for n in sorted(doc):
        if n in names:
            continue
        feat = gated.get(n)
        ctx.check(feat is not None and feat not in features, 'R9.6', label + 'doc-name:' + n, 'missing-builtin', 'documented builtin `%s` exists in the code (or is gated behind a disabled feature)' % n)
