"""C13 — malformed expressions are rejected (clause level).

insert_back_prioritized attaches a node in exactly two ways.  For every operator kind the function is abstractly
interpreted (self and the flag symbolic, the inserted node's kind concrete), which decides which kinds can reach
each mode given the crate's own total predicates:
S13.1 plain push (`self.children.push(node)` without a preceding pop): an operand position - no kind that takes its
      first argument from the left (arity 2) may arrive;
S13.2 rotation (`node.children.push(last_child)` after `self.children.pop()`): the node adopts the previous operand as its
      left argument - a parenthesis group (RootNode) must not arrive, leaves must not arrive;
S13.3 parenthesis accounting in tokens_to_operator_tree: `(` pushes exactly one RootNode, `)` fails with UnmatchedRBrace when
      no level is open and otherwise collapses and pops exactly one, the end fails with UnmatchedLBrace when levels remain;
S13.4 eager arity: every fixed-arity arm of Operator::eval / eval_mut checks its own arity before anything else.
Not decided: completeness of the rejection (depends on the run-time shape of the partially built tree)."""
import tables
from absint import Interp, SYM, C, ADT, OK, ERR, Fork, fmt, is_adt, Budget, apps
from mirlib import (short, callee_matches, op_place, resolve_place, const_value, question_mark, switch_on_discriminant,
                    call_result_bool_edges, is_local, path_endswith)
from rules.treepaths import opaque_hook, calls_of, branches_of, is_true, seed
from rules.common import safe_tables
from rules.c01_guards import const_of, len_call_of

EXPLANATION = ('feasible-kind analysis: insert_back_prioritized is abstractly interpreted once per operator kind of the inserted node (32 kinds), '
               'enumerating its paths; the plain-push mode must be infeasible for arity-2 kinds and the rotation mode infeasible for parenthesis groups and leaves; '
               'parenthesis accounting and eager arity checks by dominance rules. Decides which kinds can reach each insertion mode, not completeness of rejection')


def run(ctx):
    prog = ctx.prog()
    ctx.trust('rustc nightly MIR of /repo; operator tables extracted for C02')
    ctx.assume('recursion of insert_back_prioritized into the last child is covered inductively (same node kind, same rule)')
    T = safe_tables(ctx, prog, 'S13.1')
    if T is None:
        return
    modes(ctx, prog, T)
    s13_3(ctx, prog)
    s13_4(ctx, prog, T)
    # S13.6 an identifier becomes a function application only in front of something that starts an operand (`(`, a literal, another
    # identifier); in front of anything else it is a plain variable, so that `a !b`, `a -b`, `a )` are not given the meaning `a(..)`.
    # This is the C09 R9.5 classification (decided against the specification, not the code's own predicate), reported here because
    # widening the call form is a way of giving juxtaposed operands a meaning.
    from rules.c09 import r95
    from rules.c05 import _Renamed
    r95(_Renamed(ctx, 'S13.6'), prog)
    s13_7(ctx, prog)
    # S13.8 "never evaluates successfully in any context": an operator that lacks an operand is found out when its node is evaluated
    # (S13.4: the arity checks of Operator::eval), so every node of the tree has to be evaluated by both root evaluators, also the
    # elements of a chain whose values are discarded - the C08 R8.1-R8.3 analysis of each evaluator, reported here
    from rules.c08 import evaluator
    for name, opname in (('eval_with_context', 'eval'), ('eval_with_context_mut', 'eval_mut')):
        f = prog.fn('tree::Node::<NumericTypes>::' + name)
        if f is None:
            ctx.unrecognised('S13.8', 'Node::' + name, 'missing', 'evaluator not found')
            continue
        evaluator(_Renamed(ctx, 'S13.8'), prog, f, name, opname)
    # S13.9 "never evaluates successfully": through every entry point - each typed / string-level form reaches the tree builder and
    # the root evaluator exactly once and answers from nothing else (the base-call part of the C12 entry-point analysis, as C08 R8.7):
    # a literal fast path in `eval_number` that parses the text itself accepts `+1`
    from rules.c08 import r87
    r87(ctx, prog, rule='S13.9')


def s13_7(ctx, prog):
    """S13.7 who-may-report: the two unbalanced-parenthesis errors are constructed only inside the token-level accounting that S13.3
    decided (tokens_to_operator_tree and the crate-private `tree::` helpers reached from it); trait impls of the error type itself
    (Clone, Deserialize) are exempt.  A construction anywhere else is a second, unanalysed place where input can be called unbalanced
    (a character-level count sees the parentheses inside string literals and comments), so "balanced input is never reported as
    unbalanced" is no longer decided by S13.3."""
    from mirlib import path_endswith, short
    names = ('UnmatchedLBrace', 'UnmatchedRBrace')
    root = prog.fn('tree::tokens_to_operator_tree')
    if root is None:
        ctx.unrecognised('S13.7', 'tokens_to_operator_tree', 'missing', 'tree builder not found')
        return
    callers = {}
    for g in prog.fns:
        for blk in g.blocks:
            t = blk['term']
            if t['k'] == 'call' and t['callee'].get('local'):
                for d in (t['callee'].get('def'), (t['callee'].get('resolved') or {}).get('def')):
                    if d:
                        callers.setdefault(d, set()).add(g.path)
    allowed = set()
    todo = [root]
    while todo:
        g = todo.pop()
        if g.path in allowed:
            continue
        allowed.add(g.path)
        for c in prog.closures_of(g.path):
            todo.append(c)
        for blk in g.blocks:
            t = blk['term']
            if t['k'] == 'call' and t['callee'].get('local'):
                h = prog.by_path.get(t['callee']['def']) or prog.by_path.get((t['callee'].get('resolved') or {}).get('def'))
                if h is not None and short(h.path).startswith('tree::') and h.j.get('vis') != 'pub' and not h.j.get('impl_trait'):
                    todo.append(h)
    sites = []
    for g in prog.fns:
        for blk in g.blocks:
            if blk['cleanup']:
                continue
            for st in blk['stmts']:
                if st['k'] == 'assign' and st['rv']['k'] == 'aggregate' and st['rv'].get('agg') == 'adt' and path_endswith(st['rv']['adt'], 'error::EvalexprError') and st['rv'].get('vname') in names:
                    sites.append((g, st['rv']['vname'], st.get('span')))
    ctx.floor('S13.7', 'brace_error_construction_sites', len(sites), 2)

    def ok(g, depth=0):
        if g.path in allowed:
            return True
        if (g.j.get('impl_self') or '').startswith('error::EvalexprError') or 'error::EvalexprError as' in short(g.path):
            return True
        # a constructor function of the error module (no branch, one construction): decided at its callers
        if depth < 3 and short(g.path).startswith('error::') and sum(1 for b in g.blocks if not b['cleanup']) <= 2:
            cs = callers.get(g.path, set())
            return bool(cs) and all(ok(prog.by_path[c], depth + 1) for c in cs if c in prog.by_path)
        return False

    for g, vn, span in sites:
        inst = '%s in %s' % (vn, short(g.path))
        if ok(g):
            ctx.ok('S13.7', inst, '%s is constructed inside the token-level parenthesis accounting decided by S13.3' % vn, span=span)
        else:
            # not a proof of a wrong report: a place S13.3 did not analyse, so the clause is undecided on this tree (fail closed)
            ctx.unrecognised('S13.7', inst, 'outside-accounting',
                             '%s is constructed in %s, outside the token-level parenthesis accounting decided by S13.3 (tokens_to_operator_tree and its private tree:: helpers): a second place where input can be called unbalanced, which no rule has analysed' % (vn, short(g.path)), span=span)


def modes(ctx, prog, T):
    """Which operator kinds can be attached in which way. The decision function of insert_back_prioritized (C02 T7's: every path with
    symbolic operators for self, its last child and the inserted node, and a symbolic child count of self) is evaluated for every
    inserted kind over all states the procedure itself can be in (self kind x last-child kind x root flag x number of children up to
    self's arity); a kind *reaches plain push / rotation* when some such state decides so. Paths that exist in the control-flow graph
    but whose conditions contradict each other (a `None` arm after the node is known to be complete) therefore do not count."""
    from rules.c02 import compile_insertion, InsertionError, InsertionUnknown
    try:
        f, decide, n_paths = compile_insertion(prog, T)
    except InsertionError as e:
        ctx.unrecognised('S13.1', 'insert_back_prioritized', e.kind, e.msg, span=e.span)
        return
    op = prog.adt(tables.OPERATOR)
    arity = T['max_argument_amount']
    prec, unary, l2r, leaf = T['precedence'], T['is_unary'], T['is_left_to_right'], T['is_leaf']
    cls = {}
    for k in prec:
        cls.setdefault((prec[k], unary[k], l2r[k], leaf[k], k == 'RootNode', arity[k]), []).append(k)
    reps = sorted(v[0] for v in cls.values())
    plain_kinds, rot_kinds = set(), set()
    n_states = 0
    try:
        for members in cls.values():
            nn = members[0]
            outs = set()
            for s_ in reps:
                for l_ in reps:
                    for R in (False, True):
                        for sclen in range(0, (arity[s_] if arity[s_] is not None else 3) + 1):
                            n_states += 1
                            outs |= decide(dict(S=s_, L=l_, N=nn, R=R, sclen=sclen))
            for k in members:
                if 'push' in outs:
                    plain_kinds.add((k, f.span))
                if 'rotate' in outs:
                    rot_kinds.add((k, f.span))
    except InsertionUnknown as e:
        ctx.unrecognised('S13.1', 'insert_back_prioritized', 'condition', 'a branch condition of the insertion procedure is not a function of the operator tables: %s' % e, span=f.span)
        return
    # S13.5 juxtaposition: a value or a parenthesis group that follows a complete node whose last child is itself a value or a closed
    # parenthesis group has no operator to attach it with; the procedure must answer `error` - it may neither sink the operand into the
    # group/value (descend) nor adopt it (rotate) nor append it (push). (`1 2`, `(1) 2`, `(1 +) 2`, `(1)(2)`)
    closed = [k for k in prec if leaf[k] or k == 'RootNode']
    jux_bad = []
    try:
        for nn in sorted({m[0] for key, m in cls.items() if key[3] or key[4]}):       # leaf classes and the group
            for s_ in reps:
                if arity[s_] is None or arity[s_] == 0:
                    continue
                for l_ in sorted({m_ for m_ in reps if leaf[m_] or m_ == 'RootNode'}):
                    for R in (False, True):
                        outs = decide(dict(S=s_, L=l_, N=nn, R=R, sclen=arity[s_]))
                        if outs == {'descend'} and leaf[l_]:
                            # handing the operand down to a value is a rejection as well when the value rejects whatever arrives
                            sub = set()
                            for l2 in reps:
                                sub |= decide(dict(S=l_, L=l2, N=nn, R=False, sclen=0))
                            if sub == {'error'}:
                                continue
                        if outs != {'error'} and len(jux_bad) < 4:
                            jux_bad.append('%s after a complete %s whose last child is %s%s: %s' % (nn, s_, l_, ' (insertion root)' if R else '', sorted(outs)))
    except InsertionUnknown as e:
        ctx.unrecognised('S13.5', 'insert_back_prioritized', 'condition', 'a branch condition of the insertion procedure is not a function of the operator tables: %s' % e, span=f.span)
        return
    ctx.check(not jux_bad, 'S13.5', 'juxtaposition', 'operand-after-operand', 'an operand (value or parenthesis group) that follows a complete node ending in a value or a closed group is rejected, not attached (deviations: %s)' % jux_bad, span=f.span)
    ctx.counters['insert_paths_enumerated'] = n_paths
    ctx.counters['insert_states_evaluated'] = n_states
    ctx.floor('S13.1', 'operator_kinds', len(op['variants']), 32)
    pk = sorted({k for k, _ in plain_kinds})
    rk = sorted({k for k, _ in rot_kinds})
    ctx.counters['kinds_reaching_plain_push'] = pk
    ctx.counters['kinds_reaching_rotation'] = rk
    span_p = next(iter(plain_kinds))[1] if plain_kinds else f.span
    span_r = next(iter(rot_kinds))[1] if rot_kinds else f.span
    # both modes must exist at all (fail closed on a shape the rule does not recognise)
    if not pk or not rk:
        ctx.unrecognised('S13.1', 'insert_back_prioritized', 'modes', 'could not recognise both insertion modes (plain push: %s, rotation: %s)' % (pk, rk), span=f.span)
        return
    for k in sorted(arity):
        if arity[k] == 2:
            ctx.check(k not in pk, 'S13.1', 'plain-push:' + k, 'binary-as-operand',
                      'a %s node (takes its first argument from the left) must not be attachable by plain push into an operand position; today such input builds a tree (e.g. `+ 1 2`)' % k, span=span_p)
    for k in sorted(arity):
        if k == 'RootNode':
            ctx.check(k not in rk, 'S13.2', 'rotation:RootNode', 'group-adopts-operand',
                      'a parenthesis group must not adopt the previous operand as its child (juxtaposition `1 + 2()`, `-1()` would get a meaning)', span=span_r)
        elif arity[k] == 0:
            ctx.check(k not in rk, 'S13.2', 'rotation:' + k, 'leaf-adopts-operand', 'a leaf (%s) must not adopt the previous operand' % k, span=span_r)
        elif arity[k] == 1:
            ctx.check(k not in rk, 'S13.2', 'rotation:' + k, 'prefix-adopts-operand', 'a prefix operator or function (%s) takes its only operand from the right: it must not adopt the previous operand (`(true) !` would get a meaning)' % k, span=span_r)
    ctx.sample(dict(rule='S13.1/2', plain_push_kinds=pk, rotation_kinds=rk))


def s13_3(ctx, prog):
    """parenthesis accounting, decided by interpreting tokens_to_operator_tree on the token lists [], [`(`] and [`)`] with the builder
    functions abstract and every `root_stack.len()` a fresh unknown: what matters are the events on root_stack (push of a fresh root
    node, pop, collapse_all_sequences) and the depth tests that guard them - not the shape of the code that performs them."""
    f = prog.fn('tree::tokens_to_operator_tree')
    if f is None:
        ctx.unrecognised('S13.3', 'tokens_to_operator_tree', 'missing', 'not found')
        return
    tok = prog.adt(tables.TOKEN)

    def T(name):
        v = [x for x in tok['variants'] if x['name'] == name][0]
        return ADT(tok['path'], v['idx'], name, [])
    counter = [0]

    def extra(it, fn, t, args):
        c = t['callee']
        if c.get('local') and c['name'] == 'insert_back_prioritized':
            return OK(('tuple', ()))
        if c.get('local') and c['name'] == 'collapse_all_sequences':
            return Fork([OK(('tuple', ())), ERR(SYM('collapse_error'))])
        if c.get('local') and c['name'] == 'collapse_root_stack_to':
            return OK(SYM('collapsed'))
        if c['name'] == 'len' and not c.get('local') and 'vec::Vec' in c['def']:
            counter[0] += 1
            return ('app', 'len#%d' % counter[0], tuple(args))
        if c['name'] == 'is_empty' and not c.get('local') and ('vec::Vec' in c['def'] or 'slice' in c['def']):
            counter[0] += 1
            return ('app', 'is_empty#%d' % counter[0], tuple(args))
        return None

    def run(tokens):
        return Interp(prog, hook=opaque_hook(extra=extra), max_steps=400000).paths(f, [('tuple', tuple(tokens))])

    def events(eff, rs):
        """ordered events on root_stack: ('push-root' | 'push' | 'pop' | 'collapse' | 'insert'), and the depth tests taken"""
        ev, tests = [], []
        for e in eff:
            if e[0] == '<branch>':
                v, taken = e[2]
                if v[0] == 'app' and v[1].startswith('binop:') and len(v[2]) == 2:
                    a, b = v[2]
                    op = v[1].split(':')[1]
                    ln, cst, flip = None, None, False
                    if a[0] == 'app' and a[1].startswith('len#') and a[2] == (rs,) and b[0] == 'c':
                        ln, cst = a, b[1]
                    elif b[0] == 'app' and b[1].startswith('len#') and b[2] == (rs,) and a[0] == 'c':
                        ln, cst, flip = b, a[1], True
                    if ln is not None and op in ('Gt', 'Ge', 'Lt', 'Le', 'Eq', 'Ne') and isinstance(cst, int):
                        def holds(n, op=op, cst=cst, flip=flip, taken=taken):
                            x, y = (cst, n) if flip else (n, cst)
                            r = {'Gt': x > y, 'Ge': x >= y, 'Lt': x < y, 'Le': x <= y, 'Eq': x == y, 'Ne': x != y}[op]
                            return r == is_true(taken)
                        tests.append(holds)
                continue
            if e[0].startswith('<'):
                continue
            nm = e[0].split('::')[-1]
            a = e[2]
            if nm == 'push' and len(a) == 2 and a[0] == rs:
                ev.append('push-root' if (a[1][0] == 'app' and a[1][1].split('::')[-1] == 'root_node') else 'push')
            elif nm == 'pop' and a and a[0] == rs:
                ev.append('pop')
            elif nm == 'collapse_all_sequences' and a and a[0] == rs:
                ev.append('collapse')
            elif nm == 'insert_back_prioritized':
                ev.append('insert')
        return ev, tests
    try:
        p0 = run([])
        pl = run([T('LBrace')])
        pr = run([T('RBrace')])
    except Budget:
        ctx.unrecognised('S13.3', 'tokens_to_operator_tree', 'budget', 'too complex', span=f.span)
        return
    rs = None
    for ret, eff in p0:
        for e in eff:
            if not e[0].startswith('<') and e[0].split('::')[-1] == 'collapse_all_sequences' and e[2]:
                rs = e[2][0]
    if rs is None:
        ctx.unrecognised('S13.3', 'end-of-input', 'shape', 'the end of input does not call collapse_all_sequences(root_stack)', span=f.span)
        return

    def err(ret, name):
        return is_adt(ret, 'result::Result', 'Err') and is_adt(ret[4][0], 'error::EvalexprError', name)
    # ---- end of input (empty token list): with d levels left on the stack after the remaining sequences are collapsed, the outcome is
    # UnmatchedLBrace for d >= 2, the single root (popped) for d == 1 and UnmatchedRBrace for d == 0 - however the code asks (a depth
    # test before the pop, or a pop followed by a test of what is left). Every depth test / pop result along a path is evaluated for
    # the concrete d, with the pops made so far taken into account.
    def consistent(eff, d):
        depth = d
        popped = {}
        for e in eff:
            if e[0] == '<branch>':
                v, taken = e[2]
                val = None
                if v[0] == 'app' and v[1].startswith('binop:') and len(v[2]) == 2:
                    a, b = v[2]
                    op = v[1].split(':')[1]
                    x = depth if (a[0] == 'app' and a[1].startswith('len#') and a[2] == (rs,)) else (a[1] if a[0] == 'c' else None)
                    y = depth if (b[0] == 'app' and b[1].startswith('len#') and b[2] == (rs,)) else (b[1] if b[0] == 'c' else None)
                    if x is not None and y is not None and op in ('Gt', 'Ge', 'Lt', 'Le', 'Eq', 'Ne') and (x is depth or y is depth):
                        val = {'Gt': x > y, 'Ge': x >= y, 'Lt': x < y, 'Le': x <= y, 'Eq': x == y, 'Ne': x != y}[op]
                elif v[0] == 'app' and v[1].startswith('is_empty#') and v[2] == (rs,):
                    val = depth == 0
                elif v[0] == 'app' and v[1].startswith('unop:Not') and v[2][0][0] == 'app' and v[2][0][1].startswith('is_empty#') and v[2][0][2] == (rs,):
                    val = depth != 0
                elif v[0] == 'app' and v[1] == 'discriminant' and v[2][0][0] == 'app' and v[2][0][1].split('::')[-1].split('#')[0] == 'pop' and v[2][0][2] == (rs,):
                    # the pop itself was counted when its call effect was met: it returned Some iff there was something before it
                    key = v[2][0][1]
                    if key not in popped:
                        popped[key] = 1 if depth + 1 > 0 else 0
                        if popped[key] == 0:
                            depth += 1      # a pop that returned None removed nothing
                    val = popped[key]
                    if val != (taken[1] if taken[0] == 'c' else None) and not (taken[0] == 'sym' and val not in getattr(taken, 'excluded', (0,))):
                        return False
                    continue
                if val is not None and bool(val) != is_true(taken):
                    return False
            elif not e[0].startswith('<') and e[0].split('::')[-1] == 'pop' and e[2] and e[2][0] == rs:
                depth -= 1
        return True
    shapes = set()
    good = True
    detail = []
    for collapse_ok in (True, False):
        for d in (0, 1, 2, 3):
            outs = []
            for ret, eff in p0:
                if ret == ('diverge',):
                    continue
                is_cerr = ret == ERR(SYM('collapse_error'))
                ev, _tests = events(eff, rs)
                if ev[:1] != ['collapse']:
                    good = False
                    detail.append('a path does not start with collapse_all_sequences')
                    continue
                if is_cerr != (not collapse_ok):
                    continue
                if is_cerr:
                    outs.append('collapse-error')
                    continue
                if not consistent(eff, d):
                    continue
                if err(ret, 'UnmatchedLBrace'):
                    outs.append('UnmatchedLBrace')
                elif err(ret, 'UnmatchedRBrace'):
                    outs.append('UnmatchedRBrace')
                elif is_adt(ret, 'result::Result', 'Ok') and any(n_.split('::')[-1].split('#')[0] == 'pop' and x_ and x_[0] == rs for n_, x_ in apps(ret)) and ev.count('pop') == 1:
                    outs.append('Ok')
                else:
                    outs.append('? ' + fmt(ret)[:50])
            want = 'collapse-error' if not collapse_ok else ('UnmatchedRBrace' if d == 0 else ('Ok' if d == 1 else 'UnmatchedLBrace'))
            shapes |= set(outs)
            if sorted(set(outs)) != [want]:
                good = False
                detail.append('%d level(s) left%s: %s, expected %s' % (d, '' if collapse_ok else ' (collapse failed)', sorted(set(outs)), want))
    ctx.check(good and shapes == {'collapse-error', 'UnmatchedLBrace', 'UnmatchedRBrace', 'Ok'}, 'S13.3', 'end-of-input', 'end',
              'at the end the remaining sequences are collapsed (errors passed on), more than one remaining level is UnmatchedLBrace, exactly one is popped and returned, none is UnmatchedRBrace (outcomes %s; deviations %s)' % (sorted(shapes), detail[:3]), span=f.span)
    # ---- `(`: exactly one fresh root node pushed, no operator node
    good = bool(pl)
    n_l = 0
    for ret, eff in pl:
        if ret == ('diverge',):
            continue
        ev, _t = events(eff, rs)
        n_l += 1
        good = good and ev[:1] == ['push-root'] and ev.count('push-root') == 1 and 'insert' not in ev and 'push' not in ev
    ctx.check(good and n_l >= 1, 'S13.3', 'LBrace', 'lbrace', '`(` pushes exactly one RootNode onto root_stack and yields no operator node (%d paths)' % n_l, span=f.span)
    # ---- `)`: UnmatchedRBrace when no level is open, otherwise collapse the level and pop exactly one node
    ctx.assume('the node popped for `)` after collapse_all_sequences is the level\'s RootNode, not a sequence node (C05 S5.2: collapsing stays inside the level)')
    good = bool(pr)
    seen = set()
    why = []
    for ret, eff in pr:
        if ret == ('diverge',):
            continue
        ev, tests = events(eff, rs)
        first_test = tests[:1]
        if not good and not why:
            why.append('previous path')
        was = good
        # the node a `)` takes off the stack is the level's RootNode (after collapse_all_sequences the top of the stack is the level's
        # root): paths on which the interpreter, not knowing that, treats it as a sequence operator are not feasible
        as_seq = [is_true(tk) for v, tk in branches_of(eff) if v[0] == 'app' and v[1] == 'is_sequence' and any(n_.split('::')[-1].split('#')[0] == 'pop' and x_ and x_[0] == rs for n_, x_ in apps(v))]
        if as_seq[:1] == [True]:
            continue
        # ... and after the depth test established more than one entry, that pop cannot come back empty
        pops_ = [tk for v, tk in branches_of(eff) if v[0] == 'app' and v[1] == 'discriminant' and v[2][0][0] == 'app' and v[2][0][1].split('::')[-1].split('#')[0] == 'pop' and v[2][0][2] == (rs,)]
        if pops_[:1] and pops_[0] != C(1) and tests[:1] and tests[0](2) and not tests[0](1):
            continue
        if ev == [] and err(ret, 'UnmatchedRBrace'):
            seen.add('closed-error')
            good = good and bool(first_test) and first_test[0](1) and not first_test[0](2)
        elif ev[:1] == ['collapse']:
            good = good and bool(first_test) and first_test[0](2) and not first_test[0](1)
            if ret == ERR(SYM('collapse_error')) and ev == ['collapse']:
                seen.add('collapse-error')
            else:
                seen.add('closed-level')
                # the level: collapse, then exactly one pop (the popped group goes into the enclosing level), then the end-of-input sequence
                good = good and ev[:2] == ['collapse', 'pop']
                if 'collapse' in ev[1:]:
                    # the level was closed without an error and the end of input was reached: the enclosing root may have been taken
                    # off and put back to receive the group, the net effect is one node fewer and no new level
                    level = ev[:ev.index('collapse', 1)]
                    good = good and level.count('pop') - level.count('push') == 1 and 'push-root' not in level
                    # the closed group is handed to the enclosing level (never silently dropped: `1, () 2` would get a meaning)
                    good = good and level.count('insert') == 1
                else:
                    good = good and is_adt(ret, 'result::Result', 'Err') or ret[0] != 'adt' 
        else:
            good = False
            seen.add('? %s %s' % (ev[:4], fmt(ret)[:40]))
        if was and not good:
            why.append('%s -> %s' % (ev, fmt(ret)[:50]))
    ctx.check(good and {'closed-error', 'closed-level'} <= seen, 'S13.3', 'RBrace', 'rbrace', '`)` returns UnmatchedRBrace when no parenthesis level is open (root_stack.len() <= 1), otherwise collapses the level\'s sequences and pops exactly one node (cases %s; first deviating path %s)' % (sorted(seen), why[:1]), span=f.span)


def s13_4(ctx, prog, T):
    """every fixed-arity arm checks its own arity before anything else: interpreted with an argument list of every wrong length
    (0..3 except the operator's arity), each arm of Operator::eval / eval_mut ends in WrongOperatorArgumentAmount on every path and
    reaches no other outcome (helpers are followed, so it does not matter where the check is written)"""
    arity = T['max_argument_amount']
    op = prog.adt(tables.OPERATOR)
    for fname, kinds in (('eval', [k for k in arity if arity[k] is not None and k not in tables.ASSIGN and k != 'RootNode']), ('eval_mut', list(tables.ASSIGN))):
        f = prog.fn('operator::Operator::<NumericTypes>::' + fname)
        if f is None:
            ctx.unrecognised('S13.4', 'Operator::' + fname, 'missing', 'not found')
            continue
        n_checked = 0
        for k in kinds:
            v = [x for x in op['variants'] if x['name'] == k][0]
            selfv = ADT(op['path'], v['idx'], k, [SYM('f_' + fd['name']) for fd in v['fields']])
            want = arity[k]
            bad = []
            for n in range(0, 4):
                if n == want:
                    continue
                try:
                    ps = Interp(prog, max_depth=4).paths(f, [selfv, ('tuple', tuple(SYM('a%d' % i) for i in range(n))), SYM('context')])
                except Budget:
                    bad.append('%d arguments: too complex' % n)
                    continue
                for ret, eff in ps:
                    if not (is_adt(ret, 'result::Result', 'Err') and is_adt(ret[4][0], 'error::EvalexprError', 'WrongOperatorArgumentAmount')):
                        bad.append('%d arguments: %s' % (n, fmt(ret)[:80]))
                if not ps:
                    bad.append('%d arguments: no path' % n)
            n_checked += 1
            ctx.check(not bad, 'S13.4', '%s:%s' % (fname, k), 'arity-first', 'arm %s rejects every argument count other than %s with WrongOperatorArgumentAmount before any other outcome (%s)' % (k, want, '; '.join(bad[:3])), span=f.span)
        ctx.counters['arity_arms_' + fname] = n_checked
