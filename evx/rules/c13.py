"""C13 — malformed expressions are rejected (clause level).

insert_back_prioritized attaches a node in exactly two ways.  For every operator kind the function is abstractly
interpreted (self and the flag symbolic, the inserted node's kind concrete), which decides which kinds can reach
each mode given the crate's own total predicates:
S13.1 plain push (`self.children.push(node)` without a preceding pop): an operand position - no kind that takes its
      first argument from the left (arity 2) may arrive;
S13.2 rotation (`node.children.push(last_child)` after `self.children.pop()`): the node adopts the previous operand as its
      left argument - a parenthesis group (RootNode) must not arrive, leaves must not arrive;
S13.3 parenthesis accounting in tokens_to_operator_tree: `(` pushes exactly one RootNode, `)` fails with UnmatchedRBrace when
      no level is open and otherwise collapses and pops exactly one, the end fails with UnmatchedLBrace when levels remain;
S13.4 eager arity: every fixed-arity arm of Operator::eval / eval_mut checks its own arity before anything else.
Not decided: completeness of the rejection (depends on the run-time shape of the partially built tree)."""
import tables
from absint import Interp, SYM, C, ADT, fmt, is_adt, Budget, apps
from mirlib import (short, callee_matches, op_place, resolve_place, const_value, question_mark, switch_on_discriminant,
                    call_result_bool_edges, is_local, path_endswith)
from rules.treepaths import opaque_hook, calls_of, branches_of, is_true, seed
from rules.common import safe_tables
from rules.c01_guards import const_of, len_call_of

EXPLANATION = ('feasible-kind analysis: insert_back_prioritized is abstractly interpreted once per operator kind of the inserted node (32 kinds), '
               'enumerating its paths; the plain-push mode must be infeasible for arity-2 kinds and the rotation mode infeasible for parenthesis groups and leaves; '
               'parenthesis accounting and eager arity checks by dominance rules. Decides which kinds can reach each insertion mode, not completeness of rejection')


def run(ctx):
    prog = ctx.prog()
    ctx.trust('rustc nightly MIR of /repo; operator tables extracted for C02')
    ctx.assume('recursion of insert_back_prioritized into the last child is covered inductively (same node kind, same rule)')
    T = safe_tables(ctx, prog, 'S13.1')
    if T is None:
        return
    modes(ctx, prog, T)
    s13_3(ctx, prog)
    s13_4(ctx, prog, T)


def modes(ctx, prog, T):
    f = prog.fn('tree::Node::<NumericTypes>::insert_back_prioritized')
    if f is None:
        ctx.unrecognised('S13.1', 'insert_back_prioritized', 'missing', 'Node::insert_back_prioritized not found')
        return
    op = prog.adt(tables.OPERATOR)
    node_adt = prog.adt('tree::Node')
    arity = T['max_argument_amount']
    plain_kinds, rot_kinds = set(), set()
    n_paths = 0
    for v in op['variants']:
        fields = [SYM('f_' + fd['name']) for fd in v['fields']]
        nodev = ADT(node_adt['path'], 0, 'Node', [ADT(op['path'], v['idx'], v['name'], fields), SYM('node_children')])
        selfv = ADT(node_adt['path'], 0, 'Node', [SYM('self_operator'), SYM('self_children')])
        it = Interp(prog, hook=opaque_hook(opaque={'insert_back_prioritized', 'has_enough_children', 'has_too_many_children'}), max_steps=300000)
        try:
            paths = it.paths(f, [selfv, nodev, SYM('is_root_node')])
        except Budget:
            ctx.unrecognised('S13.1', 'kind:' + v['name'], 'budget', 'insert_back_prioritized too complex for path enumeration', span=f.span)
            continue
        n_paths += len(paths)
        for ret, eff in paths:
            if not is_adt(ret, 'result::Result', 'Ok'):
                continue
            popped = False
            for nm, a, sp in calls_of(eff):
                if nm == 'pop' and a and a[0] == SYM('self_children'):
                    popped = True
                if nm == 'push' and len(a) == 2:
                    if a[0] == SYM('self_children') and a[1] == nodev and not popped:
                        plain_kinds.add((v['name'], sp))
                    if popped and a[0] != SYM('self_children') and any(n_.split('::')[-1].split('#')[0] in ('pop', 'last', 'last_mut') and x_ and x_[0] == SYM('self_children') for n_, x_ in apps(a[1])):
                        # the node popped from self.children is pushed into another node's children: rotation
                        rot_kinds.add((v['name'], sp))
    ctx.counters['insert_paths_enumerated'] = n_paths
    ctx.floor('S13.1', 'operator_kinds', len(op['variants']), 32)
    pk = sorted({k for k, _ in plain_kinds})
    rk = sorted({k for k, _ in rot_kinds})
    ctx.counters['kinds_reaching_plain_push'] = pk
    ctx.counters['kinds_reaching_rotation'] = rk
    span_p = next(iter(plain_kinds))[1] if plain_kinds else f.span
    span_r = next(iter(rot_kinds))[1] if rot_kinds else f.span
    # both modes must exist at all (fail closed on a shape the rule does not recognise)
    if not pk or not rk:
        ctx.unrecognised('S13.1', 'insert_back_prioritized', 'modes', 'could not recognise both insertion modes (plain push: %s, rotation: %s)' % (pk, rk), span=f.span)
        return
    for k in sorted(arity):
        if arity[k] == 2:
            ctx.check(k not in pk, 'S13.1', 'plain-push:' + k, 'binary-as-operand',
                      'a %s node (takes its first argument from the left) must not be attachable by plain push into an operand position; today such input builds a tree (e.g. `+ 1 2`)' % k, span=span_p)
    for k in sorted(arity):
        if k == 'RootNode':
            ctx.check(k not in rk, 'S13.2', 'rotation:RootNode', 'group-adopts-operand',
                      'a parenthesis group must not adopt the previous operand as its child (juxtaposition `1 + 2()`, `-1()` would get a meaning)', span=span_r)
        elif arity[k] == 0:
            ctx.check(k not in rk, 'S13.2', 'rotation:' + k, 'leaf-adopts-operand', 'a leaf (%s) must not adopt the previous operand' % k, span=span_r)
    ctx.sample(dict(rule='S13.1/2', plain_push_kinds=pk, rotation_kinds=rk))


def s13_3(ctx, prog):
    try:
        t2o, f, place, dsp = tables.token_to_operator(prog)
    except tables.TableError as e:
        ctx.unrecognised('S13.3', 'token-match', 'shape', str(e))
        return
    # LBrace arm: exactly one root_node() pushed on root_stack, no operator node
    lb = t2o['LBrace']['blocks']
    calls = [(b, f.term(b)) for b in lb if f.term(b)['k'] == 'call']
    names = [short(t['callee']['def']).split('::')[-1] for _, t in calls]
    pushes = [t for _, t in calls if callee_matches(t, ['vec::Vec::<T, A>::push'])]
    okk = names.count('root_node') == 1 and len(pushes) == 1 and t2o['LBrace']['operators'] == []
    if okk:
        a0 = resolve_place(f, op_place(pushes[0]['args'][0]))
        okk = f.local_name(a0['l']) == 'root_stack'
    ctx.check(okk, 'S13.3', 'LBrace', 'lbrace', '`(` pushes exactly one RootNode onto root_stack and yields no operator node (calls: %s)' % names, span=f.span)
    # RBrace arm
    rb = set(t2o['RBrace']['blocks'])
    lens = [(b, f.term(b)) for b in rb if f.term(b)['k'] == 'call' and f.term(b)['callee']['name'] == 'len']
    pops = [(b, f.term(b)) for b in rb if callee_matches(f.term(b), ['vec::Vec::<T, A>::pop'])]
    colls = [(b, f.term(b)) for b in rb if callee_matches(f.term(b), ['tree::collapse_all_sequences'])]
    errs = []
    for b in rb:
        for st in f.stmts(b):
            if st['k'] == 'assign' and st['rv']['k'] == 'aggregate' and st['rv'].get('agg') == 'adt' and path_endswith(st['rv']['adt'], 'error::EvalexprError'):
                errs.append((b, st['rv']['vname']))
    good = len(lens) == 1 and len(pops) == 1 and len(colls) == 1 and [e[1] for e in errs] == ['UnmatchedRBrace']
    detail = 'len calls %d, pops %d, collapse calls %d, errors %s' % (len(lens), len(pops), len(colls), [e[1] for e in errs])
    if good:
        # comparison `len <= 1` (or `len < 2`, `len > 1` ...) decides between error and pop
        lb_, lt = lens[0]
        cmp_ok = False
        tgt = lt['target']
        for st in f.stmts(tgt):
            if st['k'] == 'assign' and st['rv']['k'] == 'binop' and st['rv']['op'] in ('Le', 'Lt', 'Gt', 'Ge'):
                opn = st['rv']['op']
                c = const_value(st['rv']['b'])
                sw = f.term(tgt)
                if sw['k'] == 'switch' and c is not None:
                    false_t = [tg for v, tg in sw['targets'] if v == 0][0]
                    true_t = sw['otherwise']
                    closed_when_true = (opn == 'Le' and c == 1) or (opn == 'Lt' and c == 2)
                    closed_when_false = (opn == 'Gt' and c == 1) or (opn == 'Ge' and c == 2)
                    if closed_when_true or closed_when_false:
                        err_edge = (tgt, true_t) if closed_when_true else (tgt, false_t)
                        ok_edge = (tgt, false_t) if closed_when_true else (tgt, true_t)
                        cmp_ok = f.edge_dominates(err_edge, errs[0][0]) and f.edge_dominates(ok_edge, pops[0][0]) and f.edge_dominates(ok_edge, colls[0][0])
        qm = question_mark(f, colls[0][0])
        cmp_ok = cmp_ok and qm is not None and f.edge_dominates((qm['switch'], qm['cont']), pops[0][0])
        good = cmp_ok
        detail += '; depth test / collapse-before-pop dominance %s' % cmp_ok
    ctx.check(good, 'S13.3', 'RBrace', 'rbrace', '`)` returns UnmatchedRBrace when no parenthesis level is open (root_stack.len() <= 1), otherwise collapses the level\'s sequences and pops exactly one node (%s)' % detail, span=f.span)
    # end of input: collapse_all_sequences?; len > 1 -> UnmatchedLBrace; pop -> Ok
    exit_block = None
    for b in f.live_blocks():
        sw = switch_on_discriminant(f, b)
        if sw is None:
            continue
        # the loop switch is on the Option returned by `token_iter.next().cloned()`
        for st in f.stmts(b):
            pass
        pl = sw[0]
        if is_local(pl):
            from mirlib import def_roots
            roots = def_roots(f, pl['l'])
            if any(r[1] == 'term' and r[2]['callee']['name'] == 'cloned' for r in roots) and len(sw[1]) == 1 and sw[1][0][0] == 1:
                # the Option feeding the `while let`
                cand = sw[2]
                # choose the one whose None edge reaches a return without passing the token match
                exit_block = cand if exit_block is None else exit_block
    if exit_block is None:
        ctx.unrecognised('S13.3', 'end-of-input', 'shape', 'loop exit of tokens_to_operator_tree not recognised', span=f.span)
        return
    it = Interp(prog, hook=opaque_hook())
    out = []
    it._run(f, exit_block, seed(f, {'root_stack'}), 0, out, (), {})
    shapes = set()
    for ret, eff in out:
        br = branches_of(eff)
        if is_adt(ret, 'result::Result', 'Err') and is_adt(ret[4][0], 'error::EvalexprError'):
            cond = [fmt(v) + '=' + fmt(t) for v, t in br if 'len' in fmt(v)]
            shapes.add(('Err', ret[4][0][3], tuple(cond)))
        elif is_adt(ret, 'result::Result', 'Err'):
            shapes.add(('Err', 'propagated:' + ('collapse_all_sequences' if 'collapse_all_sequences' in fmt(ret) else fmt(ret)), ()))
        elif is_adt(ret, 'result::Result', 'Ok'):
            shapes.add(('Ok', 'pop' if 'pop' in fmt(ret) else fmt(ret), ()))
        else:
            shapes.add(('?', fmt(ret), ()))
    kinds = sorted((s[0], s[1]) for s in shapes)
    want = [('Err', 'UnmatchedLBrace'), ('Err', 'UnmatchedRBrace'), ('Err', 'propagated:collapse_all_sequences'), ('Ok', 'pop')]
    lb_cond = [s[2] for s in shapes if s[1] == 'UnmatchedLBrace']
    cond_ok = bool(lb_cond) and all(any('binop:Gt(' in c and c.endswith('=$otherwise') and ', 1)' in c for c in cs) for cs in lb_cond)
    ctx.check(kinds == want and cond_ok, 'S13.3', 'end-of-input', 'end', 'at the end the remaining sequences are collapsed, more than one remaining level is UnmatchedLBrace, otherwise the single root is returned (outcomes %s, UnmatchedLBrace condition %s)' % (kinds, lb_cond), span=f.span)


def s13_4(ctx, prog, T):
    """every fixed-arity arm checks its own arity before anything else: interpreted with an argument list of every wrong length
    (0..3 except the operator's arity), each arm of Operator::eval / eval_mut ends in WrongOperatorArgumentAmount on every path and
    reaches no other outcome (helpers are followed, so it does not matter where the check is written)"""
    arity = T['max_argument_amount']
    op = prog.adt(tables.OPERATOR)
    for fname, kinds in (('eval', [k for k in arity if arity[k] is not None and k not in tables.ASSIGN and k != 'RootNode']), ('eval_mut', list(tables.ASSIGN))):
        f = prog.fn('operator::Operator::<NumericTypes>::' + fname)
        if f is None:
            ctx.unrecognised('S13.4', 'Operator::' + fname, 'missing', 'not found')
            continue
        n_checked = 0
        for k in kinds:
            v = [x for x in op['variants'] if x['name'] == k][0]
            selfv = ADT(op['path'], v['idx'], k, [SYM('f_' + fd['name']) for fd in v['fields']])
            want = arity[k]
            bad = []
            for n in range(0, 4):
                if n == want:
                    continue
                try:
                    ps = Interp(prog, max_depth=4).paths(f, [selfv, ('tuple', tuple(SYM('a%d' % i) for i in range(n))), SYM('context')])
                except Budget:
                    bad.append('%d arguments: too complex' % n)
                    continue
                for ret, eff in ps:
                    if not (is_adt(ret, 'result::Result', 'Err') and is_adt(ret[4][0], 'error::EvalexprError', 'WrongOperatorArgumentAmount')):
                        bad.append('%d arguments: %s' % (n, fmt(ret)[:80]))
                if not ps:
                    bad.append('%d arguments: no path' % n)
            n_checked += 1
            ctx.check(not bad, 'S13.4', '%s:%s' % (fname, k), 'arity-first', 'arm %s rejects every argument count other than %s with WrongOperatorArgumentAmount before any other outcome (%s)' % (k, want, '; '.join(bad[:3])), span=f.span)
        ctx.counters['arity_arms_' + fname] = n_checked
