"""Compile-pass / compile-fail witnesses: tiny crates compiled by plain `rustc +nightly --emit=metadata` against the
rmeta of /repo produced by the same extraction.  A failing witness must fail with the given error code AND mention the
expected trait/type, so a witness whose path is merely wrong cannot pass; every failing witness is paired with a compiling twin."""
import json
import os
import subprocess
import tempfile


def compile_witness(extraction, source, expect_ok=True, code=None, must_mention=None, edition='2021'):
    """returns (verdict_ok, message)"""
    d = tempfile.mkdtemp(prefix='evx-wit-', dir=extraction.dir)
    src = os.path.join(d, 'w.rs')
    with open(src, 'w') as fh:
        fh.write('#![allow(unused)]\n' + source)
    cmd = ['rustc', '+nightly', '--edition', edition, '--crate-type', 'lib', '--emit=metadata', '--error-format=json',
           '-o', os.path.join(d, 'libw.rmeta'), '--extern', 'evalexpr=' + extraction.rmeta, src]
    for ld in extraction.lib_dirs:
        cmd += ['-L', 'dependency=' + ld]
    for name, path in extraction.externs:
        cmd += ['--extern', '%s=%s' % (name, path)]
    r = subprocess.run(cmd, capture_output=True, text=True)
    diags = []
    for line in r.stderr.splitlines():
        try:
            m = json.loads(line)
        except ValueError:
            continue
        if m.get('level') == 'error':
            diags.append(((m.get('code') or {}).get('code'), m.get('message', ''), m.get('rendered', '')))
    if expect_ok:
        if r.returncode == 0:
            return True, 'compiles'
        return False, 'expected to compile, but: %s' % '; '.join('%s %s' % (c, msg) for c, msg, _ in diags[:3])
    if r.returncode == 0:
        return False, 'expected a compile error %s, but it compiles' % code
    codes = [c for c, _, _ in diags]
    if code is not None and code not in codes:
        return False, 'failed with %s instead of %s: %s' % (codes, code, '; '.join(msg for _, msg, _ in diags[:2]))
    if must_mention is not None and not any(must_mention in msg or must_mention in rend for c, msg, rend in diags if code is None or c == code):
        return False, 'failed with %s but the message does not mention `%s`: %s' % (code, must_mention, '; '.join(msg for _, msg, _ in diags[:2]))
    return True, 'rejected with %s mentioning `%s`' % (code, must_mention)
