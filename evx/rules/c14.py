"""C14 — identifier iterators (clause level).

R14.1 each of the 10 filter closures returns Some for exactly the variant set its method name states, and the
      yielded reference is that variant's `identifier` field;
R14.2 each _mut method selects the same set as its immutable twin; immutable ones traverse with Node::iter,
      mutable ones with iter_operators_mut, and apply filter_map directly (no other adaptor);
R14.3 NodeIter::next and OperatorIterMut::next agree: both satisfy the step invariant R14.5 (the mutable one yielding &mut node.operator);
R14.4 VariableIdentifierNotFound / FunctionIdentifierNotFound are built only from the identifier of the evaluated
      node / of the call.
Not decided: that the explicit-stack traversal is a pre-order of every tree shape."""
import re
from absint import Interp, ADT, SYM, C, UNK, NONE, fmt, Budget, is_adt, Stop
from mirlib import path_endswith, callee_matches
from rules.treepaths import is_true

EXPLANATION = ('closure tables: each iterator filter closure is abstractly evaluated for all 32 operator variants; expectation from the method name; '
               'sibling cross-check of the two traversals by lock-step CFG comparison; who-may-construct rule for the not-found errors. '
               'Decides the classification and the sibling agreement, not the traversal order')

WANT = {
    'iter_identifiers': {'VariableIdentifierWrite', 'VariableIdentifierRead', 'FunctionIdentifier'},
    'iter_variable_identifiers': {'VariableIdentifierWrite', 'VariableIdentifierRead'},
    'iter_read_variable_identifiers': {'VariableIdentifierRead'},
    'iter_write_variable_identifiers': {'VariableIdentifierWrite'},
    'iter_function_identifiers': {'FunctionIdentifier'},
}
OPERATOR = 'operator::Operator'


from mirlib import short


def run(ctx):
    prog = ctx.prog()
    ctx.trust('rustc nightly MIR of /repo; method-name -> variant-set table in rules/c14.py')
    ctx.assume('Iterator::filter_map (std) yields exactly the Some results of the closure, in traversal order')
    op = prog.adt(OPERATOR)
    node = prog.adt('tree::Node')
    selected = {}
    n = 0
    for base, want in WANT.items():
        for suffix in ('', '_mut'):
            name = base + suffix
            f = prog.fn('tree::Node::<NumericTypes>::' + name)
            if f is None:
                ctx.unrecognised('R14.1', name, 'missing', 'iterator method %s not found' % name)
                continue
            # the method returns a pipeline of per-item adaptors over the traversal: filter_map / filter / map with closures or function
            # items, in any number and order (std: each keeps the order of the items it lets through and treats items independently).
            # The pipeline is read off the returned iterator term; private helpers between the method and its adaptors are followed.
            def trav_hook(it, fn, t, args):
                c = t['callee']
                if c.get('local') and c['name'] in ('iter', 'iter_operators_mut', 'new') and 'tree::iter' in c['def']:
                    return ('app', short(c['def']), tuple(args))
                return None
            try:
                rps = Interp(prog, hook=trav_hook).paths(f, [SYM('self')])
            except Budget:
                rps = []
            if len(rps) != 1:
                ctx.unrecognised('R14.1', name, 'closures', 'expected the method to build one iterator on a single path, found %d paths' % len(rps), span=f.span)
                continue
            src = rps[0][0]
            stages = []
            while src[0] == 'app' and src[1].split('#')[0].split('::')[-1] in ('filter_map', 'filter', 'map') and 'iter::Iterator' in src[1] and len(src[2]) == 2 and src[2][1][0] in ('closure', 'fn'):
                stages.insert(0, (src[1].split('#')[0].split('::')[-1], src[2][1]))
                src = src[2][0]
            if not any(k_ in ('filter_map', 'filter') for k_, _ in stages):
                ctx.unrecognised('R14.1', name, 'closures', 'expected a filter_map / filter pipeline over the traversal, found %s' % fmt(rps[0][0])[:160], span=f.span)
                continue
            n += 1
            c = prog.by_path.get(stages[0][1][1]) or f
            takes_node = not (src[0] == 'app' and src[1].endswith('iter_operators_mut'))
            got = set()
            bad = False
            for v in op['variants']:
                fields = [SYM('%s.%s' % (v['name'], fd['name'])) for fd in v['fields']]
                opv = ADT(op['path'], v['idx'], v['name'], fields)
                item = ADT(node['path'], 0, 'Node', [opv, SYM('children')]) if takes_node else opv
                it = Interp(prog)
                dropped = False
                for kind_, fn_ in stages:
                    try:
                        res = it.apply_callable(fn_, [item], 0)
                    except Budget:
                        res = None
                    if res is None:
                        ctx.unrecognised('R14.1', name, 'budget', '%s stage too complex' % kind_, span=c.span)
                        bad = True
                        break
                    paths = res[1] if (isinstance(res, tuple) and res and res[0] == 'paths') else [(res, ())]
                    if len(paths) != 1:
                        ctx.violation('R14.1', name, 'value-dependent:' + v['name'], 'the %s stage branches on more than the operator kind for %s (%d paths)' % (kind_, v['name'], len(paths)), span=c.span)
                        bad = True
                        break
                    ret = paths[0][0]
                    if kind_ == 'map':
                        item = ret
                    elif kind_ == 'filter_map':
                        if is_adt(ret, 'option::Option', 'None'):
                            dropped = True
                            break
                        if not is_adt(ret, 'option::Option', 'Some'):
                            ctx.unrecognised('R14.1', name, 'result:' + v['name'], 'closure result %s is neither Some nor None' % fmt(ret), span=c.span)
                            bad = True
                            break
                        item = ret[4][0]
                    else:
                        if ret[0] != 'c' or not isinstance(ret[1], (bool, int)):
                            ctx.unrecognised('R14.1', name, 'result:' + v['name'], 'filter predicate %s is not decided by the operator kind' % fmt(ret), span=c.span)
                            bad = True
                            break
                        if not ret[1]:
                            dropped = True
                            break
                if bad:
                    break
                if dropped:
                    continue
                got.add(v['name'])
                ident = SYM('%s.identifier' % v['name'])
                good = item == ident or (item[0] == 'app' and item[1].endswith('as_str') and item[2] == (ident,))
                if not good:
                    ctx.violation('R14.1', name, 'payload:' + v['name'], 'yields %s instead of the identifier field of %s' % (fmt(item), v['name']), span=c.span)
                    bad = True
            selected[name] = got
            if not bad:
                ctx.check(got == want, 'R14.1', name, 'variant-set', '%s selects exactly %s (found %s)' % (name, sorted(want), sorted(got)), span=c.span)
                ctx.sample(dict(rule='R14.1', method=name, selects=sorted(got)))
            # R14.2 traversal + adaptor
            want_trav = 'tree::iter::<impl tree::Node>::iter_operators_mut' if suffix else 'tree::iter::<impl tree::Node>::iter'
            trav_ok = src[0] == 'app' and src[1] == want_trav and src[2] == (SYM('self'),)
            ctx.check(trav_ok, 'R14.2', name + ':traversal', 'traversal', '%s filters the traversal %s(self) directly (found %s)' % (name, want_trav, fmt(src)[:120]), span=f.span)
            # nothing else is stacked into the pipeline: the method (and a private helper it may go through) makes no other non-local call
            chain = [f] + [g for g in prog.fns if g.kind != 'Closure' and any(t_['callee'].get('local') and short(t_['callee']['def']) == short(g.path) for _b, t_ in f.calls()) and 'tree::iter' not in g.path]
            std_calls = sorted(t_['callee']['name'] for g in dict((g_.path, g_) for g_ in chain).values() for _b, t_ in g.calls() if not t_['callee'].get('local'))
            ctx.check(std_calls == sorted(k_ for k_, _ in stages), 'R14.2', name + ':adaptor', 'adaptor', 'the only iterator adaptors are the per-item ones of the pipeline %s (found %s)' % ([k_ for k_, _ in stages], std_calls), span=f.span)
    ctx.floor('R14.1', 'iterator_filters', n, 10)
    for base in WANT:
        if base in selected and base + '_mut' in selected:
            ctx.check(selected[base] == selected[base + '_mut'], 'R14.2', base + ':pair', 'pair', 'mutable twin selects the same variants (%s vs %s)' % (sorted(selected[base]), sorted(selected[base + '_mut'])))

    # R14.3 sibling traversals: both must satisfy the same step invariant (R14.5, which also fixes the projection the mutable twin
    # yields). The earlier lock-step CFG comparison of the two `next` bodies was removed: it raised an alarm whenever only one of the
    # two was restyled although both still implemented the same walk.
    # R14.5 loop invariant of the explicit-stack traversal
    r14_5(ctx, prog)
    # R14.4 who may construct the not-found errors, and from what
    r14_4(ctx, prog)
    # R14.6 the iterators walk the tree, and the property speaks about the identifiers of the expression: every word of the source must
    # have reached the tree builder as its own token, and nothing after it may have been swallowed. That is the second tokenizer
    # stage's "a word consumes itself, plus the sign and the following word exactly when they were joined into one number" (C06
    # R6.3/R6.5, decided on all continuations of a word), reported here as well.
    from rules import toksem
    from rules.c05 import _Renamed
    toksem.check_words(_Renamed(ctx, 'R14.6'), prog)
    # R14.7 renaming is sound only if evaluation treats identifiers as opaque names: no assignment arm lets its outcome depend on the
    # text of the target (the C04 R4.4 case analysis with a symbolic target name: one outcome per case, the name only handed to the context)
    from rules.c04 import r44
    r44(_Renamed(ctx, 'R14.7'), prog)
    # R14.8 which identifier occurrences are functions is decided at parse time by the token that follows; the C09 R9.5 classification
    # (decided against the specification: a function in front of `(`, a literal of any type or another identifier, a variable
    # otherwise) is reported here too - an occurrence classified differently is listed by the wrong iterator or not at all
    from rules.c09 import r95
    r95(_Renamed(ctx, 'R14.8'), prog)


def r14_5(ctx, prog):
    """One iteration of `next()` has exactly three shapes, which together are the inductive step of a pre-order walk:
    (a) empty stack => None, and None is returned in no other case;
    (b) the top iterator yields a node n => n's children iterator is pushed on top and Some(n) is returned (so n's descendants
        come next, before n's siblings);
    (c) the top iterator is exhausted => it is popped and the loop continues with the parent's iterator.
    The constructor starts the stack with the children iterator of the root. The traversal type is read off the public entry point
    (`Node::iter` / `Node::iter_operators_mut` construct it from self), so it may be a type of its own or an instantiation of a
    generic traversal shared by both walks; a generic one is interpreted at the instantiation the entry point constructs."""
    from absint import NONE as N_, has_subterm
    for entry_name, proj, tyname in (('iter', None, 'NodeIter'), ('iter_operators_mut', 'operator', 'OperatorIterMut')):
        g = [f for f in prog.fns if f.name == entry_name and 'tree::iter' in f.path and f.kind == 'AssocFn']
        if len(g) != 1:
            ctx.unrecognised('R14.5', 'Node::' + entry_name, 'missing', 'not found')
            continue
        captured = []

        def hook(it, fn, t, args, captured=captured, g=g):
            c = t['callee']
            tgt = prog.by_path.get(c['def']) if c.get('local') else None
            if tgt is not None and tgt.kind == 'AssocFn' and tgt is not g[0] and tgt.j.get('impl_self_ty') and not captured:
                captured.append((c, tgt, it._callee_tyenv(c, tgt)))
                return ('app', short(c['def']), tuple(args))
            return None
        ps = Interp(prog, hook=hook).paths(g[0], [SYM('self')])
        good = len(ps) == 1 and len(captured) == 1 and ps[0][0] == ('app', short(captured[0][0]['def']), (SYM('self'),))
        ctx.check(good, 'R14.5', 'Node::' + entry_name, 'entry', 'Node::%s constructs its traversal from self, and returns it as it is (found %s)' % (entry_name, [fmt(p_[0])[:100] for p_ in ps]), span=g[0].span)
        if not good:
            continue
        c0, ctor, tenv = captured[0]
        sty = ctor.j.get('impl_self_ty')
        probe = Interp(prog)
        probe.tyenv.append(tenv)
        concrete = probe._subst_ty(sty)
        fs = [f for f in prog.fns if f.name == 'next' and path_endswith(f.j.get('impl_trait') or '', 'iter::Iterator') and f.j.get('impl_self_ty')
              and probe._unify_ty(f.j['impl_self_ty'], concrete, f.j.get('generics') or []) is not None]
        if len(fs) != 1:
            ctx.unrecognised('R14.5', tyname + '::next', 'missing', 'the Iterator impl of the traversal type %s was not found' % sty)
            continue
        f = fs[0]
        # R14.9 the traversal is `next` and nothing else: std derives every other Iterator method (fold, for_each, last, nth, count,
        # collect ..) from `next`, so the order R14.5 decides for `next` is the order of all of them - unless the impl overrides one
        # (a hand-written `fold` that walks the saved stack levels in another order). `size_hint` is only a capacity hint.
        others = sorted({g.name for g in prog.fns if g.name and g.kind != 'Closure' and path_endswith(g.j.get('impl_trait') or '', 'iter::Iterator')
                         and g.j.get('impl_self_ty') == f.j.get('impl_self_ty') and g.name not in ('next', 'size_hint')})
        if others:
            ctx.unrecognised('R14.9', tyname + ':Iterator', 'overrides', 'the Iterator impl of the traversal type overrides %s besides `next`: consumers built on them do not go through the step R14.5 analysed, and their order is not decided' % others, span=f.span)
        else:
            ctx.ok('R14.9', tyname + ':Iterator', 'the Iterator impl of the traversal type defines `next` (and at most `size_hint`): every consumer is derived from it', span=f.span)
        try:
            it = Interp(prog, loop_bound=0, record_backedge=True)
            it.tyenv.append(probe._unify_ty(f.j['impl_self_ty'], concrete, f.j.get('generics') or []) or {})
            ps = it.paths(f, [SYM('self')])
        except Budget:
            ctx.unrecognised('R14.5', tyname + '::next', 'budget', 'too complex', span=f.span)
            continue
        # the explicit stack: the one vector of the iterator whose top is inspected (a field of self, possibly of an inner traversal struct)
        stacks = {v[2][0][2][0] for _r, eff_ in ps for e in eff_ if e[0] == '<branch>' for v in [e[2][0]]
                  if v[0] == 'app' and v[1] == 'discriminant' and v[2][0][0] == 'app' and 'last_mut' in v[2][0][1] and len(v[2][0][2]) == 1 and has_subterm(v[2][0][2][0], SYM('self'))}
        if len(stacks) != 1:
            ctx.unrecognised('R14.5', tyname + '::next', 'stack', 'expected one explicit stack whose top is inspected, found %s' % sorted(fmt(x) for x in stacks), span=f.span)
            continue
        stack = stacks.pop()
        shapes = {'none': 0, 'yield': 0, 'pop': 0}
        bad = []
        for ret, eff in ps:
            calls = [(e[0].split('::')[-1], e[2]) for e in eff if not e[0].startswith('<')]
            br = [(e[2][0], e[2][1]) for e in eff if e[0] == '<branch>']
            top = [v for v, t in br if v[0] == 'app' and v[1] == 'discriminant' and v[2][0][0] == 'app' and 'last_mut' in v[2][0][1] and v[2][0][2] == (stack,)]
            top_some = [t for v, t in br if v in top]
            inner = [(v, t) for v, t in br if v[0] == 'app' and v[1] == 'discriminant' and v[2][0][0] == 'app' and '::next#' in v[2][0][1]]
            pushes = [a for nm, a in calls if nm == 'push' and a and a[0] == stack]
            pops = [a for nm, a in calls if nm == 'pop' and a and a[0] == stack]
            if ret == N_:
                if top_some and all(t_ in (SYM('otherwise'), C(0)) for t_ in top_some) and not pushes and not pops and not inner:
                    shapes['none'] += 1
                else:
                    bad.append('None is returned although the stack is not known to be empty (branches %s)' % [(fmt(v)[:60], fmt(t)) for v, t in br])
            elif ret[0] == 'backedge':
                if top_some and all(t_ == C(1) for t_ in top_some) and len(inner) == 1 and inner[0][1] != C(1) and len(pops) == 1 and not pushes:
                    shapes['pop'] += 1
                else:
                    bad.append('the loop continues without popping exactly the exhausted iterator (pops %d, pushes %d)' % (len(pops), len(pushes)))
            elif is_adt(ret, 'option::Option', 'Some'):
                okk = bool(top_some) and all(t_ == C(1) for t_ in top_some) and len(inner) == 1 and inner[0][1] == C(1) and len(pushes) <= 1 and not pops
                if okk:
                    n = ('proj', inner[0][0][2][0], ('as Some', '0'))
                    want_ret = n if proj is None else ('proj', n[1], n[2] + (proj,))
                    children = ('proj', n[1], n[2] + ('children',))
                    if pushes:
                        pushed = pushes[0][1]
                        okk = ret[4][0] == want_ret and pushed[0] == 'app' and pushed[1].split('::')[-1].split('#')[0] in ('iter', 'iter_mut') and pushed[2] == (children,)
                        # the iterator is pushed as it was made: nothing else receives it (an `it.next()` before the push skips a child)
                        okk = okk and not any(nm != 'push' and any(isinstance(x_, tuple) and has_subterm(x_, pushed) for x_ in a_) for nm, a_ in calls)
                    else:
                        # nothing is pushed for a node the path has shown to have no children (an iterator over an empty list would be
                        # popped again at the next step without yielding anything)
                        def no_children(v, t):
                            if v[0] == 'app' and v[1].split('::')[-1].split('#')[0] == 'is_empty' and v[2] == (children,):
                                return is_true(t)
                            if v[0] == 'app' and v[1] in ('binop:Eq', 'binop:Ne') and any(x_[0] == 'app' and x_[1].split('::')[-1].split('#')[0] == 'len' and x_[2] == (children,) for x_ in v[2]) and C(0) in v[2]:
                                return is_true(t) if v[1] == 'binop:Eq' else t == C(0)
                            return False
                        okk = ret[4][0] == want_ret and any(no_children(v, t) for v, t in br)
                    # the yielded node comes from the iterator on top of the stack
                    okk = okk and inner[0][0][2][0][2] == (('proj', top[0][2][0], ('as Some', '0')),)
                if okk:
                    shapes['yield'] += 1
                else:
                    bad.append('a node is yielded without pushing exactly its own children iterator (returns %s, pushes %s)' % (fmt(ret)[:80], [fmt(a[1])[:80] for a in pushes]))
            else:
                bad.append('unexpected outcome %s' % fmt(ret)[:80])
        good = not bad and shapes['none'] >= 1 and shapes['yield'] >= 1 and shapes['pop'] >= 1
        ctx.check(good, 'R14.5', tyname + '::next', 'traversal-step', 'one step of the traversal is: empty stack => None; top yields n => push n.children, return n; top exhausted => pop and continue (shapes %s; problems %s)' % (shapes, bad[:2]), span=f.span)
        it = Interp(prog)
        it.tyenv.append(tenv)
        ps = it.paths(ctor, [SYM('node')])
        effs = [e for p_ in ps for e in p_[1]]
        arrays = [e[2][-1] for e in effs if e[0] in ('<store>', '<store-field>') and e[2][-1][0] == 'tuple']
        want = ('proj', SYM('node'), ('children',))
        good = len(ps) == 1 and len(arrays) == 1 and len(arrays[0][1]) == 1 and arrays[0][1][0][0] == 'app' and arrays[0][1][0][1].split('::')[-1].split('#')[0] in ('iter', 'iter_mut') and arrays[0][1][0][2] == (want,)
        ctx.check(good, 'R14.5', tyname + '::new', 'initial-stack', 'the traversal starts with exactly the children iterator of the root on the stack (found %s)' % [fmt(a)[:100] for a in arrays], span=ctor.span)


def cfg_iso_mod_projection(f1, f2, norm):
    from mirlib import cfg_isomorphic
    ok, info = cfg_isomorphic(f1, f2, norm, ignore_stmt=True)
    if not ok:
        return ok, info
    # statement skeletons: multiset of rvalue kinds may differ only by `ref` statements
    def skel(f):
        out = []
        for b in f.blocks:
            if b['cleanup']:
                continue
            for s in b['stmts']:
                if s['k'] == 'assign' and s['rv']['k'] not in ('ref', 'use'):
                    r = s['rv']
                    out.append((r['k'], norm(r.get('adt') or ''), r.get('vname'), r.get('op')))
        return sorted(map(str, out))
    if skel(f1) != skel(f2):
        return False, 'statement skeletons differ: %s vs %s' % (skel(f1), skel(f2))
    return True, '%d corresponding blocks' % info


def r14_4(ctx, prog):
    err = prog.adt('error::EvalexprError')
    sites = []
    for f in prog.fns:
        for blk in f.blocks:
            if blk['cleanup']:
                continue
            for st in blk['stmts']:
                if st['k'] == 'assign' and st['rv']['k'] == 'aggregate' and st['rv'].get('agg') == 'adt' and path_endswith(st['rv']['adt'], 'error::EvalexprError') and st['rv']['vname'] in ('VariableIdentifierNotFound', 'FunctionIdentifierNotFound'):
                    sites.append((f, blk['id'], st))
    ctx.floor('R14.4', 'not_found_construction_sites', len(sites), 3)
    op = prog.adt(OPERATOR)
    # a crate-private helper that builds the error from one of its own parameters is not itself a reporting site: its call sites are
    roots = ('operator::Operator::eval', 'operator::Operator::eval_mut')

    def is_reporter(f):
        return short(f.path) in roots or (f.name == 'call_function' and path_endswith(f.j.get('impl_trait') or '', 'context::Context')) or f.j.get('derived')
    def owner(f):
        """a closure's construction site belongs to the function it is written in"""
        n_ = 0
        while f.kind == 'Closure' and n_ < 4:
            par = prog.by_path.get(f.j.get('parent'))
            if par is None:
                break
            f = par
            n_ += 1
        return f
    work = [(owner(f), b if owner(f) is f else 0, st['rv']['vname'], st.get('span'), 0) for f, b, st in sites]
    final = []
    seen_helpers = set()
    while work:
        f, b, vn, sp, depth = work.pop()
        if is_reporter(f) or depth >= 3 or f.kind == 'Closure' or not str(f.j.get('vis') or '').startswith('Restricted'):
            final.append((f, b, vn, sp))
            continue
        key = (f.path, vn)
        if key in seen_helpers:
            continue
        seen_helpers.add(key)
        nparams = f.j.get('arg_count') or 0
        try:
            paths = Interp(prog, max_depth=2).paths(f, [SYM('p%d' % i) for i in range(nparams)])
        except Budget:
            final.append((f, b, vn, sp))
            continue
        payloads = [e[4] for ret, _ in paths for e in find_adts(ret, vn)]
        params = {(SYM('p%d' % i),) for i in range(nparams)} | {(('proj', SYM('p%d' % i), ('identifier',)),) for i in range(nparams)}
        if not payloads or not all(pl in params for pl in payloads):
            final.append((f, b, vn, sp))
            continue
        callers = [(g, cb, t) for g in prog.fns for cb, t in g.calls() if t['callee'].get('local') and short(t['callee']['def']) == short(f.path)]
        ctx.ok('R14.4', '%s:%s:helper' % (short(f.path), vn), 'private helper that builds %s from its own parameter; its %d call site(s) are checked instead' % (vn, len(callers)), span=sp)
        for g, cb, t in callers:
            og = owner(g)
            work.append((og, cb if og is g else 0, vn, t.get('span'), depth + 1))
    # every remaining reporting site is attributed to a root: a dispatcher (Operator::eval / eval_mut, directly or through crate-private
    # functions called only from it), a Context::call_function implementation, or a derived impl. The roots are then decided by
    # interpreting them, so the arm a site sits in, or the helper it was moved to, does not matter.
    from rules.common import terminal_call_sites
    import tables
    todo = {}
    seen_sites = set()
    for f, b, vn, sp in final:
        if (f.path, b, vn) in seen_sites:
            continue
        seen_sites.add((f.path, b, vn))
        inst = '%s:%s' % (short(f.path), vn)
        if f.j.get('derived'):
            ctx.ok('R14.4', inst + ':derived', 'derived %s impl copies an existing error' % short(f.j.get('impl_trait') or ''), span=sp)
            continue
        root = f
        if not is_reporter(f) and short(f.path).startswith(('value::', 'error::expect_')):
            ctx.violation('R14.4', inst, 'foreign-site', '%s constructed in %s, which the dispatcher analysis treats as opaque' % (vn, short(f.path)), span=sp)
            continue
        if not is_reporter(f):
            me = short(f.path)
            ups = sorted({a for a, _ in terminal_call_sites(prog, lambda c, me=me: c.get('local') and short(c.get('def') or '') == me, roots=set(roots))})
            cands = [g for g in prog.fns if short(g.path) in ups]
            if len(ups) == 1 and len(cands) == 1 and is_reporter(cands[0]):
                root = cands[0]
                ctx.ok('R14.4', inst + ':helper', 'reached only from %s; decided there' % ups[0], span=sp)
            else:
                ctx.violation('R14.4', inst, 'foreign-site', '%s constructed outside Operator::eval / eval_mut / Context::call_function (reached from %s)' % (vn, ups), span=sp)
                continue
        todo.setdefault((root.path, vn), (root, sp))
    for (_rp, vn), (f, sp) in sorted(todo.items()):
        inst = '%s:%s' % (short(f.path), vn)
        if short(f.path) == 'operator::Operator::eval':
            want_variant = 'VariableIdentifierRead' if vn == 'VariableIdentifierNotFound' else 'FunctionIdentifier'

            def hook(it, fn, t, args):
                c = t['callee']
                if c.get('trait') and path_endswith(c['trait'], 'context::Context'):
                    return ('app', 'Context::' + c['name'], tuple(args))
                if c.get('local') and c['name'] == 'builtin_function':
                    return ('app', 'builtin_function', tuple(args))
                if c.get('local') and (short(c['def']).startswith('value::') or short(c['def']).startswith('error::expect_')):
                    # accessors and type guards of Value build no not-found error: opaque, so that the arithmetic arms stay small
                    return ('app', short(c['def']), tuple(args))
                return None
            okk, found = True, 0
            for v in op['variants']:
                fields = [SYM('%s.%s' % (v['name'], fd['name'])) for fd in v['fields']]
                selfv = ADT(op['path'], v['idx'], v['name'], fields)
                try:
                    paths = Interp(prog, hook=hook, max_depth=3).paths(f, [selfv, SYM('arguments'), SYM('context')])
                except Budget:
                    ctx.unrecognised('R14.4', inst, 'budget', 'Operator::eval arm too complex for %s' % v['name'], span=sp)
                    okk = False
                    break
                for ret, _eff in paths:
                    for e in find_adts(ret, vn):
                        found += 1
                        if v['name'] != want_variant or e[4] != (SYM('%s.identifier' % want_variant),):
                            ctx.violation('R14.4', inst, 'payload', '%s built while evaluating %s with payload %s (must be the identifier of a %s node)' % (vn, v['name'], fmt(e), want_variant), span=sp)
                            okk = False
            if okk:
                ctx.check(found > 0, 'R14.4', inst, 'unreached', '%s is returned only for its own node kind, carrying that node\'s identifier' % vn, span=sp)
        elif short(f.path) == 'operator::Operator::eval_mut' and vn == 'VariableIdentifierNotFound':
            # an assignment arm reporting a missing variable: the name must be the assignment target, i.e. the string the left child
            # (a VariableIdentifierWrite node, listed by the iterators) evaluated to; no other variant may report one by itself
            val = prog.adt(tables.VALUE)
            sv = [x for x in val['variants'] if x['name'] == 'String'][0]
            arguments = ('tuple', (ADT(val['path'], sv['idx'], 'String', [SYM('target')]), SYM('rhs')))

            def hook2(it, fn, t, args):
                c = t['callee']
                if c.get('trait') and path_endswith(c['trait'], 'context::Context') and c['name'] == 'get_value':
                    return NONE
                if c.get('trait') and 'context::' in c['trait']:
                    return ('app', 'Context::' + c['name'], tuple(args))
                if c.get('local') and c['name'] == 'eval' and 'Operator' in c['def'] and not (args and args[0][0] == 'adt' and args[0][3] == 'VariableIdentifierRead'):
                    return ('app', 'Operator::eval', tuple(args))
                return None
            okk, cnt = True, 0
            for v in op['variants']:
                is_opassign = v['name'] in tables.ASSIGN and v['name'] != 'Assign'
                selfv = ADT(op['path'], v['idx'], v['name'], [SYM('%s.%s' % (v['name'], fd['name'])) for fd in v['fields']])
                try:
                    paths = Interp(prog, hook=hook2, max_depth=3).paths(f, [selfv, arguments, SYM('context')])
                except Budget:
                    okk = False
                    break
                for ret, _ in paths:
                    for e in find_adts(ret, vn):
                        cnt += 1
                        okk = okk and is_opassign and e[4] == (SYM('target'),)
            ctx.check(okk and cnt > 0, 'R14.4', inst, 'payload', 'an assignment arm reports a missing variable only under the name of its assignment target (the left child\'s identifier)', span=sp)
        elif f.name == 'call_function' and path_endswith(f.j.get('impl_trait') or '', 'context::Context') and vn == 'FunctionIdentifierNotFound':
            paths = Interp(prog).paths(f, [SYM('self'), SYM('identifier'), SYM('argument')])
            okk, cnt = True, 0
            for ret, _ in paths:
                for e in find_adts(ret, vn):
                    cnt += 1
                    if e[4] != (SYM('identifier'),):
                        okk = False
            ctx.check(okk and cnt > 0, 'R14.4', inst + ':' + short(f.j.get('impl_self_ty') or ''), 'payload', 'call_function reports exactly the identifier it was asked for', span=sp)
        else:
            ctx.violation('R14.4', inst, 'foreign-site', '%s constructed outside Operator::eval / eval_mut / Context::call_function' % vn, span=sp)


def find_adts(v, vname):
    out = []
    if v[0] == 'adt':
        if v[3] == vname:
            out.append(v)
        for x in v[4]:
            out.extend(find_adts(x, vname))
    elif v[0] == 'tuple':
        for x in v[1]:
            out.extend(find_adts(x, vname))
    elif v[0] in ('app',):
        for x in v[2]:
            out.extend(find_adts(x, vname))
    return out
