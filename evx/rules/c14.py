"""C14 — identifier iterators (clause level).

R14.1 each of the 10 filter closures returns Some for exactly the variant set its method name states, and the
      yielded reference is that variant's `identifier` field;
R14.2 each _mut method selects the same set as its immutable twin; immutable ones traverse with Node::iter,
      mutable ones with iter_operators_mut, and apply filter_map directly (no other adaptor);
R14.3 NodeIter::next and OperatorIterMut::next are structurally identical up to iter/iter_mut and the projection;
R14.4 VariableIdentifierNotFound / FunctionIdentifierNotFound are built only from the identifier of the evaluated
      node / of the call.
Not decided: that the explicit-stack traversal is a pre-order of every tree shape."""
import re
from absint import Interp, ADT, SYM, UNK, NONE, fmt, Budget, is_adt
from mirlib import path_endswith, callee_matches

EXPLANATION = ('closure tables: each iterator filter closure is abstractly evaluated for all 32 operator variants; expectation from the method name; '
               'sibling cross-check of the two traversals by lock-step CFG comparison; who-may-construct rule for the not-found errors. '
               'Decides the classification and the sibling agreement, not the traversal order')

WANT = {
    'iter_identifiers': {'VariableIdentifierWrite', 'VariableIdentifierRead', 'FunctionIdentifier'},
    'iter_variable_identifiers': {'VariableIdentifierWrite', 'VariableIdentifierRead'},
    'iter_read_variable_identifiers': {'VariableIdentifierRead'},
    'iter_write_variable_identifiers': {'VariableIdentifierWrite'},
    'iter_function_identifiers': {'FunctionIdentifier'},
}
OPERATOR = 'operator::Operator'


from mirlib import short


def run(ctx):
    prog = ctx.prog()
    ctx.trust('rustc nightly MIR of /repo; method-name -> variant-set table in rules/c14.py')
    ctx.assume('Iterator::filter_map (std) yields exactly the Some results of the closure, in traversal order')
    op = prog.adt(OPERATOR)
    node = prog.adt('tree::Node')
    selected = {}
    n = 0
    for base, want in WANT.items():
        for suffix in ('', '_mut'):
            name = base + suffix
            f = prog.fn('tree::Node::<NumericTypes>::' + name)
            if f is None:
                ctx.unrecognised('R14.1', name, 'missing', 'iterator method %s not found' % name)
                continue
            cl = prog.closures_of(f.path)
            if len(cl) != 1:
                ctx.unrecognised('R14.1', name, 'closures', 'expected exactly one filter closure, found %d' % len(cl), span=f.span)
                continue
            n += 1
            c = cl[0]
            param_ty = c.locals[2]['ty']
            takes_node = 'tree::Node' in param_ty
            got = set()
            bad = False
            for v in op['variants']:
                fields = [SYM('%s.%s' % (v['name'], fd['name'])) for fd in v['fields']]
                opv = ADT(op['path'], v['idx'], v['name'], fields)
                arg = ADT(node['path'], 0, 'Node', [opv, SYM('children')]) if takes_node else opv
                it = Interp(prog)
                try:
                    paths = it.paths(c, [UNK, arg])
                except Budget:
                    ctx.unrecognised('R14.1', name, 'budget', 'closure too complex', span=c.span)
                    bad = True
                    break
                if len(paths) != 1:
                    ctx.violation('R14.1', name, 'value-dependent:' + v['name'], 'filter closure branches on more than the operator kind for %s (%d paths)' % (v['name'], len(paths)), span=c.span)
                    bad = True
                    continue
                ret = paths[0][0]
                if is_adt(ret, 'option::Option', 'None'):
                    continue
                if is_adt(ret, 'option::Option', 'Some'):
                    got.add(v['name'])
                    payload = ret[4][0]
                    ident = SYM('%s.identifier' % v['name'])
                    good = payload == ident or (payload[0] == 'app' and payload[1].endswith('as_str') and payload[2] == (ident,))
                    if not good:
                        ctx.violation('R14.1', name, 'payload:' + v['name'], 'yields %s instead of the identifier field of %s' % (fmt(payload), v['name']), span=c.span)
                        bad = True
                else:
                    ctx.unrecognised('R14.1', name, 'result:' + v['name'], 'closure result %s is neither Some nor None' % fmt(ret), span=c.span)
                    bad = True
            selected[name] = got
            if not bad:
                ctx.check(got == want, 'R14.1', name, 'variant-set', '%s selects exactly %s (found %s)' % (name, sorted(want), sorted(got)), span=c.span)
                ctx.sample(dict(rule='R14.1', method=name, selects=sorted(got)))
            # R14.2 traversal + adaptor
            local_calls = [short(t['callee']['def']) for _, t in f.calls() if t['callee'].get('local')]
            std_calls = [t['callee']['name'] for _, t in f.calls() if not t['callee'].get('local')]
            want_trav = 'tree::iter::<impl tree::Node>::iter_operators_mut' if suffix else 'tree::iter::<impl tree::Node>::iter'
            ctx.check(local_calls == [want_trav], 'R14.2', name + ':traversal', 'traversal', '%s traverses with %s (found %s)' % (name, want_trav, local_calls), span=f.span)
            ctx.check(std_calls == ['filter_map'], 'R14.2', name + ':adaptor', 'adaptor', 'the only iterator adaptor is filter_map (found %s)' % std_calls, span=f.span)
    ctx.floor('R14.1', 'iterator_filters', n, 10)
    for base in WANT:
        if base in selected and base + '_mut' in selected:
            ctx.check(selected[base] == selected[base + '_mut'], 'R14.2', base + ':pair', 'pair', 'mutable twin selects the same variants (%s vs %s)' % (sorted(selected[base]), sorted(selected[base + '_mut'])))

    # R14.3 sibling traversals
    f1 = [f for f in prog.fns if f.name == 'next' and 'NodeIter' in (f.j.get('impl_self_ty') or '')]
    f2 = [f for f in prog.fns if f.name == 'next' and 'OperatorIterMut' in (f.j.get('impl_self_ty') or '')]
    if len(f1) != 1 or len(f2) != 1:
        ctx.unrecognised('R14.3', 'next-pair', 'missing', 'NodeIter::next / OperatorIterMut::next not found')
    else:
        def norm(s):
            s = short(s)
            s = s.replace('OperatorIterMut', 'NodeIter').replace('IterMut', 'Iter').replace('iter_mut', 'iter').replace('DerefMut', 'Deref').replace('deref_mut', 'deref')
            s = re.sub(r"<'[a-z_]+(, )?", '<', s)
            return s
        # the mutable twin ends with one extra projection (&mut result.operator); statements are compared modulo that
        ok, info = cfg_iso_mod_projection(f1[0], f2[0], norm)
        ctx.check(ok, 'R14.3', 'NodeIter::next~OperatorIterMut::next', 'sibling', 'the two traversals are structurally identical up to iter/iter_mut and the returned projection (%s)' % (info,), span=f2[0].span)
        # the projection of the mutable twin is the node's `operator` field
        proj_ok = False
        for blk in f2[0].blocks:
            for st in blk['stmts']:
                if st['k'] == 'assign' and st['rv']['k'] == 'ref' and st['rv']['mut']:
                    p = st['rv']['pl']['p']
                    if p and isinstance(p[-1], dict) and p[-1].get('name') == 'operator':
                        proj_ok = True
        ctx.check(proj_ok, 'R14.3', 'OperatorIterMut::next:projection', 'projection', 'the mutable traversal yields `&mut node.operator` of the visited node', span=f2[0].span)

    # R14.4 who may construct the not-found errors, and from what
    r14_4(ctx, prog)


def cfg_iso_mod_projection(f1, f2, norm):
    from mirlib import cfg_isomorphic
    ok, info = cfg_isomorphic(f1, f2, norm, ignore_stmt=True)
    if not ok:
        return ok, info
    # statement skeletons: multiset of rvalue kinds may differ only by `ref` statements
    def skel(f):
        out = []
        for b in f.blocks:
            if b['cleanup']:
                continue
            for s in b['stmts']:
                if s['k'] == 'assign' and s['rv']['k'] not in ('ref', 'use'):
                    r = s['rv']
                    out.append((r['k'], norm(r.get('adt') or ''), r.get('vname'), r.get('op')))
        return sorted(map(str, out))
    if skel(f1) != skel(f2):
        return False, 'statement skeletons differ: %s vs %s' % (skel(f1), skel(f2))
    return True, '%d corresponding blocks' % info


def r14_4(ctx, prog):
    err = prog.adt('error::EvalexprError')
    sites = []
    for f in prog.fns:
        for blk in f.blocks:
            if blk['cleanup']:
                continue
            for st in blk['stmts']:
                if st['k'] == 'assign' and st['rv']['k'] == 'aggregate' and st['rv'].get('agg') == 'adt' and path_endswith(st['rv']['adt'], 'error::EvalexprError') and st['rv']['vname'] in ('VariableIdentifierNotFound', 'FunctionIdentifierNotFound'):
                    sites.append((f, blk['id'], st))
    ctx.floor('R14.4', 'not_found_construction_sites', len(sites), 5)
    op = prog.adt(OPERATOR)
    for f, b, st in sites:
        vn = st['rv']['vname']
        sp = st.get('span')
        inst = '%s:%s' % (short(f.path), vn)
        if f.j.get('derived'):
            ctx.ok('R14.4', inst + ':derived', 'derived %s impl copies an existing error' % short(f.j.get('impl_trait') or ''), span=sp)
            continue
        if short(f.path) == 'operator::Operator::eval':
            import tables
            from mirlib import resolve_place
            want_variant = 'VariableIdentifierRead' if vn == 'VariableIdentifierNotFound' else 'FunctionIdentifier'
            regions, _dsp = tables.arm_regions(f, {'l': 1, 'p': ['deref']}, [v['idx'] for v in op['variants']])
            owners = sorted(v['name'] for v in op['variants'] if b in regions[v['idx']])
            if owners != [want_variant]:
                ctx.violation('R14.4', inst, 'arm', '%s is built in the arm(s) of %s, expected only %s' % (vn, owners, want_variant), span=sp)
                continue
            # abstractly evaluate the arm: every returned not-found error carries the node's own identifier
            okk = True
            found = 0
            for v in [v for v in op['variants'] if v['name'] == want_variant]:
                fields = [SYM('%s.%s' % (v['name'], fd['name'])) for fd in v['fields']]
                selfv = ADT(op['path'], v['idx'], v['name'], fields)

                def hook(it, fn, t, args):
                    c = t['callee']
                    if c.get('trait') and path_endswith(c['trait'], 'context::Context'):
                        return ('app', 'Context::' + c['name'], tuple(args))
                    if c.get('local') and c['name'] == 'builtin_function':
                        return ('app', 'builtin_function', tuple(args))
                    return None
                it = Interp(prog, hook=hook, max_depth=3)
                try:
                    paths = it.paths(f, [selfv, SYM('arguments'), SYM('context')])
                except Budget:
                    ctx.unrecognised('R14.4', inst, 'budget', 'Operator::eval arm too complex for %s' % v['name'], span=sp)
                    okk = False
                    break
                for ret, _eff in paths:
                    for e in find_adts(ret, vn):
                        found += 1
                        if v['name'] != want_variant or e[4] != (SYM('%s.identifier' % want_variant),):
                            ctx.violation('R14.4', inst, 'payload', '%s built while evaluating %s with payload %s (must be the identifier of a %s node)' % (vn, v['name'], fmt(e), want_variant), span=sp)
                            okk = False
            if okk:
                ctx.check(found > 0, 'R14.4', inst, 'unreached', '%s is returned only for its own node kind, carrying that node\'s identifier' % vn, span=sp)
        elif f.name == 'call_function' and path_endswith(f.j.get('impl_trait') or '', 'context::Context') and vn == 'FunctionIdentifierNotFound':
            it = Interp(prog)
            paths = it.paths(f, [SYM('self'), SYM('identifier'), SYM('argument')])
            okk = True
            cnt = 0
            for ret, _ in paths:
                for e in find_adts(ret, vn):
                    cnt += 1
                    if e[4] != (SYM('identifier'),):
                        okk = False
            ctx.check(okk and cnt > 0, 'R14.4', inst + ':' + short(f.j.get('impl_self_ty') or ''), 'payload', 'call_function reports exactly the identifier it was asked for', span=sp)
        else:
            ctx.violation('R14.4', inst, 'foreign-site', '%s constructed outside Operator::eval / Context::call_function' % vn, span=sp)


def find_adts(v, vname):
    out = []
    if v[0] == 'adt':
        if v[3] == vname:
            out.append(v)
        for x in v[4]:
            out.extend(find_adts(x, vname))
    elif v[0] == 'tuple':
        for x in v[1]:
            out.extend(find_adts(x, vname))
    elif v[0] in ('app',):
        for x in v[2]:
            out.extend(find_adts(x, vname))
    return out
