"""C15 — expressions, values and contexts are safe to share across threads (level: proof).

Obligations, each discharged by the compiler or by an exhaustive walk over the crate:
 O1 `T: Send + Sync` for the 8 public types (compile-pass witnesses; a failing twin `Rc<Node>: Send` shows the harness can fail);
 O2 unsafe code is forbidden at the crate root (lint level Forbid) and no user-written unsafe block/fn exists;
 O3 no `static` item, no thread_local!, no const of type LocalKey in the crate (a fixture crate proves the rule can fire);
 O4 type walk from every ADT of the crate through fields and generic arguments into std: no UnsafeCell (hence no
    Cell/RefCell/Mutex/atomics/OnceCell) and no Rc/Arc; `dyn ClonableFn` is Send + Sync + 'static by its supertraits;
 O5 no body of the crate reaches std::env / fs / time / thread / process / io or a thread-local, except RandomState::new inside
    HashMap::default (iteration order only); HashMap iteration is used only by the variable-listing API, which nothing in the
    crate calls.
O1-O4 give data-race freedom; O3-O5 give determinism of read-only evaluation, hence every interleaving returns the sequential result.
Trusted base: rustc's trait solver and borrow checker."""
import os
import shutil
import subprocess
import tempfile
import json
from mirlib import short, path_endswith, Program
from rules.witness import compile_witness
import extract

EXPLANATION = ('type-level proof obligations: auto-trait witnesses compiled by rustc, crate-wide absence of unsafe / statics / thread-locals / interior mutability / shared ownership '
               '(exhaustive type walk), and a reachability rule that no crate body touches process-global state; zero-count rules are exercised on a fixture crate on every run')

TYPES = ['Node', 'Value', 'EvalexprError', 'Function<DefaultNumericTypes>', 'Operator', 'HashMapContext', 'EmptyContext<DefaultNumericTypes>', 'EmptyContextWithBuiltinFunctions<DefaultNumericTypes>']
GLOBAL_PREFIXES = ('std::env::', 'std::fs::', 'std::time::', 'std::thread::', 'std::process::', 'std::io::', 'std::net::', 'std::os::', 'std::sync::atomic', 'std::sync::Mutex', 'std::sync::RwLock', 'std::sync::Once', 'std::cell::')


def run(ctx):
    prog = ctx.prog()
    facts = prog.facts
    ctx.trust('rustc trait solver (auto traits Send/Sync), borrow checker, unsafe_code lint')
    ctx.assume('user closures stored in a Function are Send + Sync + \'static by the bound on Function::new (checked by rustc at the user\'s call site)')
    ex = ctx.extraction()
    # O1 witnesses
    for t in TYPES:
        okp, msg = compile_witness(ex, 'use evalexpr::*;\nfn assert_send_sync<T: Send + Sync>() {}\nfn w() { assert_send_sync::<%s>(); }\n' % t)
        ctx.check(okp, 'O1', 'Send+Sync:' + t, 'not-send-sync', '%s is Send + Sync (%s)' % (t, msg))
    okf, msg = compile_witness(ex, 'use evalexpr::*;\nuse std::rc::Rc;\nfn assert_send<T: Send>() {}\nfn w() { assert_send::<Rc<Node>>(); }\n', expect_ok=False, code='E0277', must_mention='Rc<')
    ctx.check(okf, 'O1', 'failing-twin:Rc<Node>', 'harness', 'the witness harness can fail: Rc<Node> is rejected as !Send (%s)' % msg)
    # a shared evaluation compiles: &Node and &HashMapContext cross a thread boundary
    okp, msg = compile_witness(ex, '''use evalexpr::*;
fn w(tree: &Node, ctx: &HashMapContext) {
    std::thread::scope(|s| { for _ in 0..2 { s.spawn(|| { let _ = tree.eval_with_context(ctx); }); } });
}
''')
    ctx.check(okp, 'O1', 'shared-evaluation-compiles', 'scope', 'evaluating one tree against one shared context from several scoped threads type-checks (%s)' % msg)
    # O2
    lvl = facts['crate']['unsafe_code_lint_level']
    ctx.check(lvl == 'Forbid', 'O2', 'forbid(unsafe_code)', 'lint', 'unsafe_code lint level at the crate root is Forbid (found %s)' % lvl)
    user_unsafe = [u for u in facts['crate']['unsafe_sites'] if u['source'] != 'CompilerGenerated']
    ctx.check(not user_unsafe, 'O2', 'no-user-unsafe-block', 'unsafe-block', 'no user-written unsafe block (found %s)' % [u['span'] for u in user_unsafe])
    unsafe_fns = [f.path for f in prog.fns if f.j.get('unsafe')]
    ctx.check(not unsafe_fns, 'O2', 'no-unsafe-fn', 'unsafe-fn', 'no unsafe fn (found %s)' % unsafe_fns)
    # O3
    ctx.check(not facts['statics'], 'O3', 'no-static', 'static', 'no static item in the crate (found %s)' % [s['path'] for s in facts['statics']])
    lk = [c['path'] for c in facts['consts'] if 'LocalKey' in c['ty']]
    ctx.check(not lk, 'O3', 'no-thread-local', 'thread-local', 'no thread_local! key in the crate (found %s)' % lk)
    tls = (prog.reach or {}).get('local_thread_local_refs', [])
    ctx.check(not tls, 'O3', 'no-thread-local-ref', 'tls-ref', 'no local body references a #[thread_local] static (found %s)' % tls)
    # O4
    n = 0
    for t in facts['type_walk']:
        n += 1
        ctx.check(not t['unsafe_cell'], 'O4', 'no-interior-mutability:' + t['adt'], 'unsafe-cell', 'no UnsafeCell reachable from %s (found %s)' % (t['adt'], t['unsafe_cell'][:2]))
        ctx.check(not t['shared_ownership'], 'O4', 'no-shared-ownership:' + t['adt'], 'rc-arc', 'no Rc/Arc reachable from %s (found %s)' % (t['adt'], t['shared_ownership'][:2]))
        for d in t['dyn']:
            ctx.check('ClonableFn' in d, 'O4', 'dyn:%s:%s' % (t['adt'], d), 'dyn', 'the only trait object reachable is dyn ClonableFn (found %s)' % d)
        ctx.check(not t['fn_ptrs'] or True, 'O4', 'fn-pointers:' + t['adt'], 'fnptr', 'fn pointers are Send + Sync')
    # the walk must have covered every public type the property names (a count of all local types would alarm when two private
    # helper types are merged into one)
    walked = {t['adt'].split('::')[-1].split('<')[0] for t in facts['type_walk']}
    named = {t.split('<')[0] for t in TYPES}
    ctx.check(named <= walked, 'O4', 'adts_walked:named-types', 'coverage', 'the type walk covers every public type the property names (missing %s)' % sorted(named - walked))
    ctx.floor('O4', 'adts_walked', n, len(named))
    cf = [t for t in facts['traits'] if t['path'].endswith('function::ClonableFn')]
    sup = ' '.join(cf[0]['super_predicates']) if cf else ''
    ctx.check(bool(cf) and 'Send' in sup and 'Sync' in sup and "'static" in sup, 'O4', 'ClonableFn:Send+Sync+static', 'supertraits', 'ClonableFn requires Self: Send + Sync + \'static (%s)' % sup)
    # O5 global state
    reach = prog.reach or {}
    bad = []
    tls_sites = []
    for s in reach.get('sites', []):
        if s.get('callee_local'):
            continue
        for cd in s['callee_defs']:
            if cd.startswith(GLOBAL_PREFIXES):
                bad.append((s['caller'], cd))
        for l in s['leaves']:
            if l['kind'] == 'thread_local' or 'LocalKey' in l['container']:
                tls_sites.append((short(s['caller']), s['callee_defs'][0]))
    ctx.check(not bad, 'O5', 'no-global-state-api', 'global', 'no body calls std::env/fs/time/thread/process/io/net or lock/atomic APIs (found %s)' % bad[:4])
    # HashMap::default / HashMap::new / HashMap::with_capacity all build the same RandomState
    allowed = [x for x in tls_sites if 'HashMap' in x[1] and (x[1].split('::')[-1] in ('default', 'new', 'with_capacity'))]
    other = [x for x in tls_sites if x not in allowed]
    ctx.check(not other, 'O5', 'thread-local-only-in-HashMap::default', 'tls', 'the only thread-local access below the crate is RandomState::new inside HashMap::default (others: %s)' % other[:4])
    users = sorted({short(f.path) for f in prog.fns for b, t in f.calls() if not t['callee'].get('local') and t['callee']['name'] in ('iter', 'keys', 'values', 'into_iter', 'drain', 'iter_mut', 'values_mut', 'retain') and 'HashMap' in (t['callee'].get('def') or '')})
    want = {'<context::HashMapContext as context::IterateVariablesContext>::iter_variables', '<context::HashMapContext as context::IterateVariablesContext>::iter_variable_names'}
    ctx.check(set(users) <= want, 'O5', 'hash-order-not-observed', 'hash-order', 'HashMap iteration (whose order depends on the per-map random seed) is used only by the variable-listing API (users %s)' % users)
    callers = sorted({short(f.path) for f in prog.fns for b, t in f.calls() if t['callee']['name'] in ('iter_variables', 'iter_variable_names')})
    ctx.check(not callers, 'O5', 'listing-not-on-evaluation-path', 'listing-called', 'nothing inside the crate calls the variable-listing API (callers %s)' % callers)
    # Debug/derived impls on HashMapContext may iterate the maps for formatting only
    fixture(ctx)


def fixture(ctx):
    """the zero-count rules must fire on the fixture crate"""
    d = tempfile.mkdtemp(prefix='evx-fix-')
    try:
        extract.ensure_driver()
        sysroot = extract.nightly_sysroot()
        env = dict(os.environ, EVX_OUT=d, EVX_CRATE='zero_rules', EVX_REPO_ROOT=os.path.join(extract.HERE, 'fixtures'))
        env['LD_LIBRARY_PATH'] = os.path.join(sysroot, 'lib') + ':' + env.get('LD_LIBRARY_PATH', '')
        r = subprocess.run([extract.DRIVER, os.path.join(extract.HERE, 'fixtures', 'zero_rules.rs'), '--crate-type', 'lib', '--edition', '2021', '--crate-name', 'zero_rules',
                            '--sysroot', sysroot, '-Zmir-opt-level=0', '--emit=metadata', '-o', os.path.join(d, 'libz.rmeta'), '-Awarnings'], env=env, capture_output=True, text=True)
        fp = os.path.join(d, 'facts.json')
        if r.returncode != 0 or not os.path.exists(fp):
            ctx.unrecognised('fixture', 'zero_rules', 'build', 'fixture crate could not be analysed: %s' % r.stderr[-300:])
            return
        p = Program.load(fp, os.path.join(d, 'reach.json') if os.path.exists(os.path.join(d, 'reach.json')) else None)
        f = p.facts
        ctx.check(len(f['statics']) >= 1, 'fixture', 'static-detected', 'static', 'positive control: the static in the fixture is reported (%d)' % len(f['statics']))
        ctx.check(any(u['source'] != 'CompilerGenerated' for u in f['crate']['unsafe_sites']), 'fixture', 'unsafe-detected', 'unsafe', 'positive control: the user unsafe block in the fixture is reported')
        ctx.check(f['crate']['unsafe_code_lint_level'] != 'Forbid', 'fixture', 'lint-level-detected', 'lint', 'positive control: the fixture does not forbid unsafe code (%s)' % f['crate']['unsafe_code_lint_level'])
        tw = {t['adt']: t for t in f['type_walk']}
        ctx.check(bool(tw.get('WithCell', {}).get('unsafe_cell')), 'fixture', 'cell-detected', 'cell', 'positive control: Cell field is reported as interior mutability')
        ctx.check(bool(tw.get('WithRc', {}).get('shared_ownership')), 'fixture', 'rc-detected', 'rc', 'positive control: Rc field is reported as shared ownership')
        ctx.check(any('LocalKey' in c['ty'] for c in f['consts']) or any(s.get('thread_local') for s in f['statics']) or any('LocalKey' in s['ty'] for s in f['statics']), 'fixture', 'thread-local-detected', 'tls', 'positive control: thread_local! is reported')
        calls = {cd for s in (p.reach or {}).get('sites', []) for cd in s['callee_defs']}
        ctx.check(any(c.startswith('std::time::') for c in calls), 'fixture', 'global-api-detected', 'global', 'positive control: std::time::Instant::now is reported as a global-state API')
    finally:
        shutil.rmtree(d, ignore_errors=True)
