"""The second tokenizer stage (token::partial_tokens_to_tokens) decided as a table over *kinds*: the function is interpreted on every
sequence of up to three partial tokens (operator kinds exhaustively; words and whitespace in the positions that matter), payloads
symbolic. What comes out is the complete set of outcomes per sequence, independent of how the loop is written (slice re-borrowing
with a cutoff, an index cursor, helper functions per operator family).

Oracle for operator sequences: greedy longest match of the documented token symbols over the concatenated characters (the symbol
tables are those C02 T4 checks against the documentation); a character sequence that starts no token is UnmatchedPartialToken."""
import itertools
import tables
from absint import Interp, SYM, ADT, C, OK, ERR, SOME, NONE, Budget, fmt, is_adt, apps

_CACHE = {}


class TokSem:
    def __init__(self, prog):
        self.prog = prog
        self.f = prog.fn('token::partial_tokens_to_tokens')
        if self.f is None:
            raise ValueError('token::partial_tokens_to_tokens not found')
        self.pt = prog.adt(tables.PARTIAL)
        self.tok = prog.adt(tables.TOKEN)
        self.psym = tables.display_symbols(prog, tables.PARTIAL)
        self.tsym = tables.display_symbols(prog, tables.TOKEN)
        self.runs = {}
        self.n_runs = 0
        # operator-like partial tokens: fixed one-character symbol
        self.op_kinds = [v['name'] for v in self.pt['variants'] if not v['fields'] and v['name'] != 'Whitespace' and self.psym.get(v['name'])]
        self.by_symbol = {s: n for n, s in self.tsym.items() if s}

    def P(self, name, sym='w'):
        v = [x for x in self.pt['variants'] if x['name'] == name][0]
        if name == 'Token':
            return ADT(self.pt['path'], v['idx'], name, [SYM(sym)])
        return ADT(self.pt['path'], v['idx'], name, [SYM(sym)] if v['fields'] else [])

    def T(self, name):
        v = [x for x in self.tok['variants'] if x['name'] == name][0]
        return ADT(self.tok['path'], v['idx'], name, [])

    def run(self, seq):
        """seq: tuple of abstract partial tokens -> list of (ret, effects)"""
        key = tuple(seq)
        if key not in self.runs:
            self.n_runs += 1
            if getattr(self, 'n_budget', 0) > 12:
                # the stage does not run to completion on concrete partial-token lists (a loop form the interpreter cannot unroll, a
                # helper whose effect on the cursor it does not see): say so once instead of spending the step budget on every sequence
                raise ValueError('stage 2 of the tokenizer cannot be interpreted on concrete partial-token lists: %d sequences exceeded the step budget' % self.n_budget)
            try:
                self.runs[key] = Interp(self.prog, vec_model=True, loop_bound=8, max_steps=400000).paths(self.f, [('tuple', tuple(seq))])
            except Budget:
                self.n_budget = getattr(self, 'n_budget', 0) + 1
                raise
        return self.runs[key]

    def expected_ops(self, kinds):
        """greedy longest match over the documented symbols: ('ok', [token names]) or ('err', index of the unmatched partial token)"""
        s = ''.join(self.psym[k] for k in kinds)
        out = []
        i = 0
        while i < len(s):
            for ln in (3, 2, 1):
                name = self.by_symbol.get(s[i:i + ln]) if i + ln <= len(s) else None
                if name is not None:
                    out.append(name)
                    i += ln
                    break
            else:
                return ('err', i, out)
        return ('ok', None, out)


def get(prog):
    k = id(prog)
    if k not in _CACHE:
        _CACHE[k] = TokSem(prog)
    return _CACHE[k]


def check_operator_table(ctx, prog, rule, max_len=3):
    """every sequence of 1..max_len operator-like partial tokens is tokenized as the greedy longest match of the documented symbols"""
    ts = get(prog)
    n = 0
    bad = []
    for ln in range(1, max_len + 1):
        for kinds in itertools.product(ts.op_kinds, repeat=ln):
            try:
                ps = ts.run([ts.P(k) for k in kinds])
            except Budget:
                bad.append('%s: too complex' % ' '.join(kinds))
                continue
            n += 1
            st, pos, names = ts.expected_ops(kinds)
            rets = [p[0] for p in ps if p[0] != ('diverge',)]
            if st == 'ok':
                want = OK(('tuple', tuple(ts.T(x) for x in names)))
                good = rets == [want]
            else:
                good = len(rets) == 1 and is_adt(rets[0], 'result::Result', 'Err') and is_adt(rets[0][4][0], 'error::EvalexprError', 'UnmatchedPartialToken') \
                    and rets[0][4][0][4][:1] == (ts.P(kinds[pos]),)
            if not good and len(bad) < 6:
                bad.append('%s -> %s (expected %s)' % (''.join(ts.psym[k] for k in kinds), [fmt(r)[:70] for r in rets], names if st == 'ok' else 'UnmatchedPartialToken at %d' % pos))
    ctx.check(not bad, rule, 'operator-table', 'consume-mismatch',
              'every sequence of up to %d operator characters becomes the greedy longest match of the documented operator symbols (a token consumes exactly the characters of its symbol); %d sequences; deviations: %s' % (max_len, n, bad), span=ts.f.span)
    ctx.floor(rule, 'operator_sequences', n, 12 + 144 + (1728 if max_len >= 3 else 0))
    return ts


def kinds_of(ret):
    """token kinds of an Ok(token list) result, None for anything else"""
    if is_adt(ret, 'result::Result', 'Ok') and ret[4][0][0] == 'tuple':
        return tuple(t[3] if t[0] == 'adt' else '?' for t in ret[4][0][1])
    return None


# ----------------------------------------------------------------------------- words (literals / identifiers)

ORDER = ['int', 'float', 'bool', 'join']
EXPECT = {'int': 'Int', 'float': 'Float', 'bool': 'Boolean', 'join': 'Float', None: 'Identifier'}


def _bare(x):
    while x[0] == 'app' and len(x[2]) == 1 and x[1].split('::')[-1].split('<')[0] in ('to_string', 'to_owned', 'into', 'from', 'clone', 'as_str', 'as_ref', 'deref', 'borrow'):
        x = x[2][0]
    return x


def word_attempts(eff, w):
    """the classification attempts made on the word `w` along a path, in order: [(kind, succeeded, parsed term)], and the other
    tests of the word's text (anything that is neither an attempt nor the hexadecimal-prefix test)"""
    att, extra = [], []
    for e in eff:
        if e[0] != '<branch>':
            continue
        v, taken = e[2]
        if v[0] == 'app' and v[1] == 'discriminant' and v[2][0][0] == 'app':
            x = v[2][0]
            nm = x[1]
            mentions = any(_mentions(a, w) for a in x[2] if isinstance(a, tuple))
            if not mentions:
                continue
            last = nm.split('::')[-1]
            plain = len(x[2]) >= 1 and _bare(x[2][0]) == w
            if 'strip_prefix' in nm and plain:
                continue
            kind = None
            # `s.parse::<T>()` is `T::from_str(s)` (std): both spellings name the same attempt
            if (('from_str::<' in nm or 'parse::<' in nm) and nm.rstrip('>').endswith('::Int') and plain) or ('from_hex_str' in nm):
                kind = 'int'
            elif ('parse::<bool>' in nm or 'from_str::<bool>' in nm) and plain:
                kind = 'bool'
            elif 'parse::<' in nm and 'Float' in nm:
                kind = 'float' if plain else 'join'
            elif 'from_str::<' in nm and 'Float' in nm:
                kind = 'float' if plain else 'join'
            if kind is None:
                extra.append(fmt(v)[:100])
                continue
            if any(k == kind for k, _s, _t in att):
                continue  # a re-read of the same result
            att.append((kind, taken == C(0), x))
        elif _mentions(v, w):
            extra.append(fmt(v)[:100])
    return att, extra


def text_pieces(term):
    """the values a string-valued term is put together from, in order, when it is a recognisable concatenation: `format!` with display
    arguments only (the literal parts of the template are not visible in the exported constant and are not checked), `[a, b, c].concat()`,
    `[a, b, c].join("")`; None otherwise"""
    t = term
    while t[0] == 'app' and len(t[2]) == 1 and t[1].split('::')[-1].split('<')[0] in ('must_use', 'to_string', 'to_owned', 'into', 'from', 'clone', 'as_str', 'as_ref', 'deref', 'borrow'):
        t = t[2][0]
    if t[0] != 'app':
        return None
    last = t[1].split('::')[-1].split('<')[0]
    if last == 'format' and len(t[2]) == 1 and t[2][0][0] == 'app' and 'Arguments' in t[2][0][1] and len(t[2][0][2]) == 2 and t[2][0][2][1][0] == 'tuple':
        out = []
        import re
        m = re.search(r'::<(\d+),(\d+)>$', t[2][0][1])
        if m is None or int(m.group(1)) != int(m.group(2)) + 1:
            return 'literal-template'   # the template has literal text between the placeholders (or its size is not known): not a plain concatenation
        for a in t[2][0][2][1][1]:
            if not (a[0] == 'app' and a[1].split('::')[-1] == 'new_display' and len(a[2]) == 1):
                return None
            out.append(a[2][0])
        return out
    if last == 'concat' and len(t[2]) == 1 and t[2][0][0] == 'tuple':
        return list(t[2][0][1])
    if last == 'join' and len(t[2]) == 2 and t[2][0][0] == 'tuple' and t[2][1] == C(''):
        return list(t[2][0][1])
    return None


def _mentions(v, w):
    from absint import has_subterm
    return has_subterm(v, w)


def prefix_word_problems(ts):
    """a word is classified the same way whatever stands in front of it: `<operator character> word` gives the operator's token(s)
    followed by what the word gives alone, with no further test of the word's text (a sign is never folded into the literal).
    Returns [(problem kind, message)], or None when the interpretation ran out of budget."""
    w = SYM('w')
    lit_w = ts.P('Literal', 'w')
    out = []
    try:
        alone = {kinds_of(p[0]) for p in ts.run((lit_w,)) if p[0] != ('diverge',)}
        for k in ts.op_kinds + ['Whitespace']:
            seq = (ts.P(k), lit_w)
            first = {kinds_of(p[0]) for p in ts.run((ts.P(k),)) if p[0] != ('diverge',)}
            want = {a_ + b_ for a_ in first if a_ is not None for b_ in alone if b_ is not None}
            got = set()
            for ret, eff in ts.run(seq):
                if ret == ('diverge',):
                    continue
                ks = kinds_of(ret)
                if ks is None:
                    # an error: only a lone `&` / `|` in front of the word may fail
                    if None not in first:
                        out.append(('consume', '%s w -> %s' % (k, fmt(ret)[:60])))
                    continue
                got.add(ks)
                att, extra = word_attempts(eff, w)
                if extra or any(k_ == 'join' for k_, _s, _t in att) or any(not t_[2] or _bare(t_[2][0]) != w for k_, _s, t_ in att if k_ in ('int', 'float', 'bool') and 'from_hex_str' not in t_[1]):
                    out.append(('extra', '%s w: %s' % (k, (extra or [fmt(t_)[:70] for _k, _s, t_ in att])[:2])))
            if want and got != want:
                out.append(('consume', '%s w -> %s (expected %s)' % (k, sorted(map(str, got))[:3], sorted(map(str, want))[:3])))
    except Budget:
        return None
    return out


def check_words(ctx, prog):
    """R6.3 (classification order of a word, first success decides, no extra gate on the word's text, payloads are the parse results of
    the same text), R6.5 for words (the scientific-notation join is tried exactly after `-`/`+` followed by another word, and consumes
    the three partial tokens exactly when it succeeds)."""
    ts = get(prog)
    f = ts.f
    w, x = SYM('w'), SYM('x')
    lit_w, lit_x = ts.P('Literal', 'w'), ts.P('Literal', 'x')
    suffixes = [()]
    for k in ts.op_kinds + ['Whitespace']:
        suffixes.append((ts.P(k),))
        suffixes.append((ts.P(k), lit_x))
    for k in ('Minus', 'Plus'):
        for k2 in ts.op_kinds + ['Whitespace']:
            suffixes.append((ts.P(k), ts.P(k2)))
    n_paths = 0
    n_seq = 0
    kinds_seen = set()
    join_signs = set()
    problems = {'order': [], 'extra': [], 'join-guard': [], 'join-missed': [], 'consume': [], 'payload': []}

    def note(key, msg):
        if len(problems[key]) < 4:
            problems[key].append(msg)
    for S in suffixes:
        seq = (lit_w,) + S
        try:
            ps = ts.run(seq)
            rest_full = {kinds_of(p[0]) for p in ts.run(S)} if S else {()}
            rest_join = {kinds_of(p[0]) for p in ts.run(S[2:])} if len(S) >= 2 else None
        except Budget:
            ctx.unrecognised('R6.5', 'partial_tokens_to_tokens', 'budget', 'too complex on %d partial tokens' % len(seq), span=f.span)
            return None
        n_seq += 1
        sname = ' '.join(['w'] + [p[3] for p in S])
        joinable = len(S) >= 2 and S[0][3] in ('Minus', 'Plus')          # a sign and one more partial token follow
        must_join = joinable and S[1][3] == 'Literal'                     # ... and that token is a word: `1e` `-` `3`
        for ret, eff in ps:
            if ret == ('diverge',):
                continue
            n_paths += 1
            att, extra = word_attempts(eff, w)
            if extra:
                note('extra', '%s: %s' % (sname, extra[:2]))
            ks = kinds_of(ret)
            if ks is None or not ks:
                # an error can only come from the rest of the sequence (a lone `&`), never from the word
                if not (is_adt(ret, 'result::Result', 'Err') and S):
                    note('consume', '%s -> %s' % (sname, fmt(ret)[:80]))
                continue
            first = ret[4][0][1][0]
            kind = first[3]
            kinds_seen.add(kind)
            names = [k for k, _s, _t in att]
            idx = [ORDER.index(k) for k in names]
            succ = [k for k, s_, _t in att if s_]
            first_succ = succ[0] if succ else None
            okorder = idx == sorted(idx) and len(set(idx)) == len(idx) and (not names or names[0] == 'int') and (not succ or names[-1] == first_succ)
            if not okorder or kind != EXPECT[first_succ]:
                note('order', '%s: classified %s after attempts %s' % (sname, kind, [(k, s_) for k, s_, _t in att]))
            # the join is attempted only after a sign followed by another word, and then always (when nothing simpler matched)
            if 'join' in names and not joinable:
                note('join-guard', '%s: join attempted' % sname)
            if must_join and not succ and 'join' not in names:
                note('join-missed', '%s: declared %s without attempting the join' % (sname, kind))
            if 'join' in names:
                join_signs.add(S[0][3])
            # consumption: a successful join swallows the sign and the second word, anything else only the word itself
            rest = ks[1:]
            want_rest = rest_join if first_succ == 'join' else rest_full
            if rest not in (want_rest or set()):
                note('consume', '%s: %s followed by %s (possible continuations %s)' % (sname, kind, list(rest), sorted(map(str, want_rest or []))[:4]))
            # payloads
            pv = first[4][0] if first[4] else None
            good = True
            if kind == 'Identifier':
                good = _bare(pv) == w
            elif first_succ in ('int', 'float', 'bool', 'join'):
                t_ = [t for k, s_, t in att if k == first_succ][0]
                good = pv is not None and pv[0] == 'proj' and pv[1] == t_ and pv[2] == ('as Ok', '0')
                if first_succ == 'join':
                    good = good and _mentions(t_, w) and (_mentions(t_, x) or not must_join)
            # the text a join attempt parses is the word, the sign as it is written, and the following partial token, in that order
            for k_, _s, t_ in att:
                if k_ != 'join' or not joinable or not t_[2]:
                    continue
                pieces = text_pieces(t_[2][0])
                if pieces == 'literal-template':
                    note('payload', '%s: the join is formatted with a template that adds text of its own' % sname)
                    continue
                if pieces is None or len(pieces) != 3:
                    continue

                def text(v):
                    v = _bare(v)
                    if v[0] == 'adt' and v[1].endswith('PartialToken'):
                        if v[3] == 'Literal' and v[4]:
                            return _bare(v[4][0])
                        return C(ts.psym.get(v[3]))
                    return v
                want_pieces = [w, C(ts.psym.get(S[0][3])), text(S[1])]
                if [text(p_) for p_ in pieces] != want_pieces:
                    note('payload', '%s: the join parses %s, expected the word, `%s` and the next partial token' % (sname, [fmt(text(p_))[:30] for p_ in pieces], ts.psym.get(S[0][3])))
            if not good:
                note('payload', '%s: %s carries %s' % (sname, kind, fmt(pv)[:80] if pv else None))
    pp = prefix_word_problems(ts)
    if pp is None:
        ctx.unrecognised('R6.5', 'partial_tokens_to_tokens', 'budget', 'too complex on an operator character followed by a word', span=f.span)
        return None
    for key_, msg_ in pp:
        note(key_, msg_)
    n_seq += len(ts.op_kinds) + 1
    ctx.counters['tokenizer_paths'] = n_paths
    ctx.floor('R6.3', 'literal_paths', n_paths, 50)
    ctx.check(not problems['order'], 'R6.3', 'literal-path[classification]', 'classification-order', 'a word is tried as integer, float, boolean, (three-token float), and is an identifier only when all fail; the first success decides (deviations: %s)' % problems['order'], span=f.span)
    ctx.check(not problems['extra'], 'R6.3', 'literal-path[extra-test]', 'extra-gate', 'the classification of a word depends on nothing but these attempts (additional tests of its text: %s); such a gate changes which words are numbers (e.g. `.5e-3`)' % problems['extra'], span=f.span)
    ctx.check(not problems['join-missed'], 'R6.3', 'literal-path[join-not-attempted]', 'join-gated', 'a word that is no int/float/bool, followed by `-`/`+` and another word, is not declared an identifier without attempting the scientific-notation join (%s)' % problems['join-missed'], span=f.span)
    ctx.check(sorted(kinds_seen) == ['Boolean', 'Float', 'Identifier', 'Int'], 'R6.3', 'literal-kinds', 'kinds', 'a word becomes Int, Float, Boolean or Identifier (found %s)' % sorted(kinds_seen), span=f.span)
    ctx.check(not problems['payload'], 'R6.3', 'identifier-text', 'text', 'an identifier carries exactly the word\'s text and a number / boolean the parse result of that same text (deviations: %s)' % problems['payload'], span=f.span)
    ctx.check(not problems['join-guard'], 'R6.5', 'join-guard', 'join-guard', 'the three-token join is tried only when the middle token is `-` or `+` and a third partial token exists (%s)' % problems['join-guard'], span=f.span)
    ctx.check(join_signs == {'Minus', 'Plus'}, 'R6.5', 'join-signs', 'join-signs', 'the scientific-notation join is available after both `-` and `+` (found %s)' % sorted(join_signs), span=f.span)
    ctx.check(not problems['consume'], 'R6.5', 'consume=match', 'consume-mismatch', 'a word consumes itself, plus the sign and the following word exactly when they were joined into one number; what follows is tokenized as it would be on its own (deviations: %s)' % problems['consume'], span=f.span)
    ctx.floor('R6.5', 'word_sequences', n_seq, 30)
    return ts


def check_whitespace(ctx, prog, rule='R7.3'):
    """a Whitespace partial token yields no token, separates its neighbours (no operator is combined across it, two words stay two
    words), and nothing else is silently dropped; an already complete token passes through unchanged"""
    ts = get(prog)
    f = ts.f
    ws = ts.P('Whitespace')
    bad = []
    n = 0

    def rets(seq):
        return [p[0] for p in ts.run(seq) if p[0] != ('diverge',)]
    n += 1
    if rets([ws]) != [OK(('tuple', ()))] or rets([ws, ws]) != [OK(('tuple', ()))]:
        bad.append('whitespace alone -> %s' % [fmt(r)[:60] for r in rets([ws])])
    for a in ts.op_kinds:
        for b in ts.op_kinds:
            n += 1
            ea, eb = ts.expected_ops([a]), ts.expected_ops([b])
            got = rets([ts.P(a), ws, ts.P(b)])
            if ea[0] == 'ok' and eb[0] == 'ok':
                want = [OK(('tuple', tuple(ts.T(x_) for x_ in ea[2] + eb[2])))]
                if got != want and len(bad) < 5:
                    bad.append('%s %s -> %s' % (ts.psym[a], ts.psym[b], [fmt(r)[:70] for r in got]))
            elif not (len(got) == 1 and is_adt(got[0], 'result::Result', 'Err')) and len(bad) < 5:
                bad.append('%s %s -> %s (expected an unmatched-token error)' % (ts.psym[a], ts.psym[b], [fmt(r)[:70] for r in got]))
    # any amount of whitespace is the same as one: doubling the separator changes nothing, neither the tokens nor - on ill-formed text -
    # the error and what it carries
    for a in ts.op_kinds:
        for b in list(ts.op_kinds) + ['Literal', None]:
            n += 1
            tail = [] if b is None else [ts.P('Literal', 'x') if b == 'Literal' else ts.P(b)]
            once, twice = rets([ts.P(a), ws] + tail), rets([ts.P(a), ws, ws] + tail)
            if sorted(map(fmt, once)) != sorted(map(fmt, twice)) and len(bad) < 5:
                bad.append('`%s %s` -> %s but with two separators -> %s' % (ts.psym[a], 'x' if b == 'Literal' else (ts.psym[b] if b else ''), [fmt(r)[:70] for r in once][:2], [fmt(r)[:70] for r in twice][:2]))
    # a separator between an operator character and a word changes nothing (they never combine): `-x` and `- x` are the same tokens
    for a in ts.op_kinds:
        n += 1
        tight = {kinds_of(r) for r in rets([ts.P(a), ts.P('Literal', 'w')])}
        spaced = {kinds_of(r) for r in rets([ts.P(a), ws, ts.P('Literal', 'w')])}
        if tight != spaced and len(bad) < 5:
            bad.append('`%sw` -> %s but `%s w` -> %s' % (ts.psym[a], sorted(map(str, tight))[:3], ts.psym[a], sorted(map(str, spaced))[:3]))
    # two words separated by whitespace stay two tokens
    two = {kinds_of(r) for r in rets([ts.P('Literal', 'w'), ws, ts.P('Literal', 'x')])}
    one = {kinds_of(r) for r in rets([ts.P('Literal', 'w')])}
    n += 1
    if not two or any(k is None or len(k) != 2 for k in two) or {k[:1] for k in two if k} != one:
        bad.append('w x -> %s' % sorted(map(str, two))[:4])
    # complete tokens pass through
    t = SYM('t')
    n += 3
    if rets([ts.P('Token', 't')]) != [OK(('tuple', (t,)))]:
        bad.append('Token(t) -> %s' % [fmt(r)[:60] for r in rets([ts.P('Token', 't')])])
    if rets([ts.P('Plus'), ts.P('Token', 't')]) != [OK(('tuple', (ts.T('Plus'), t)))]:
        bad.append('+ Token(t) -> %s' % [fmt(r)[:60] for r in rets([ts.P('Plus'), ts.P('Token', 't')])])
    if rets([ts.P('Token', 't'), ts.P('Eq')]) != [OK(('tuple', (t, ts.T('Assign'))))]:
        bad.append('Token(t) = -> %s' % [fmt(r)[:60] for r in rets([ts.P('Token', 't'), ts.P('Eq')])])
    ctx.check(not bad, rule, 'Whitespace-token', 'whitespace', 'a Whitespace partial token yields no token and only separates its neighbours; complete tokens pass through unchanged; nothing else is dropped (%d sequences; deviations: %s)' % (n, bad), span=f.span)
    ctx.floor(rule, 'whitespace_sequences', n, 140)
    return ts
