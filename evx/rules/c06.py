"""C06 — literals denote exactly their value (clause level).

R6.1 escape table: parse_escape_sequence accepts exactly `"` and `\\` (returning the same character), everything else and end of
     input is IllegalEscapeSequence;
R6.2 string scanning: `"` ends the literal with Token::String(collected text); `\\` delegates to R6.1; any other character is
     pushed unchanged; exhaustion is UnmatchedDoubleQuote; neither comment skipping nor operator recognition is reachable from
     the string scanner, and in str_to_partial_tokens the `"` test dominates both;
R6.3 classification order of a word: int (dec/hex) -> float -> bool -> three-token scientific join -> identifier, the emitted
     token kind being that of the first attempt that succeeded;
R6.4 hex: prefix constant "0x", radix constant 16; decimal goes through FromStr of the integer type;
R6.5 consume = match: on every path of one tokenizer iteration the number of partial tokens consumed is 1 + the look-ahead slots
     that were matched as a specific variant or whose text flows into the emitted token; the join is taken only after `-`/`+`;
R6.6 payload pass-through: Token::Int/Float/Boolean/String(x) builds Const{Value::<same>(x)} and the Const arm returns a clone.
Not decided: what i64::from_str / f64::from_str accept and return (trusted std; e.g. that `inf`/`nan` parse as floats)."""
import tables
from absint import UNK, Interp, SYM, C, ADT, OK, ERR, SOME, NONE, Fork, Stop, fmt, is_adt, Budget, subst, P_OK, P_ERR, P_SOME, expand_results, apps, has_subterm
from mirlib import short, path_endswith, callee_matches, op_place, resolve_place
from rules.tokpaths import iteration_paths, lookahead_index, TOK
from rules.treepaths import branches_of, is_true, seed

EXPLANATION = ('tokenizer path enumeration: parse_escape_sequence, parse_string_literal and one iteration of partial_tokens_to_tokens are abstractly interpreted '
               'over their MIR (all paths), yielding the escape table, the literal classification order and the (first, second?, third?) -> (token, consumed) table; '
               'rules compare these tables with the property\'s clauses. std number parsing is trusted and not decided')

Q, BS = 34, 92


def run(ctx):
    prog = ctx.prog()
    ctx.trust('rustc nightly MIR of /repo; FromStr for i64/f64/bool and i64::from_str_radix (std)')
    ctx.assume('the iterator passed to the string scanner yields the characters of the input in order (str::Chars)')
    from rules.c07 import stage1_reader
    why = stage1_reader(prog)
    if why is not None:
        ctx.unrecognised('R6.2', 'str_to_partial_tokens', 'reader', '%s: the rules on the string scanner cannot be evaluated on this representation (stated limitation, DESIGN section 8)' % why)
    else:
        r61(ctx, prog)
        r62(ctx, prog)
    paths = r63_65(ctx, prog)
    r64(ctx, prog)
    r66(ctx, prog)
    r67(ctx, prog)
    # R6.8 "a string literal denotes exactly its content": the scanner (R6.2) sees the characters the caller wrote only if nothing
    # rewrites the raw input in front of the two stages - the C07 R7.6 composition rule (tokenize = stage 2 of stage 1 of the input,
    # and the input goes nowhere else), reported here: a CRLF normalisation of the whole source also rewrites string contents
    from rules.c07 import r75
    from rules.c05 import _Renamed
    r75(_Renamed(ctx, 'R6.8'), prog)


def char_case(br):
    """which character class a path established for the item yielded by `next()`: the code point it was found equal to
    (switch on the item, or an `item == 'x'` comparison that held), 'other' when only inequalities / the default edge were taken,
    None when the item was never inspected. Returns (case, item term)."""
    case = None
    item = None
    for v, t in br:
        if v[0] == 'proj' and 'next' in fmt(v):
            item = v
            if t[0] == 'c':
                return t[1], v
            case = 'other'
        elif v[0] == 'app' and v[1] in ('binop:Eq', 'binop:Ne') and len(v[2]) == 2:
            a, b = v[2]
            for x, y in ((a, b), (b, a)):
                if x[0] == 'proj' and 'next' in fmt(x) and y[0] == 'c' and isinstance(y[1], str):
                    item = x
                    held = (t != C(0)) if v[1] == 'binop:Eq' else (t == C(0))
                    if held:
                        return ord(y[1]), x
                    case = 'other'
    return case, item


def payload_branch(eff, term_pred):
    """list of (value compared, taken) for switches on a char payload"""
    return [(v, t) for v, t in branches_of(eff) if term_pred(v)]


def item_cases(eff):
    """the characters taken from the iterator along a path, in order, each with the case the path established for it:
    a code point (found equal to it), 'other' (only inequalities), 'end' (the iterator was exhausted), None (never inspected)"""
    out = []
    br = branches_of(eff)
    for e in eff:
        if e[0].startswith('<') or len(e) < 5 or e[4] is None or e[0].split('::')[-1] != 'next':
            continue
        item = e[4]
        mine = [(v, t) for v, t in br if has_subterm(v, item)]
        disc = [t for v, t in mine if v == ('app', 'discriminant', (item,))]
        if disc and disc[0] != C(1):
            out.append(('end', item))
            continue
        case, it_ = char_case([(v, t) for v, t in mine if v != ('app', 'discriminant', (item,))])
        out.append((case, it_ if it_ is not None else P_SOME(item)))
    return out


def r61_merged(ctx, prog, f):
    """escape handling written inside the string scanner itself (no separate parse_escape_sequence): the paths of one scanner iteration
    that start with a backslash are classified by the second character taken"""
    def hook(it, fn, t, args):
        c = t['callee']
        if c['name'] == 'new' and 'String' in c['def']:
            return SYM('result')
        return None
    ps = Interp(prog, hook=hook, loop_bound=0, record_backedge=True).paths(f, [SYM('iter')])
    table = {}
    for ret, eff in ps:
        items = item_cases(eff)
        if len(items) < 1 or items[0][0] != BS:
            continue
        key = items[1][0] if len(items) > 1 else '?'
        pushes = [e[2] for e in eff if not e[0].startswith('<') and e[0].split('::')[-1] == 'push']
        if isinstance(key, int) and len(items) > 1:
            pushes = [tuple(subst(a, items[1][1], C(chr(key))) for a in p_) for p_ in pushes]
        table.setdefault(key, []).append((ret, pushes))

    def is_err(r):
        return is_adt(r, 'result::Result', 'Err') and is_adt(r[4][0], 'error::EvalexprError', 'IllegalEscapeSequence')

    def appended(k, ch):
        return len(table.get(k, [])) == 1 and table[k][0][0][0] == 'backedge' and table[k][0][1] == [(SYM('result'), C(ch))]
    ctx.check(appended(Q, '"'), 'R6.1', 'escape:quote', 'quote', '`\\"` denotes `"` (found %s)' % [(fmt(r)[:40], [[fmt(a) for a in p_] for p_ in ps_]) for r, ps_ in table.get(Q, [])], span=f.span)
    ctx.check(appended(BS, '\\'), 'R6.1', 'escape:backslash', 'backslash', '`\\\\` denotes `\\` (found %s)' % [(fmt(r)[:40], [[fmt(a) for a in p_] for p_ in ps_]) for r, ps_ in table.get(BS, [])], span=f.span)
    ctx.check(bool(table.get('other')) and all(is_err(r) and not p_ for r, p_ in table['other']), 'R6.1', 'escape:other', 'other', 'any other escaped character is IllegalEscapeSequence', span=f.span)
    ctx.check(bool(table.get('end')) and all(is_err(r) and not p_ for r, p_ in table['end']), 'R6.1', 'escape:end', 'end', 'a backslash at the end of input is IllegalEscapeSequence', span=f.span)
    extra = sorted(str(k) for k in table if k not in (Q, BS, 'other', 'end'))
    ctx.check(not extra, 'R6.1', 'escape:table', 'extra', 'exactly two escapes are accepted (additional accepted escape characters: %s)' % extra, span=f.span)
    return table


def r61(ctx, prog):
    f = prog.fn('token::parse_escape_sequence')
    if f is None:
        g = prog.fn('token::parse_string_literal')
        if g is None:
            ctx.unrecognised('R6.1', 'parse_escape_sequence', 'missing', 'neither parse_escape_sequence nor parse_string_literal found')
            return
        r61_merged(ctx, prog, g)
        return
    ps = Interp(prog).paths(f, [SYM('iter')])
    table = {}
    for ret, eff in ps:
        br = branches_of(eff)
        some = [t for v, t in br if fmt(v).startswith('discriminant(') and 'next' in fmt(v)]
        case, _item = char_case(br)
        if some and some[0] != C(1):
            key = 'end-of-input'
        elif case is not None:
            key = case
            if isinstance(case, int) and _item is not None:
                # the path established item == that character: `Some(c @ '"') => Ok(c)` and `Some('"') => Ok('"')` are the same
                ret = subst(ret, _item, C(chr(case)))
        else:
            key = '?'
        table.setdefault(key, []).append(ret)
    def is_err(r):
        return is_adt(r, 'result::Result', 'Err') and is_adt(r[4][0], 'error::EvalexprError', 'IllegalEscapeSequence')
    ctx.check(table.get(Q) == [OK(C('"'))], 'R6.1', 'escape:quote', 'quote', '`\\"` denotes `"` (found %s)' % [fmt(x) for x in table.get(Q, [])], span=f.span)
    ctx.check(table.get(BS) == [OK(C('\\'))], 'R6.1', 'escape:backslash', 'backslash', '`\\\\` denotes `\\` (found %s)' % [fmt(x) for x in table.get(BS, [])], span=f.span)
    ctx.check(bool(table.get('other')) and all(is_err(r) for r in table['other']), 'R6.1', 'escape:other', 'other', 'any other escaped character is IllegalEscapeSequence', span=f.span)
    ctx.check(bool(table.get('end-of-input')) and all(is_err(r) for r in table['end-of-input']), 'R6.1', 'escape:end', 'end', 'a backslash at the end of input is IllegalEscapeSequence', span=f.span)
    extra = sorted(str(k) for k in table if k not in (Q, BS, 'other', 'end-of-input'))
    ctx.check(not extra, 'R6.1', 'escape:table', 'extra', 'exactly two escapes are accepted (additional accepted escape characters: %s)' % extra, span=f.span)
    ctx.sample(dict(rule='R6.1', escape_table={str(k): [fmt(x)[:60] for x in v] for k, v in table.items()}))


def r62(ctx, prog):
    f = prog.fn('token::parse_string_literal')
    if f is None:
        ctx.unrecognised('R6.2', 'parse_string_literal', 'missing', 'not found')
        return

    def hook(it, fn, t, args):
        c = t['callee']
        if c.get('local') and c['name'] == 'parse_escape_sequence':
            return Fork([OK(SYM('escaped_char')), ERR(SYM('escape_error'))])
        if c['name'] == 'new' and 'String' in c['def']:
            return SYM('result')
        return None
    ps = Interp(prog, hook=hook, loop_bound=0, record_backedge=True).paths(f, [SYM('iter')])
    seen = {}
    for ret, eff in ps:
        br = branches_of(eff)
        some = [t for v, t in br if fmt(v).startswith('discriminant(') and 'next' in fmt(v)]
        case, item = char_case(br)
        pushes = [e[2] for e in eff if not e[0].startswith('<') and e[0].split('::')[-1] == 'push']
        if some and some[0] != C(1):
            key = 'end-of-input'
        elif case is not None:
            key = case
        else:
            key = '?'
        seen.setdefault(key, []).append((ret, pushes, item))
    tok = prog.adt(tables.TOKEN)
    # closing quote
    good = len(seen.get(Q, [])) == 1 and is_adt(seen[Q][0][0], 'result::Result', 'Ok') and 'Token::String($result)' in fmt(seen[Q][0][0]) and not seen[Q][0][1]
    ctx.check(good, 'R6.2', 'string:closing-quote', 'close', '`"` ends the literal and yields Token::String(collected text) (%s)' % [fmt(x[0]) for x in seen.get(Q, [])], span=f.span)
    # backslash
    bs = seen.get(BS, [])
    good = len(bs) == 2 and any(r[0][0] == 'backedge' and r[1] == [(SYM('result'), SYM('escaped_char'))] for r in bs) and any(r[0] == ERR(SYM('escape_error')) and not r[1] for r in bs)
    if not good and prog.fn('token::parse_escape_sequence') is None:
        # the escape is handled inside the scanner: R6.1 (merged form) decides those paths; here only that a backslash never ends the literal
        good = bool(bs) and all(r[0][0] == 'backedge' or is_adt(r[0], 'result::Result', 'Err') for r in bs)
    ctx.check(good, 'R6.2', 'string:escape', 'escape', '`\\` delegates to parse_escape_sequence: its character is appended, its error returned (%s)' % [(fmt(x[0]), [[fmt(a) for a in p] for p in x[1]]) for x in bs], span=f.span)
    # any other char pushed unchanged
    ot = seen.get('other', [])
    good = len(ot) == 1 and ot[0][0][0] == 'backedge' and len(ot[0][1]) == 1 and ot[0][1][0][0] == SYM('result') and ot[0][1][0][1] == ot[0][2]
    ctx.check(good, 'R6.2', 'string:plain-char', 'plain', 'every other character (operators, comment markers, newlines, any Unicode) is appended unchanged', span=f.span)
    en = seen.get('end-of-input', [])
    good = len(en) == 1 and is_adt(en[0][0], 'result::Result', 'Err') and is_adt(en[0][0][4][0], 'error::EvalexprError', 'UnmatchedDoubleQuote')
    ctx.check(good, 'R6.2', 'string:unterminated', 'unterminated', 'a missing closing quote is UnmatchedDoubleQuote', span=f.span)
    extra = sorted(str(k) for k in seen if k not in (Q, BS, 'other', 'end-of-input'))
    ctx.check(not extra, 'R6.2', 'string:special-chars', 'extra', 'only `"` and `\\` are special inside a string (also special: %s)' % extra, span=f.span)
    # exclusion: the scanner's call graph contains neither comment skipping nor operator recognition
    names = {t['callee']['name'] for _, t in f.calls() if t['callee'].get('local')}
    g = prog.fn('token::parse_escape_sequence')
    if g is not None:
        names |= {t['callee']['name'] for _, t in g.calls() if t['callee'].get('local')}
    ctx.check(not (names & {'try_skip_comment', 'char_to_partial_token'}), 'R6.2', 'string:no-comment-no-operator', 'exclusion', 'comment markers and operator characters are not recognised inside a string literal (local callees of the scanner: %s)' % sorted(names), span=f.span)
    # in str_to_partial_tokens a `"` goes to the string scanner and to nothing else; every other character never reaches it
    s = prog.fn('token::str_to_partial_tokens')
    if s is None:
        ctx.unrecognised('R6.2', 'str_to_partial_tokens', 'missing', 'not found')
        return
    from rules.c07 import char_paths
    try:
        paths = char_paths(prog, s)
    except Budget:
        ctx.unrecognised('R6.2', 'str_to_partial_tokens:quote-test', 'budget', 'too complex', span=s.span)
        return
    okk = True
    seen_q = 0
    for ch, ret, eff in paths:
        names = [e[0].split('::')[-1] for e in eff if not e[0].startswith('<')]
        if ch == '"':
            seen_q += 1
            okk = okk and 'parse_string_literal' in names and 'try_skip_comment' not in names and 'char_to_partial_token' not in names
            pushes = [e[2] for e in eff if not e[0].startswith('<') and e[0].split('::')[-1] == 'push' and len(e[2]) == 2]
            if ret[0] == 'backedge':
                okk = okk and len(pushes) == 1 and is_adt(pushes[0][1], 'token::PartialToken', 'Token') and is_adt(pushes[0][1][4][0], 'token::Token', 'String') and pushes[0][1][4][0][4] == (SYM('string_text'),)
            else:
                okk = okk and ret == ERR(SYM('string_error')) and not pushes
        else:
            okk = okk and 'parse_string_literal' not in names
    ctx.check(okk and seen_q >= 2, 'R6.2', 'str_to_partial_tokens:quote-first', 'dominance', 'a `"` starts the string scanner, whose token is pushed as it is (its error returned), and neither comment skipping nor operator recognition sees it; no other character enters the scanner', span=s.span)


ATTEMPTS = [('int', ('strip_prefix', 'from_hex_str', 'from_str::<', 'map_err')), ('float', ('parse::<<NumericTypes as value::numeric_types::EvalexprNumericTypes>::Float>(',)), ('bool', ('parse::<bool>(',))]


def classify_tests(p):
    """ordered list of literal classification attempts on a Literal path: [(kind, succeeded)]"""
    out = []
    for t in p['tests']:
        if not isinstance(t, tuple) or len(t) != 2 or not isinstance(t[0], str):
            continue
        s, taken = t
        if not s.startswith('discriminant('):
            continue
        ok = taken in ('0',)  # Result::Ok has discriminant 0
        if 'format(' in s or 'must_use(' in s:
            kind = 'join'
        elif 'from_hex_str' in s or 'from_str::<' in s or ('parse::<' in s and '::Int>' in s):
            kind = 'int'
        elif 'parse::<bool>' in s:
            kind = 'bool'
        elif 'parse::<' in s and 'Float' in s:
            kind = 'float'
        else:
            continue
        if any(k == kind for k, _ in out):
            continue  # re-read of the same result (drop elaboration)
        out.append((kind, ok))
    return out


def r63_65(ctx, prog):
    """R6.3 / R6.5 decided on the tokenizer table (rules/toksem.py): partial_tokens_to_tokens is interpreted on every sequence of up to
    three operator characters and on a word followed by every relevant continuation; see check_operator_table / check_words."""
    from rules import toksem
    try:
        toksem.check_operator_table(ctx, prog, 'R6.5')
        toksem.check_words(ctx, prog)
    except (ValueError, tables.TableError) as e:
        ctx.unrecognised('R6.5', 'partial_tokens_to_tokens', 'shape', 'tokenizer not recognised: %s' % e)
        return None
    return True


def r64(ctx, prog):
    """the integer attempt on a word, read off the second tokenizer stage interpreted on a single word (wherever the code lives:
    `parse_dec_or_hex`, a helper it was inlined into, or the big function itself): the only prefix test is `strip_prefix("0x")`;
    with the prefix the remainder goes to EvalexprInt::from_hex_str, without it the whole word goes to FromStr of the integer type;
    every path makes exactly one of the two attempts"""
    from rules import toksem
    ts = toksem.get(prog)
    f = ts.f
    w = SYM('w')
    try:
        ps = [p for p in ts.run((ts.P('Literal', 'w'),)) if p[0] != ('diverge',)]
    except Budget:
        ctx.unrecognised('R6.4', 'integer-attempt', 'budget', 'too complex', span=f.span)
        return
    prefixes, bad = set(), []
    n_hex = n_dec = 0
    for ret, eff in ps:
        # the name of the result term carries the type a generic std function was instantiated at (`from_str::<..::Int>`)
        calls = [((e[4][1] if (len(e) > 4 and e[4] is not None and e[4][0] == 'app') else e[0]), e[2]) for e in eff if not e[0].startswith('<')]
        strips = [(n, a) for n, a in calls if n.split('::')[-1].split('#')[0] == 'strip_prefix' and a and toksem._bare(a[0]) == w]
        for n, a in strips:
            prefixes.add(fmt(a[1]) if len(a) > 1 else '?')
        hexpath = any(v[0] == 'app' and v[1] == 'discriminant' and v[2][0][0] == 'app' and v[2][0][1].split('::')[-1] == 'strip_prefix' and t == C(1) for v, t in branches_of(eff))
        hexcalls = [a for n, a in calls if n.endswith('from_hex_str')]
        deccalls = [a for n, a in calls if ('from_str::<' in n or 'parse::<' in n) and n.rstrip('>').endswith('::Int')]
        if hexpath:
            n_hex += 1
            rest = P_SOME(('app', strips[0][0], tuple(strips[0][1]))) if strips else None
            hexcalls = [a for a in hexcalls if a]
            if not (len(hexcalls) >= 1 and all(a == (rest,) for a in hexcalls) and not deccalls):
                bad.append('with the prefix: from_hex_str%s, from_str%s' % ([fmt(a[0])[:50] for a in hexcalls], [fmt(a[0])[:30] for a in deccalls]))
        else:
            n_dec += 1
            if not (len(deccalls) >= 1 and all(toksem._bare(a[0]) == w for a in deccalls) and not hexcalls):
                bad.append('without the prefix: from_str%s, from_hex_str%s' % ([fmt(a[0])[:30] for a in deccalls], [fmt(a[0])[:50] for a in hexcalls]))
    ctx.check(prefixes == {"'0x'"}, 'R6.4', 'hex-prefix', 'prefix', 'the hexadecimal prefix is exactly "0x" (found %s)' % sorted(prefixes), span=f.span)
    ctx.check(n_hex >= 1 and not [b for b in bad if b.startswith('with the')], 'R6.4', 'hex-path', 'hex', 'with the prefix, the remainder is parsed by EvalexprInt::from_hex_str (%d paths; %s)' % (n_hex, bad[:2]), span=f.span)
    ctx.check(n_dec >= 1 and not [b for b in bad if b.startswith('without')], 'R6.4', 'dec-path', 'dec', 'without the prefix, the whole word is parsed by FromStr of the integer type (%d paths; %s)' % (n_dec, bad[:2]), span=f.span)
    h = [x for x in prog.fns if x.name == 'from_hex_str' and x.j.get('impl_self_ty') == 'i64']
    if len(h) != 1:
        ctx.unrecognised('R6.4', '<i64 as EvalexprInt>::from_hex_str', 'missing', 'not found')
        return
    ps = Interp(prog).paths(h[0], [SYM('literal')])
    s = [fmt(p[0]) for p in ps]
    oks = [r[4][0] for r in expand_results([p[0] for p in ps]) if is_adt(r, 'result::Result', 'Ok')]
    core = [(n, a) for v in oks for n, a in apps(v)]
    good = bool(oks) and all(v[0] == 'proj' and v[2] == ('as Ok', '0') and v[1][0] == 'app' and v[1][1].endswith('i64>::from_str_radix') and v[1][2] == (SYM('literal'), C(16)) for v in oks)
    ctx.check(good, 'R6.4', 'hex-radix', 'radix', 'from_hex_str is i64::from_str_radix(literal, 16) (%s)' % s, span=h[0].span)


def r67(ctx, prog):
    """A string token is written quoted and escaped (through `Debug`) by `Display for Token`, the other payload tokens through their own
    `Display`: the tokenizer re-assembles `<word><sign><next partial token>` through these Display impls when it tries the
    scientific-notation join, and only the quotes keep the content of a string literal from being read as the exponent of a number
    (`2e+"3"`), i.e. keep "a string literal denotes exactly its content" and "any other word is an identifier" apart."""
    from absint import tabulate
    try:
        f = tables.display_fn(prog, tables.TOKEN)
    except tables.TableError as e:
        ctx.unrecognised('R6.7', 'Display for Token', 'missing', str(e))
        return
    names = prog.variants(tables.TOKEN)
    t = tabulate(prog, f, tables.TOKEN, lambda a: [a, UNK])
    seen = 0
    for idx, (_val, eff) in t.items():
        nm = names[idx]
        if nm not in ('String', 'Identifier', 'Int', 'Float', 'Boolean'):
            continue
        seen += 1
        fmts = [e_[0] for e_ in eff if not e_[0].startswith('<') or '::fmt' in e_[0]]
        # handing a string payload to Formatter::pad / write_str is what `<str as Display>::fmt` does (pad) or its unpadded form
        raw = [e_[0] for e_ in eff if not e_[0].startswith('<') and 'Formatter' in e_[0] and e_[0].split('::')[-1] in ('pad', 'write_str')
               and len(e_[2]) > 1 and isinstance(e_[2][1], tuple) and e_[2][1][0] != 'c']
        fmts = [d for d in fmts if d.endswith('::fmt') or 'new_debug' in d or 'new_display' in d] + raw
        debug = [d for d in fmts if 'fmt::Debug' in d or 'new_debug' in d]
        display = [d for d in fmts if 'fmt::Display' in d or 'new_display' in d or d in raw]
        if nm == 'String':
            ctx.check(bool(debug) and not display, 'R6.7', 'Display:Token::String', 'quoted', 'a string token is displayed quoted and escaped (Debug), never as its bare content (formatting calls %s)' % [d[:70] for d in fmts], span=f.span)
        else:
            ctx.check(bool(display) and not debug, 'R6.7', 'Display:Token::' + nm, 'plain', 'a %s token is displayed through the Display of its payload (formatting calls %s)' % (nm, [d[:70] for d in fmts]), span=f.span)
    ctx.floor('R6.7', 'payload_tokens', seen, 5)


def r66(ctx, prog):
    try:
        sem = tables.token_semantics(prog)
    except tables.TableError as e:
        ctx.unrecognised('R6.6', 'token-semantics', 'shape', str(e))
        return
    f = sem['fn']
    for tv in ('Float', 'Int', 'Boolean', 'String'):
        built = set(sem['first'][tv]) | set(sem['after_value'][tv])
        want = None
        if len(built) == 1:
            b = list(built)[0]
            want = is_adt(b, 'operator::Operator', 'Const') and is_adt(b[4][0], 'value::Value', tv) and b[4][0][4] == (SYM('p'),)
        ctx.check(bool(want), 'R6.6', 'token:' + tv, 'payload', 'Token::%s(x) builds a Const node holding Value::%s(x) with the payload unchanged (built %s)' % (tv, tv, [fmt(b) for b in built]), span=f.span)
    ev = prog.fn('operator::Operator::<NumericTypes>::eval')
    op = prog.adt(tables.OPERATOR)
    cv = [v for v in op['variants'] if v['name'] == 'Const'][0]
    ps = Interp(prog, max_depth=2).paths(ev, [ADT(op['path'], cv['idx'], 'Const', [SYM('value')]), SYM('arguments'), SYM('context')])
    oks = [p for p in ps if is_adt(p[0], 'result::Result', 'Ok')]
    ctx.check(len(oks) == 1 and oks[0][0] == OK(SYM('value')), 'R6.6', 'eval:Const', 'const-arm', 'a Const node evaluates to a clone of its value (%s)' % [fmt(p[0]) for p in ps], span=ev.span)
