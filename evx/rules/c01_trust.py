"""Trusted-std-leaf table for C01 (reviewed; each entry carries its reason).

A panic leaf found in std/hashbrown code below a call edge that leaves evalexpr is *trusted* when it falls in a
class below or matches an entry keyed by (std API called from evalexpr, leaf container, leaf kind).  Keying by the
API evalexpr calls means that new uses of other APIs (Vec::remove, String::insert, step_by, i64::pow, RefCell, ...)
are not covered and their leaves are reported."""
import re

# ---- classes (by leaf kind / container)
CLASS_RULES = [
    ('ubcheck', lambda k, c: k == 'ubcheck',
     'library UB precondition checks (debug-assertion builds of std only): violating them would already be UB in release std; std upholds its own unsafe preconditions'),
    ('alloc', lambda k, c: k.startswith('diverge:') and any(x in k for x in ('alloc::raw_vec::handle_error', 'handle_alloc_error', 'capacity_overflow')),
     'allocation failure / capacity overflow: memory exhaustion is outside the property\'s quantifier (inputs bounded to 4096 chars)'),
    ('alloc-shim', lambda k, c: k.startswith('opaque:alloc::alloc::__rust_'), 'global allocator shims: return null on failure, never unwind'),
    ('hashbrown-alloc', lambda k, c: k in ('opaque:hashbrown::raw::Fallibility::alloc_err', 'opaque:hashbrown::raw::Fallibility::capacity_overflow'), 'hashbrown allocation failure paths (memory exhaustion)'),
    ('cmath', lambda k, c: k.startswith('opaque:std::sys::cmath::') or k.startswith('opaque:core::num::imp::libm::'), 'libm functions are total on f64 (return NaN/inf, never trap)'),
]

# intrinsics that cannot panic (explicit list; an intrinsic outside it is unclassified and fails closed)
INTRINSICS_OK = set('''atomic_fence atomic_xsub atomic_xadd atomic_load atomic_store atomic_cxchg atomic_cxchgweak atomic_xchg atomic_and atomic_or atomic_singlethreadfence align_of_val arith_offset assert_inhabited ceilf64 cold_path compare_bytes copy copy_nonoverlapping cosf64 ctlz ctlz_nonzero ctpop cttz cttz_nonzero
exp2f64 expf64 fabs fabsf64 floorf64 is_val_statically_known log10f64 log2f64 logf64 maximum_number_nsz_f64 minimum_number_nsz_f64 maxnumf64 minnumf64 powf64 ptr_offset_from
ptr_offset_from_unsigned rotate_left rotate_right roundf64 simd_bitmask simd_eq simd_gt simd_lt simd_or simd_splat sinf64 size_of_val sqrtf64
typed_swap_nonoverlapping write_bytes truncf64 rintf64 nearbyintf64 fmaf64 copysignf64 bswap bitreverse unlikely likely black_box
transmute size_of align_of needs_drop type_id type_name forget discriminant_value wrapping_add wrapping_sub wrapping_mul saturating_add saturating_sub
add_with_overflow sub_with_overflow mul_with_overflow unchecked_add unchecked_sub unchecked_mul unchecked_shl unchecked_shr exact_div three_way_compare
raw_eq ptr_guaranteed_cmp ptr_mask offset volatile_load volatile_store select_unpredictable const_eval_select ub_checks contract_checks
read_via_copy write_via_move slice_get_unchecked aggregate_raw_ptr ptr_metadata variant_count round_ties_even_f64 float_to_int_unchecked
disjoint_bitor carrying_mul_add overflow_checks'''.split())
# note: assert_inhabited only panics for uninhabited T; every use below evalexpr is on inhabited types (MaybeUninit::assume_init on concrete types)

# opaque (no MIR available) std functions evalexpr reaches today, each assumed total
OPAQUE_OK = {
    '<std::string::String as std::clone::Clone>::clone': 'allocation only',
    'std::str::<impl str>::to_lowercase': 'total on valid UTF-8',
    'std::str::<impl str>::to_uppercase': 'total on valid UTF-8',
    'core::num::float_parse::<impl std::str::FromStr for f64>::from_str': 'returns Err on malformed input (documented never to panic)',
    'core::num::dec2flt::<impl std::str::FromStr for f64>::from_str': 'returns Err on malformed input (documented never to panic)',
    '<bool as std::fmt::Display>::fmt': 'formatting primitives: only propagate the writer\'s fmt::Error',
    '<char as std::fmt::Display>::fmt': 'formatting primitives',
    '<str as std::fmt::Display>::fmt': 'formatting primitives',
    '<str as std::fmt::Debug>::fmt': 'formatting primitives',
    'core::fmt::float::<impl std::fmt::Display for f64>::fmt': 'formatting primitives',
    'core::fmt::float::<impl std::fmt::Debug for f64>::fmt': 'formatting primitives',
    'core::fmt::num::imp::<impl std::fmt::Display for i64>::fmt': 'formatting primitives',
    'core::fmt::num::imp::<impl std::fmt::Display for usize>::fmt': 'formatting primitives',
    'core::fmt::num::imp::<impl std::fmt::Display for u64>::fmt': 'formatting primitives',
    'core::fmt::num::imp::<impl u64>::_fmt': 'formatting primitives',
    'core::fmt::num::<impl std::fmt::LowerHex for i64>::fmt': 'formatting primitives',
    'core::fmt::num::<impl std::fmt::UpperHex for i64>::fmt': 'formatting primitives',
    'core::fmt::num::<impl std::fmt::LowerHex for usize>::fmt': 'formatting primitives',
    'core::fmt::num::<impl std::fmt::UpperHex for usize>::fmt': 'formatting primitives',
    'std::fmt::write': 'core formatting driver: only propagates fmt::Error',
    'std::fmt::format::format_inner': 'formats into a String (infallible writer)',
    "std::fmt::Formatter::<'a>::write_str": 'forwards to the writer',
    "std::fmt::Formatter::<'a>::debug_list": 'debug builders', "std::fmt::DebugList::<'a, 'b>::entry": 'debug builders', "std::fmt::DebugList::<'a, 'b>::finish": 'debug builders',
    "std::fmt::Formatter::<'a>::debug_map": 'debug builders', "std::fmt::DebugMap::<'a, 'b>::entry": 'debug builders', "std::fmt::DebugMap::<'a, 'b>::finish": 'debug builders',
    "std::fmt::Formatter::<'a>::debug_struct_field1_finish": 'debug builders', "std::fmt::Formatter::<'a>::debug_struct_field2_finish": 'debug builders',
    "std::fmt::Formatter::<'a>::debug_struct_field3_finish": 'debug builders', "std::fmt::Formatter::<'a>::debug_struct_field4_finish": 'debug builders',
    "std::fmt::Formatter::<'a>::debug_tuple_field1_finish": 'debug builders', "std::fmt::Formatter::<'a>::debug_tuple_field2_finish": 'debug builders',
    "std::fmt::Formatter::<'a>::pad": 'formatting primitives', "std::fmt::Formatter::<'a>::pad_integral": 'formatting primitives',
}

# feature-scoped opaque entry points
OPAQUE_FEATURE_OK = {
    'regex': [(re.compile(r'^regex::'), 'regex crate entry points: Regex::new reports bad patterns as Err; matching/replacing are total (trusted foreign crate)'),
              (re.compile(r'^(regex_automata|regex_syntax|aho_corasick|memchr)::'), 'regex implementation crates (trusted foreign crate)')],
    'rand': [(re.compile(r'^(rand|rand_core|rand_chacha|getrandom|ppv_lite86)::'), 'rand::random: ASSUMED - may panic only if the OS provides no entropy')],
    'serde': [(re.compile(r'^(serde|serde_core)::'), 'serde trait plumbing; (de)serializer behaviour is the caller\'s')],
}

# dependencies pulled in by optional features: their internals are a trusted base like std (the walk stops at the crate boundary)
FOREIGN = [
    ('regex', {'regex', 'regex_automata', 'regex_syntax', 'aho_corasick', 'memchr'}, 'regex crate: Regex::new reports bad patterns as Err; is_match/replace_all are total (trusted dependency)'),
    ('rand', {'rand', 'rand_core', 'rand_chacha', 'getrandom', 'ppv_lite86', 'libc'}, 'rand::random: ASSUMED - may panic only if the OS provides no entropy (trusted dependency)'),
    ('serde', {'serde', 'serde_core', 'serde_derive'}, 'serde trait plumbing: (de)serializer behaviour is the caller\'s (trusted dependency)'),
]

# ---- entries keyed by (API called from evalexpr [regex on def path], leaf container [regex], leaf kind [regex]) -> reason
ENTRIES = [
    (r'(Into<U>>::into|Vec<T, A> as std::clone::Clone>::clone|From<&\[T\]>>::from|From<&str>>::from|ToString>::to_string|slice::<impl \[T\]>::to_vec)$', r'ConvertVec>::to_vec$', r'^assert:BoundsCheck$',
     'to_vec writes slots[i] for i < len into spare capacity allocated with exactly len slots'),
    (r'(Into<U>>::into|Vec<T, A> as std::clone::Clone>::clone|From<&\[T\]>>::from|slice::<impl \[T\]>::to_vec)$', r'Enumerate<I> as std::iter::Iterator>::next$', r'^assert:Overflow$',
     'enumerate over a slice: count bounded by slice length <= isize::MAX'),
    (r'ToString>::to_string$', r'Result::<T, E>::expect$', r'^diverge:std::result::unwrap_failed$',
     'ToString panics only if a Display impl returns Err spuriously; evalexpr\'s Display impls return Err only when the (String) writer does, which it never does'),
    (r'(ToString>::to_string|String::push_str|String::push)$', r"slice::Iter::<'a, T>::make_slice$", r'^diverge:core::panicking::panic$',
     'internal invariant of slice::Iter (end >= start)'),
    (r'ToString>::to_string$', r'char::encode_utf8_raw$', r'^diverge:std::char::encode_utf8_raw::do_panic',
     'char::to_string encodes into a buffer sized by len_utf8'),
    (r'HashMap<K, V, S, A> as std::clone::Clone>::clone$', r'^hashbrown::raw::', r'^(assert:DivisionByZero|diverge:core::panicking::panic)$',
     'hashbrown table layout arithmetic on its own non-zero constants / internal invariants'),
    (r'HashMap<K, V, S> as std::default::Default>::default$|^std::collections::HashMap::<K, V>::(new|with_capacity)$', r'std::thread::LocalKey::<T>::(with|try_with)$', r'^(diverge:std::thread::local::panic_access_error|indirect)$',
     'RandomState::new reads a thread-local seed; panics only during thread-local destruction (ASSUMED: evaluation is not run from a TLS destructor)'),
    (r'HashMap::<K, V, S, A>::(insert|get|get_mut|remove|contains_key|entry)$|HashMap<K, V, S, A> as std::clone::Clone>::clone$', r'^(hashbrown::raw::|<std::ops::Range<usize> as std::iter::adapters::step_by|std::iter::StepBy::<I>::new)', r'^(assert:(DivisionByZero|RemainderByZero|Overflow)|diverge:core::panicking::panic|indirect)$',
     'hashbrown rehash: step_by(Group::WIDTH) with a non-zero constant, capacity arithmetic bounded by allocation limits, hasher closure built in place'),
    (r'HashMap::<K, V, S, A>::(insert|get|get_mut|remove|contains_key|entry|get_key_value|remove_entry)$|hash_map::Entry::<.*>::(or_insert|or_insert_with|or_default)$', r'^std::ops::Fn(Mut|Once)?::call', r'^virtual:std::ops::Fn',
     'hashbrown passes its own eq/hash closures as &mut dyn FnMut; those closures are entered where they are built'),
    (r'Vec<T, A> as std::iter::Extend<T>>::extend$', r'Vec::<T, A>::extend_trusted$', r'^diverge:std::rt::panic_fmt$',
     'capacity overflow for TrustedLen iterators longer than usize::MAX (memory exhaustion class)'),
    (r'core::num::<impl std::str::FromStr for i64>::from_str$', r'(from_ascii_radix|char>::to_digit)$', r'^diverge:',
     'FromStr for i64 passes the constant radix 10 (valid)'),
    (r'str>::get$', r'SliceIndex<str> for std::ops::Range<usize>>::get$', r'^assert:BoundsCheck$',
     'str::get is documented never to panic: is_char_boundary (inlined) indexes bytes[i] only after checking i < len'),
    (r'str>::strip_prefix$', r'slice::<impl \[T\]>::starts_with$', r'^diverge:core::slice::index::slice_index_fail$',
     'starts_with slices [..n] only after checking len >= n'),
    (r'(str>::trim|char>::is_whitespace|str>::trim_start|str>::trim_end)$', r'unicode_data::white_space::lookup$', r'^assert:BoundsCheck$',
     'Unicode whitespace table indexed by c >> 8 guarded by a match on the high bits'),
    (r'str>::trim$', r'ExactSizeIterator>::len$', r'^diverge:core::panicking::panic$',
     'ExactSizeIterator::len asserts size_hint consistency of slice::Iter (std invariant)'),
    (r'^std::ptr::drop_in_place$', r'vec::IntoIter', r'^diverge:core::panicking::(assert_failed|panic)$',
     'debug assertions on vec::IntoIter internal invariants during drop'),
    (r'^std::ptr::drop_in_place$', r'std::sync::atomic::fence$', r'^diverge:std::rt::panic_fmt$',
     'Arc::drop issues fence(Acquire): the panic is for the constant Relaxed ordering only'),
    (r"Formatter::<'a>::write_fmt$|^std::fmt::format$|Debug>::fmt$|Display>::fmt$", r'std::fmt::Write::write_str$', r'^virtual:std::fmt::Write::write_str$',
     'formatting writes to the caller\'s writer (ASSUMED not to panic: String / stdout formatters only return Err)'),
    (r'Box<F, A> as std::ops::Fn<Args>>::call$|^std::ops::Fn::call$', r'^std::ops::Fn::call$', r'^virtual:std::ops::Fn::call$',
     'call of a stored Function: user closures are the property\'s assumption boundary; builtin closures are entered where builtin_function builds them'),
]
ENTRIES = [(re.compile(a), re.compile(c), re.compile(k), why) for a, c, k, why in ENTRIES]

# ---- std APIs documented to be total (no "# Panics" section, no caller contract): every panic leaf found below a direct
# call to one of these is std's own internal invariant (sorting, searching, iterator adaptors, UTF-8 handling, ...).
# Caller-contract APIs are deliberately NOT listed: index/index_mut, unwrap/expect, swap_remove/remove/insert/drain/split_off,
# windows/chunks*/split_at*/copy_from_slice/swap/rotate_*, String::truncate/insert/remove, clamp, to_digit/from_digit/
# from_str_radix (radix), step_by, Iterator::sum/product, non-checked integer arithmetic (+ - * / % << >> abs pow neg),
# RefCell::borrow*, div_euclid/rem_euclid on integers.
_STR = r'(chars|char_indices|bytes|len|is_empty|contains|starts_with|ends_with|find|rfind|split|rsplit|splitn|rsplitn|split_once|rsplit_once|split_whitespace|split_terminator|lines|trim|trim_start|trim_end|trim_matches|trim_start_matches|trim_end_matches|strip_prefix|strip_suffix|to_lowercase|to_uppercase|to_ascii_lowercase|to_ascii_uppercase|to_owned|to_string|replace|replacen|get|is_char_boundary|eq_ignore_ascii_case|parse|as_bytes|as_ptr|matches|match_indices|is_ascii|escape_debug|escape_default)'
_SLICE = r'(len|is_empty|iter|iter_mut|first|last|first_mut|last_mut|get|get_mut|contains|to_vec|sort|sort_by|sort_by_key|sort_unstable|sort_unstable_by|sort_unstable_by_key|reverse|join|concat|starts_with|ends_with|binary_search|binary_search_by|binary_search_by_key|split_first|split_last|into_vec|is_sorted|fill)'
_VEC = r'(new|with_capacity|push|pop|len|is_empty|clear|extend_from_slice|dedup|dedup_by|dedup_by_key|retain|retain_mut|truncate|into_boxed_slice|as_slice|as_mut_slice|capacity|reserve|shrink_to_fit|append|into_iter|from_elem|resize)'
_STRING = r'(new|with_capacity|push|push_str|pop|len|is_empty|clear|as_str|as_mut_str|into_bytes|from_utf8_lossy|from_utf8|capacity|reserve|shrink_to_fit|into_boxed_str|as_bytes|retain)'
_ITER = r'(next|next_back|count|collect|map|filter|filter_map|any|all|find|find_map|position|rposition|max|min|max_by|min_by|max_by_key|min_by_key|fold|try_fold|rev|skip|take|skip_while|take_while|zip|enumerate|cloned|copied|chain|flat_map|flatten|last|nth|for_each|try_for_each|peekable|peek|size_hint|by_ref|inspect|fuse|partition|unzip|cmp|partial_cmp|eq|ne|lt|le|gt|ge|into_iter|scan|map_while|cycle|rfold|rfind|nth_back|len|is_empty|extend)'
_OPT = r'(map|and_then|or|or_else|xor|unwrap_or|unwrap_or_else|unwrap_or_default|ok|err|map_err|map_or|map_or_else|is_some|is_none|is_some_and|is_ok|is_err|as_ref|as_mut|as_deref|as_deref_mut|cloned|copied|ok_or|ok_or_else|take|replace|filter|zip|and|iter|iter_mut|get_or_insert_with|insert|transpose|flatten|then|then_some|into_owned|is_ok_and|is_err_and|inspect|inspect_err)'
_INT = r'(checked_\w+|(wrapping|saturating|overflowing)_(?!div|rem)\w+|count_ones|count_zeros|leading_zeros|trailing_zeros|signum|is_positive|is_negative|to_string|min|max|cmp|partial_cmp|unsigned_abs|abs_diff|to_le_bytes|to_be_bytes|from_le_bytes|from_be_bytes|rotate_left|rotate_right|swap_bytes|is_power_of_two)'
_FLOAT = r'(abs|sqrt|cbrt|powf|powi|exp|exp2|exp_m1|ln|ln_1p|log|log2|log10|sin|cos|tan|asin|acos|atan|atan2|sinh|cosh|tanh|asinh|acosh|atanh|hypot|floor|ceil|round|round_ties_even|trunc|fract|mul_add|min|max|rem_euclid|div_euclid|is_nan|is_finite|is_infinite|is_normal|is_sign_negative|is_sign_positive|signum|copysign|to_bits|from_bits|recip|to_degrees|to_radians|total_cmp|partial_cmp|sin_cos|minimum|maximum)'
_CHAR = r'(is_\w+|to_lowercase|to_uppercase|to_ascii_lowercase|to_ascii_uppercase|len_utf8|len_utf16|eq_ignore_ascii_case|to_string)'
_MAP = r'(new|default|with_capacity|insert|get|get_mut|get_key_value|remove|remove_entry|contains_key|entry|keys|values|values_mut|iter|iter_mut|len|is_empty|clear|retain|drain|extend|or_insert|or_insert_with|or_insert_with_key|or_default|and_modify|key|into_keys|into_values|reserve|shrink_to_fit)'
TOTAL_APIS = [re.compile(x) for x in [
    r'^(core|std)::str::<impl str>::' + _STR + '$',
    r'^(core|std)::slice::<impl \[T\]>::' + _SLICE + '$',
    r'^std::vec::Vec::<T, A>::' + _VEC + '$', r'^std::vec::from_elem$',
    r'^std::string::String::' + _STRING + '$',
    r'^std::iter::(Iterator|DoubleEndedIterator|ExactSizeIterator|IntoIterator|Extend|FromIterator)::' + _ITER + '$',
    r'^<(std|core)::(slice|str|iter|vec|option|result|collections|string|char|ops|array)::.* as std::iter::(Iterator|DoubleEndedIterator|ExactSizeIterator|IntoIterator|Extend<[^>]*>|FromIterator<[^>]*>)>::' + _ITER + '$',
    r'^<&.* as std::iter::IntoIterator>::into_iter$', r'^<I as std::iter::IntoIterator>::into_iter$', r'^<&mut I as std::iter::Iterator>::' + _ITER + '$',
    r'^std::iter::Peekable::<I>::(peek|peek_mut|next_if|next_if_eq)$',
    r'^std::str::(Chars|CharIndices)(::<[^>]*>)?::(as_str|offset)$',
    r"^std::fmt::Formatter::<'a>::(debug_struct|debug_tuple|debug_list|debug_set|debug_map|write_str|write_fmt|pad|alternate|width|precision)$",
    r"^std::fmt::(DebugStruct|DebugTuple|DebugList|DebugSet|DebugMap)::<'a, 'b>::(field|finish|finish_non_exhaustive|entry|entries|key|value)$",
    r'^std::(option::Option|result::Result)::<[^>]*>::' + _OPT + '$',
    r'^(core|std)::num::<impl (i|u)(8|16|32|64|128|size)>::' + _INT + '$',
    r'^(core|std)::f(32|64)::<impl f(32|64)>::' + _FLOAT + '$',
    r'^(core|std)::char::methods::<impl char>::' + _CHAR + '$',
    r'^std::collections::(HashMap|hash_map::Entry|hash_map::OccupiedEntry|hash_map::VacantEntry|BTreeMap|HashSet|BTreeSet)::<[^>]*>::' + _MAP + '$',
    r'^std::(fmt::format|fmt::Arguments::<\'a>::(new|new_const|from_str|from_str_nonconst|new_v1|as_str)|hint::must_use|mem::(take|replace|swap|discriminant|drop|forget)|boxed::Box::<T>::(new|new_uninit)|borrow::Cow::<[^>]*>::(into_owned|to_mut|is_borrowed|is_owned)|convert::identity|cmp::(min|max|Ord::(min|max|cmp)|PartialOrd::(partial_cmp|lt|le|gt|ge)|PartialEq::(eq|ne)))$',
    r'^core::fmt::rt::Argument::<\'_>::(new_display|new_debug|new_lower_hex|new_upper_hex)$',
    r'^<.* as std::(clone::Clone>::clone|default::Default>::default|cmp::PartialEq(<[^>]*>)?>::(eq|ne)|cmp::PartialOrd(<[^>]*>)?>::(partial_cmp|lt|le|gt|ge)|cmp::Ord>::(cmp|min|max)|string::ToString>::to_string|borrow::ToOwned>::to_owned|ops::Deref>::deref|ops::DerefMut>::deref_mut|convert::AsRef<[^>]*>>::as_ref|borrow::Borrow<[^>]*>>::borrow|hash::Hash>::hash|str::FromStr>::from_str|fmt::(Display|Debug|Write)>::(fmt|write_str|write_char|write_fmt))$',
    r'^<(std::string::String|std::vec::Vec<[^>]*>|std::boxed::Box<[^>]*>|&str|std::borrow::Cow<[^>]*>) as std::convert::(From|Into)<[^>]*>>::(from|into)$',
    r'^<T as std::convert::(Into|From)<[^>]*>>::(into|from)$',
]]


def is_total_api(api):
    return any(rx.search(api) for rx in TOTAL_APIS)


def classify(api_defs, leaf, features=()):
    """returns (trusted: bool, reason/class). api_defs: def paths of the std API called from evalexpr at this site."""
    k, c = leaf['kind'], leaf['container']
    for name, pred, why in CLASS_RULES:
        if pred(k, c):
            return True, 'class:' + name
    if not (k.startswith('virtual:') or k == 'indirect' or k.startswith('unresolved') or k.startswith('unsize') or k == 'inline_asm' or k == 'thread_local' or k.startswith('foreign:')):
        if api_defs and all(is_total_api(a) for a in api_defs):
            return True, 'total-api:std API documented never to panic (internal invariant of std below it)'
    if k.startswith('intrinsic:'):
        n = k.split(':', 1)[1]
        if n in INTRINSICS_OK:
            return True, 'class:intrinsic'
        return False, 'unclassified intrinsic'
    if k.startswith('foreign:'):
        crate = k.split(':', 1)[1]
        for feat, crates, why in FOREIGN:
            if crate in crates and feat in features:
                return True, 'foreign:' + why
        return False, 'call into a foreign crate that no enabled feature accounts for'
    if k.startswith('opaque:'):
        d = k.split(':', 1)[1]
        if d in OPAQUE_OK:
            return True, 'opaque:' + OPAQUE_OK[d]
        for feat in features:
            for rx, why in OPAQUE_FEATURE_OK.get(feat, []):
                if rx.search(d):
                    return True, 'opaque-feature:' + why
        return False, 'unclassified opaque std function'
    for api in api_defs:
        for ra, rc, rk, why in ENTRIES:
            if ra.search(api) and rc.search(c) and rk.search(k):
                return True, 'entry:' + why
    return False, 'no trusted entry for (API, container, kind)'


def all_reasons():
    out = [('class:' + n, why) for n, _, why in CLASS_RULES]
    out += [('entry', why) for _, _, _, why in ENTRIES]
    return out
