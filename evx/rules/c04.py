"""C04 — variables keep the last value; HashMapContext is type safe (clause level).

R4.1 field-effect table of the HashMapContext methods (which map / flag each method reads or writes);
R4.2 set_value, exhaustively over (lookup hit/miss) x (type of existing value) x (type of new value): same type => the stored
     value is overwritten and Ok; different type => Err(expected_<existing type>(new value)), nothing written; miss => insert;
R4.3 ValueType::from is the identity on variant names; EvalexprError::expected_type maps each type to its own error;
R4.4 op-assign in Operator::eval_mut: `X op= e` reads X, applies exactly operator `op`, writes the result back to X, and every
     successful return passes through set_value;
R4.5 clones are independent: Clone is derived and no shared ownership / reference type occurs in any field;
R4.6 set_function: the given function is stored under the identifier whether or not the name was bound (last binding wins), Ok(()).
Not decided: that HashMap is a map (trusted std) and what right-hand sides evaluate to (C03)."""
import tables
from absint import Interp, SYM, C, ADT, OK, ERR, SOME, NONE, UNK, Fork, fmt, is_adt, Budget
from mirlib import short, path_endswith
from rules.c09 import ctx_method
from rules.treepaths import branches_of

EXPLANATION = ('abstract interpretation of every HashMapContext method (effect table on its three fields), exhaustive path enumeration of set_value over '
               'lookup x existing type x new type (73 classes), tabulation of ValueType::from / expected_type, case-split interpretation of the nine '
               'assignment arms of Operator::eval_mut, and a type walk for clone independence')

ASSIGN_OP = {'AddAssign': 'Add', 'SubAssign': 'Sub', 'MulAssign': 'Mul', 'DivAssign': 'Div', 'ModAssign': 'Mod', 'ExpAssign': 'Exp', 'AndAssign': 'And', 'OrAssign': 'Or'}


def effects_on_self(paths):
    reads, writes = set(), set()
    for ret, eff in paths:
        for e in eff:
            if e[0] == '<store-field>' and e[2][0] == SYM('self'):
                writes.add(e[2][1][1][0])
            elif not e[0].startswith('<'):
                nm = e[0].split('::')[-1]
                for a in e[2][:1]:
                    if a[0] == 'proj' and a[1] == SYM('self'):
                        fld = a[2][0]
                        if nm in ('insert', 'clear', 'remove', 'get_mut', 'retain', 'drain', 'extend', 'entry'):
                            writes.add(fld)
                        else:
                            reads.add(fld)
        r = ret
        if r[0] == 'proj' and r[1] == SYM('self'):
            reads.add(r[2][0])
    return reads, writes


def run(ctx):
    prog = ctx.prog()
    ctx.trust('rustc nightly MIR of /repo; std HashMap semantics (get/get_mut/insert/clear/iter/keys)')
    r41(ctx, prog)
    r42(ctx, prog)
    r43(ctx, prog)
    r44(ctx, prog)
    r45(ctx, prog)
    r46(ctx, prog)
    # R4.7 an assignment made by an expression is applied through every mutable entry point: each `_mut` (and context-free) typed or
    # string-level entry point reaches the *mutable* root evaluator, once, with the context it was given (the base-call part of the C12
    # entry-point analysis) - a typed `_mut` wrapper that calls the immutable evaluator answers ContextNotMutable and assigns nothing
    from rules.c08 import r87
    r87(ctx, prog, rule='R4.7', only_mut=True)


def r46(ctx, prog):
    """set_function binds the name to the function it is given, whether or not the name was bound before (the function lookup of the
    abstract map model: last binding wins), on its single path, returning Ok(()); the map it writes is `self.functions`."""
    f = ctx_method(prog, 'HashMapContext', 'set_function', 'context::ContextWithMutableFunctions')
    if f is None:
        ctx.unrecognised('R4.6', 'HashMapContext::set_function', 'missing', 'method not found')
        return
    ident, func = SYM('identifier'), SYM('function')
    for hit in (True, False):
        log = []
        existing = SYM('old_function')
        try:
            ps = [p for p in Interp(prog, hook=map_model(hit, existing, log)).paths(f, [SYM('self'), ident, func]) if p[0] != ('diverge',)]
        except Budget:
            ctx.unrecognised('R4.6', 'set_function[%s]' % ('bound' if hit else 'unbound'), 'budget', 'too complex', span=f.span)
            continue
        good = len(ps) == 1 and ps[0][0] == OK(('tuple', ()))
        w = []
        if good:
            eff = ps[0][1]
            w = [('overwrite', e[2][1]) for e in eff if e[0] == '<store>' and e[2][0] == existing] + [x for x in log if x[0] in ('overwrite', 'insert', 'remove')]
            keys = {fmt(x[1]) for x in log if x[0] == 'lookup'}
            good = (w == [('overwrite', func)] if hit else w == [('insert', ident, func)]) and keys <= {fmt(ident)}
        ctx.check(good, 'R4.6', 'set_function[%s]' % ('bound' if hit else 'unbound'), 'last-binding-wins',
                  'set_function stores the given function under the identifier %s and returns Ok(()) (paths %d, map writes %s)' % ('replacing the earlier binding' if hit else 'as a new binding', len(ps), [(x[0], fmt(x[-1])) for x in w]), span=f.span)
    ps = Interp(prog).paths(f, [SYM('self'), ident, func])
    maps = {fmt(e[2][0]) for ret, eff in ps for e in eff if not e[0].startswith('<') and 'HashMap' in e[0] and e[0].split('::')[-1] in ('get_mut', 'get', 'entry', 'insert', 'contains_key') and e[2]}
    ctx.check(maps == {fmt(('proj', SYM('self'), ('functions',)))}, 'R4.6', 'set_function[map]', 'lookup', 'the binding is written to `self.functions` only (found %s)' % sorted(maps), span=f.span)
    # clearing forgets everything: each clear_* empties exactly its map(s) with HashMap::clear (or replaces them by new empty maps) on its
    # single path, and does nothing else to the context
    M = 'context::HashMapContext::<NumericTypes>::'
    for name, fields in (('clear_variables', {'variables'}), ('clear_functions', {'functions'}), ('clear', {'variables', 'functions'})):
        g = prog.fn(M + name)
        if g is None:
            ctx.unrecognised('R4.6', 'HashMapContext::' + name, 'missing', 'method not found')
            continue
        try:
            ps = [p for p in Interp(prog).paths(g, [SYM('self')]) if p[0] != ('diverge',)]
        except Budget:
            ctx.unrecognised('R4.6', 'HashMapContext::' + name, 'budget', 'too complex', span=g.span)
            continue
        cleared, other = set(), []
        for ret, eff in ps:
            for e in eff:
                if e[0] == '<store-field>' and e[2][0] == SYM('self'):
                    fld = e[2][1][1][0]
                    v_ = e[2][2]
                    if v_[0] == 'app' and v_[1].split('::')[-1].split('#')[0] in ('new', 'default') and not v_[2]:
                        cleared.add(fld)
                    else:
                        other.append('%s = %s' % (fld, fmt(v_)[:60]))
                elif not e[0].startswith('<') and e[2] and e[2][0][0] == 'proj' and e[2][0][1] == SYM('self'):
                    nm = e[0].split('::')[-1]
                    if nm == 'clear' and 'HashMap' in e[0] and len(e[2]) == 1:
                        cleared.add(e[2][0][2][0])
                    else:
                        other.append('%s(%s)' % (nm, e[2][0][2][0]))
        ctx.check(len(ps) == 1 and cleared == fields and not other, 'R4.6', 'HashMapContext::' + name, 'clears', '%s empties exactly %s and touches nothing else (paths %d, emptied %s, other uses %s)' % (name, sorted(fields), len(ps), sorted(cleared), other[:3]), span=g.span)


def r41(ctx, prog):
    M = 'context::HashMapContext::<NumericTypes>::'
    table = [
        # (function lookup, n_args, reads, writes)
        (('inherent', 'clear_variables'), 1, set(), {'variables'}),
        (('inherent', 'clear_functions'), 1, set(), {'functions'}),
        (('inherent', 'clear'), 1, set(), {'variables', 'functions'}),
        (('context::Context', 'get_value'), 2, {'variables'}, set()),
        (('context::Context', 'call_function'), 3, {'functions'}, set()),
        (('context::Context', 'are_builtin_functions_disabled'), 1, {'without_builtin_functions'}, set()),
        (('context::Context', 'set_builtin_functions_disabled'), 2, set(), {'without_builtin_functions'}),
        (('context::ContextWithMutableVariables', 'set_value'), 3, set(), {'variables'}),
        (('context::ContextWithMutableFunctions', 'set_function'), 3, set(), {'functions'}),
        (('context::IterateVariablesContext', 'iter_variables'), 1, {'variables'}, set()),
        (('context::IterateVariablesContext', 'iter_variable_names'), 1, {'variables'}, set()),
    ]
    n = 0
    for (tr, name), nargs, reads, writes in table:
        f = prog.fn(M + name) if tr == 'inherent' else ctx_method(prog, 'HashMapContext', name, tr)
        if f is None:
            ctx.unrecognised('R4.1', 'HashMapContext::' + name, 'missing', 'method not found')
            continue
        n += 1
        try:
            ps = Interp(prog).paths(f, [SYM('self')] + [SYM('a%d' % i) for i in range(1, nargs)])
        except Budget:
            ctx.unrecognised('R4.1', 'HashMapContext::' + name, 'budget', 'too complex', span=f.span)
            continue
        r, w = effects_on_self(ps)
        ctx.check(r == reads and w == writes, 'R4.1', 'HashMapContext::' + name, 'field-effects',
                  '%s reads %s and writes %s (found reads %s, writes %s)' % (name, sorted(reads), sorted(writes), sorted(r), sorted(w)), span=f.span)
        if name in ('iter_variables', 'iter_variable_names'):
            calls = [e[0].split('::')[-1] for ret, eff in ps for e in eff if not e[0].startswith('<')]
            allowed = {'iter', 'map', 'keys', 'cloned'}
            ctx.check(set(calls) <= allowed, 'R4.1', 'HashMapContext::%s:adaptors' % name, 'filtering', 'the variable listing applies no filtering adaptor (calls %s)' % calls, span=f.span)
        if name == 'set_builtin_functions_disabled':
            st = [e for ret, eff in ps for e in eff if e[0] == '<store-field>']
            ctx.check(len(st) == 1 and st[0][2][2] == SYM('a1'), 'R4.1', 'HashMapContext::set_builtin_functions_disabled:value', 'stored-value', 'the stored switch is the parameter', span=f.span)
    ctx.floor('R4.1', 'hashmap_context_methods', n, 11)
    # the closure of iter_variables clones both components unchanged
    f = ctx_method(prog, 'HashMapContext', 'iter_variables', 'context::IterateVariablesContext')
    if f is not None:
        # the callable handed to `map`: a closure or a function item
        captured = []

        def cap(it, fn, t, args, captured=captured):
            c = t['callee']
            if c['name'] == 'map' and not c.get('local') and len(args) == 2:
                captured.append(args[1])
            return None
        Interp(prog, hook=cap).paths(f, [SYM('self')])
        good = False
        if len(captured) == 1 and captured[0][0] in ('closure', 'fn'):
            res = Interp(prog).apply_callable(captured[0], [('tuple', (SYM('name'), SYM('value')))], 0)
            ps = res[1] if (isinstance(res, tuple) and res and res[0] == 'paths') else ([(res, ())] if res is not None else [])
            good = len(ps) == 1 and ps[0][0] == ('tuple', (SYM('name'), SYM('value')))
        ctx.check(good, 'R4.1', 'HashMapContext::iter_variables:closure', 'listing', 'the listing yields (name.clone(), value.clone()) for every entry', span=f.span)


def map_model(hit, existing, log):
    """abstract std::collections::HashMap for one key: `hit` says whether the key is present (holding `existing`); every lookup
    records the key it used, every mutation is logged: ('overwrite', value) | ('insert', key, value) | ('remove', key).
    Writes through a reference obtained from get_mut / OccupiedEntry::get_mut show up as '<store>' effects on `existing`."""
    ENTRY = 'std::collections::hash_map::Entry'

    def hook(it, fn, t, args):
        c = t['callee']
        d, nm = c['def'], c['name']
        if c.get('local') or not ('HashMap' in d or 'hash_map' in d):
            return None
        if 'OccupiedEntry' in d:
            if nm in ('get', 'get_mut', 'into_mut'):
                return existing
            if nm == 'insert':
                log.append(('overwrite', args[1]))
                return existing
            if nm in ('remove', 'remove_entry'):
                log.append(('remove', None))
                return existing
            return UNK
        if 'VacantEntry' in d:
            key = args[0][2][1] if args and args[0][0] == 'app' and len(args[0][2]) == 2 else UNK
            if nm == 'insert':
                log.append(('insert', key, args[1]))
                return args[1]
            if nm in ('key', 'into_key'):
                return key
            return UNK
        if 'Entry<' in d or d.split('::<')[0].endswith('Entry'):
            key = args[0][4][0][2][1] if args and args[0][0] == 'adt' and args[0][4] and args[0][4][0][0] == 'app' else UNK
            if nm == 'or_insert' and len(args) == 2:
                if hit:
                    return existing
                log.append(('insert', key, args[1]))
                return args[1]
            if nm == 'key':
                return key
            return UNK
        if nm in ('get', 'get_mut', 'get_key_value') and len(args) == 2:
            log.append(('lookup', args[1]))
            return SOME(existing) if hit else NONE
        if nm == 'contains_key' and len(args) == 2:
            log.append(('lookup', args[1]))
            return C(bool(hit))
        if nm == 'entry' and len(args) == 2:
            log.append(('lookup', args[1]))
            tok = ('app', 'entry', (args[0], args[1]))
            return ADT(ENTRY, 0, 'Occupied', [tok]) if hit else ADT(ENTRY, 1, 'Vacant', [tok])
        if nm == 'insert' and len(args) == 3:
            log.append(('lookup', args[1]))
            log.append(('overwrite', args[2]) if hit else ('insert', args[1], args[2]))
            return SOME(existing) if hit else NONE
        if nm in ('remove', 'remove_entry') and len(args) == 2:
            log.append(('remove', args[1]))
            return SOME(existing) if hit else NONE
        if nm in ('len', 'is_empty', 'capacity', 'reserve', 'shrink_to_fit'):
            return None
        return UNK
    return hook


def r42(ctx, prog):
    f = ctx_method(prog, 'HashMapContext', 'set_value', 'context::ContextWithMutableVariables')
    if f is None:
        ctx.unrecognised('R4.2', 'HashMapContext::set_value', 'missing', 'method not found')
        return
    val = prog.adt(tables.VALUE)
    n = 0
    ident = SYM('identifier')

    def writes(eff, log, existing):
        """mutations of the map on one path: overwrites of the existing slot (through a reference or the map API), inserts, removals"""
        out = [('overwrite', e[2][1]) for e in eff if e[0] == '<store>' and e[2][0] == existing]
        out += [x for x in log if x[0] in ('overwrite', 'insert', 'remove')]
        other = [e for e in eff if e[0] in ('<store>', '<store-field>') and not (e[0] == '<store>' and e[2][0] == existing)]
        return out, other
    # lookup hit: existing value of variant i, new value of variant j
    for vi in val['variants']:
        for vj in val['variants']:
            existing = ADT(val['path'], vi['idx'], vi['name'], [SYM('old_payload')] if vi['fields'] else [])
            new = ADT(val['path'], vj['idx'], vj['name'], [SYM('new_payload')] if vj['fields'] else [])
            log = []
            ps = Interp(prog, hook=map_model(True, existing, log)).paths(f, [SYM('self'), ident, new])
            ps = [p for p in ps if p[0] != ('diverge',)]
            n += 1
            inst = 'set_value[%s<-%s]' % (vi['name'], vj['name'])
            if len(ps) != 1:
                ctx.violation('R4.2', inst, 'value-dependent', 'assignment outcome depends on more than the two types (%d paths; e.g. tuple length or emptiness)' % len(ps), span=f.span)
                continue
            ret, eff = ps[0]
            w, other = writes(eff, log, existing)
            keys = {fmt(x[1]) for x in log if x[0] == 'lookup'}
            if vi['name'] == vj['name']:
                good = ret == OK(('tuple', ())) and w == [('overwrite', new)] and not other and keys == {fmt(ident)}
                ctx.check(good, 'R4.2', inst, 'overwrite', 'same type: the value stored under the identifier is overwritten with the new value (whatever its length/content) and Ok(()) is returned (returns %s, map writes %s, keys %s)' % (fmt(ret), [(x[0], fmt(x[-1])) for x in w], sorted(keys)), span=f.span)
            else:
                want_err = 'Expected' + vi['name']
                good = is_adt(ret, 'result::Result', 'Err') and is_adt(ret[4][0], 'error::EvalexprError', want_err) and ret[4][0][4] == (new,) and not w and not other
                ctx.check(good, 'R4.2', inst, 'type-error', 'different type: Err(%s { actual: new value }) and nothing is written (returns %s, map writes %s)' % (want_err, fmt(ret), [(x[0], fmt(x[-1])) for x in w]), span=f.span)
    # lookup miss
    log = []
    ps = [p for p in Interp(prog, hook=map_model(False, UNK, log)).paths(f, [SYM('self'), ident, SYM('value')]) if p[0] != ('diverge',)]
    n += 1
    good = len(ps) == 1 and ps[0][0] == OK(('tuple', ()))
    if good:
        w, other = writes(ps[0][1], log, UNK)
        good = w == [('insert', ident, SYM('value'))] and not other and {fmt(x[1]) for x in log if x[0] == 'lookup'} <= {fmt(ident)}
    ctx.check(good, 'R4.2', 'set_value[miss]', 'insert', 'unknown name: (identifier, value) is inserted into `variables` and Ok(()) returned (map log %s)' % [(x[0], [fmt(y) for y in x[1:] if y is not None]) for x in log], span=f.span)
    # the map consulted is the context's variable map
    ps = Interp(prog).paths(f, [SYM('self'), ident, SYM('value')])
    maps = {fmt(e[2][0]) for ret, eff in ps for e in eff if not e[0].startswith('<') and 'HashMap' in e[0] and e[0].split('::')[-1] in ('get_mut', 'get', 'entry', 'insert', 'contains_key') and e[2]}
    ctx.check(maps == {fmt(('proj', SYM('self'), ('variables',)))}, 'R4.2', 'set_value[lookup]', 'lookup', 'the existing value is looked up in, and written to, `self.variables` only (found %s)' % sorted(maps), span=f.span)
    ctx.counters['set_value_cases'] = n
    ctx.floor('R4.2', 'set_value_cases', n, 37)


def r43(ctx, prog):
    vt = prog.adt('value::value_type::ValueType')
    val = prog.adt(tables.VALUE)
    f = [x for x in prog.fns if x.name == 'from' and path_endswith(x.j.get('impl_trait') or '', 'convert::From') and x.j.get('impl_self_ty') == 'value::value_type::ValueType' and '&value::Value<' in ' '.join(x.j.get('inputs') or []) and 'mut' not in ' '.join(x.j.get('inputs') or [])]
    if len(f) != 1:
        ctx.unrecognised('R4.3', 'ValueType::from', 'missing', 'From<&Value> for ValueType not found (%d candidates)' % len(f))
    else:
        for v in val['variants']:
            arg = ADT(val['path'], v['idx'], v['name'], [SYM('p')] if v['fields'] else [])
            ps = Interp(prog).paths(f[0], [arg])
            good = len(ps) == 1 and is_adt(ps[0][0], 'ValueType', v['name'])
            ctx.check(good, 'R4.3', 'ValueType::from:' + v['name'], 'identity', 'ValueType::from(Value::%s) = ValueType::%s' % (v['name'], v['name']), span=f[0].span)
        # the &mut / &&mut conversions forward to it
        for g in prog.fns:
            if g.name == 'from' and g.j.get('impl_self_ty') == 'value::value_type::ValueType' and g is not f[0] and path_endswith(g.j.get('impl_trait') or '', 'convert::From'):
                if 'value::Value<' not in ' '.join(g.j.get('inputs') or []):
                    continue
                # decided by interpretation on each variant (references are transparent), so it does not matter whether the impl
                # forwards to From<&Value>, to a shared inherent helper, or repeats the match
                bad = []
                for v in val['variants']:
                    arg = ADT(val['path'], v['idx'], v['name'], [SYM('p')] if v['fields'] else [])
                    ps = Interp(prog).paths(g, [arg])
                    if not (len(ps) == 1 and is_adt(ps[0][0], 'ValueType', v['name'])):
                        bad.append('%s -> %s' % (v['name'], [fmt(p_[0])[:60] for p_ in ps]))
                ctx.check(not bad, 'R4.3', 'ValueType::from:forwarder:' + ' '.join(g.j.get('inputs') or []), 'forward', 'the reference variants of the conversion give the same type as From<&Value> for every value kind (deviations: %s)' % bad, span=g.span)
    e = prog.fn('error::EvalexprError::<NumericTypes>::expected_type')
    if e is None:
        ctx.unrecognised('R4.3', 'EvalexprError::expected_type', 'missing', 'not found')
        return
    for v in val['variants']:
        exp = ADT(val['path'], v['idx'], v['name'], [SYM('p')] if v['fields'] else [])
        ps = Interp(prog).paths(e, [exp, SYM('actual')])
        good = len(ps) == 1 and is_adt(ps[0][0], 'error::EvalexprError', 'Expected' + v['name']) and ps[0][0][4] == (SYM('actual'),)
        ctx.check(good, 'R4.3', 'expected_type:' + v['name'], 'ctor', 'expected_type(%s value, actual) = Expected%s { actual }' % (v['name'], v['name']), span=e.span)
    ctx.floor('R4.3', 'value_variants', len(val['variants']), 6)


def r44(ctx, prog):
    f = prog.fn('operator::Operator::<NumericTypes>::eval_mut')
    if f is None:
        ctx.unrecognised('R4.4', 'Operator::eval_mut', 'missing', 'not found')
        return
    op = prog.adt(tables.OPERATOR)
    val = prog.adt(tables.VALUE)
    sv = [v for v in val['variants'] if v['name'] == 'String'][0]
    arg0 = ADT(val['path'], sv['idx'], 'String', [SYM('target')])
    arguments = ('tuple', (arg0, SYM('rhs')))
    n = 0
    for v in op['variants']:
        if v['name'] not in tables.ASSIGN:
            continue
        n += 1
        selfv = ADT(op['path'], v['idx'], v['name'], [])
        for world in ('ok', 'read-fails', 'op-fails', 'write-fails'):
            log = []

            def hook(it, fn, t, args, world=world, log=log):
                c = t['callee']
                if c.get('local') and c['name'] == 'eval' and 'Operator' in c['def']:
                    k = args[0][3] if args[0][0] == 'adt' else '?'
                    if k == 'VariableIdentifierRead':
                        return None  # followed: the read is observed at Context::get_value
                    log.append(('eval', args[0], args[1]))
                    return ERR(SYM('op_error')) if world == 'op-fails' else OK(SYM('op_result'))
                if path_endswith(c.get('trait') or '', 'context::Context') and c['name'] == 'get_value':
                    log.append(('get_value', args[1]))
                    return NONE if world == 'read-fails' else SOME(SYM('old_value'))
                if path_endswith(c.get('trait') or '', 'context::ContextWithMutableVariables') and c['name'] == 'set_value':
                    log.append(('set_value', args[1], args[2]))
                    return ERR(SYM('write_error')) if world == 'write-fails' else OK(('tuple', ()))
                if c.get('local') and c['name'] == 'expect_operator_argument_amount':
                    return OK(('tuple', ()))
                if c['name'] == 'len' and not c.get('local'):
                    return C(2)
                if c['name'] in ('new', 'box_new_uninit', 'new_uninit', 'into_vec', 'box_assume_init_into_vec_unsafe', 'write', 'assume_init') and not c.get('local'):
                    return None
                return None
            try:
                ps = Interp(prog, hook=hook, max_depth=3).paths(f, [selfv, arguments, SYM('context')])
            except Budget:
                ctx.unrecognised('R4.4', 'eval_mut[%s]' % v['name'], 'budget', 'too complex', span=f.span)
                break
            inst = 'eval_mut[%s,%s]' % (v['name'], world)
            live = [p for p in ps if p[0] != ('diverge',)]
            if len(live) != 1:
                ctx.violation('R4.4', inst, 'paths', 'assignment arm has %d outcomes for one (operands, sub-results) case' % len(live), span=f.span)
                continue
            ret = live[0][0]
            kinds = [x[0] for x in log]
            if v['name'] == 'Assign':
                if world in ('read-fails', 'op-fails'):
                    continue
                sets = [x for x in log if x[0] == 'set_value']
                good = kinds == ['set_value'] and sets[0][1] == SYM('target') and sets[0][2] == SYM('rhs')
                good = good and (ret == (ERR(SYM('write_error')) if world == 'write-fails' else OK(ADT(val['path'], 5, 'Empty', []))))
                ctx.check(good, 'R4.4', inst, 'assign', '`X = e` writes e to X through set_value and yields Empty; a write error is returned (calls %s, returns %s)' % (kinds, fmt(ret)), span=f.span)
                continue
            want_op = ASSIGN_OP[v['name']]
            evs = [x for x in log if x[0] == 'eval']
            sets = [x for x in log if x[0] == 'set_value']
            gets = [x for x in log if x[0] == 'get_value']
            not_found = ERR(ADT('error::EvalexprError', [x for x in prog.adt('error::EvalexprError')['variants'] if x['name'] == 'VariableIdentifierNotFound'][0]['idx'], 'VariableIdentifierNotFound', [SYM('target')]))
            if world == 'read-fails':
                good = kinds == ['get_value'] and gets[0][1] == SYM('target') and ret == not_found
                what = 'a failing read of X is VariableIdentifierNotFound(X) and nothing else happens'
            elif world == 'op-fails':
                good = kinds == ['get_value', 'eval'] and ret == ERR(SYM('op_error')) and not sets
                what = 'a failing operation is returned and X is not written'
            else:
                good = kinds == ['get_value', 'eval', 'set_value']
                if good:
                    rd, opx, st = gets[0], evs[0], sets[0]
                    good = rd[1] == SYM('target')
                    good = good and opx[1][0] == 'adt' and opx[1][3] == want_op
                    good = good and operands_are(opx[2], SYM('old_value'), SYM('rhs'), live[0][1])
                    good = good and st[1] == SYM('target') and st[2] == SYM('op_result')
                    good = good and (ret == (ERR(SYM('write_error')) if world == 'write-fails' else OK(ADT(val['path'], 5, 'Empty', []))))
                what = '`X %s= e` reads X, evaluates Operator::%s on (old X, e) in that order, writes the result to X (calls %s, returns %s)' % (want_op, want_op, [(k[0], fmt(k[1])) for k in log], fmt(ret))
            ctx.check(good, 'R4.4', inst, 'op-assign', what, span=f.span)
    ctx.floor('R4.4', 'assignment_variants', n, 9)


def operands_are(v, a, b, effects=()):
    """abstract value of the argument vector built by vec![a, b]"""
    if v == ('tuple', (a, b)):
        return True
    # vec![a, b] lowers to Box::new_uninit(); *ptr = [a, b]; box_assume_init_into_vec_unsafe(box): the array aggregate
    # stored on this path carries the operands in order, and it must be the only array stored
    if 'into_vec' in fmt(v) or 'Vec' in fmt(v):
        arrays = [e[2][-1] for e in effects if e[0] in ('<store>', '<store-field>') and e[2][-1][0] == 'tuple' and len(e[2][-1][1]) >= 1]
        if arrays == [('tuple', (a, b))]:
            return True
    # vec! lowers to a boxed array converted into a Vec; the array aggregate carries the operands in order
    def find(x):
        if x[0] == 'tuple' and len(x[1]) == 2 and x[1][0] == a and x[1][1] == b:
            return True
        if x[0] == 'tuple':
            return any(find(y) for y in x[1])
        if x[0] == 'app':
            return any(find(y) for y in x[2])
        if x[0] == 'proj':
            return find(x[1])
        if x[0] == 'adt':
            return any(find(y) for y in x[4])
        return False
    return find(v)


def r45(ctx, prog):
    from rules.common import fieldwise_clone
    okc, how = fieldwise_clone(prog)
    ctx.check(okc, 'R4.5', 'HashMapContext:Clone', 'derived-clone', 'Clone for HashMapContext is the field-wise clone (%s)' % how)
    tw = [t for t in prog.facts['type_walk'] if t['adt'] == 'context::HashMapContext']
    if not tw:
        ctx.unrecognised('R4.5', 'HashMapContext:type-walk', 'missing', 'type walk not exported')
        return
    t = tw[0]
    ctx.check(not t['shared_ownership'] and not t['refs'] and not t['unsafe_cell'], 'R4.5', 'HashMapContext:ownership', 'shared-state',
              'no Rc/Arc, reference or interior-mutability type is reachable from any field: a clone shares nothing with the original (shared: %s, refs: %s, cells: %s)' % (t['shared_ownership'], t['refs'], t['unsafe_cell']))
    # Function::clone goes through dyn_clone, which boxes a clone of the closure
    fc = [f for f in prog.fns if f.name == 'clone' and (f.j.get('impl_self_ty') or '').startswith('function::Function<')]
    good = False
    if len(fc) == 1:
        ps = Interp(prog).paths(fc[0], [SYM('self')])
        good = len(ps) == 1 and 'dyn_clone' in fmt(ps[0][0])
    ctx.check(good, 'R4.5', 'Function:Clone', 'dyn-clone', 'Function::clone clones the boxed closure through ClonableFn::dyn_clone')
