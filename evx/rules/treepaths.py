"""Path enumeration helpers over the tree builder (tree::tokens_to_operator_tree, collapse_*, insert_back_prioritized)."""
from absint import Interp, SYM, C, UNK, ADT, Stop, Fork, fmt, is_adt, Budget
from mirlib import (callee_matches, op_place, resolve_place, def_roots, call_result_bool_edges, path_endswith, short)

OP_METHODS = {'precedence', 'is_sequence', 'is_leaf', 'is_unary', 'is_left_to_right', 'max_argument_amount'}
BUILDER_FNS = {'collapse_root_stack_to', 'collapse_all_sequences', 'insert_back_prioritized', 'root_node', 'new', 'has_enough_children', 'has_too_many_children'}


def seed(fn, names):
    env = {}
    for d in fn.locals:
        if d.get('name') in names:
            env[d['id']] = SYM(d['name'])
    return env


def opaque_hook(stop_at=(), opaque=BUILDER_FNS, extra=None):
    def hook(it, fn, t, args):
        c = t['callee']
        if c['name'] in stop_at:
            return Stop(tuple(args))
        if extra is not None:
            r = extra(it, fn, t, args)
            if r is not None:
                return r
        if c.get('local') and c['name'] in OP_METHODS and args and args[0][0] != 'adt':
            return ('app', c['name'], tuple(args))
        if c.get('local') and c['name'] in opaque:
            return ('app', c['name'], tuple(args))
        return None
    return hook


def calls_of(eff):
    """effects that are calls (not branches/stores): list of (short name, args, span)"""
    out = []
    for e in eff:
        if e[0].startswith('<'):
            continue
        out.append((e[0].split('::')[-1], e[2], e[3]))
    return out


def branches_of(eff):
    return [(e[2][0], e[2][1]) for e in eff if e[0] == '<branch>']


def is_true(taken):
    return taken in (SYM('otherwise'), C(1))


def sequence_branch_paths(prog):
    """paths through the `node.operator().is_sequence()` branch of tokens_to_operator_tree, from its true edge to the loop latch"""
    from tables import TREE_KEEP
    f = prog.fn_inlined('tree::tokens_to_operator_tree', keep=TREE_KEEP, module='tree::')
    if f is None:
        raise ValueError('tree::tokens_to_operator_tree not found')
    start = None
    for b, t in f.calls():
        if t['callee']['name'] == 'is_sequence' and t['callee'].get('local'):
            a = op_place(t['args'][0])
            roots = def_roots(f, resolve_place(f, a)['l'])
            for r in roots:
                if r[1] == 'term' and r[2]['callee']['name'] == 'operator':
                    recv = resolve_place(f, op_place(r[2]['args'][0]))
                    if f.local_name(recv['l']) == 'node':
                        e = call_result_bool_edges(f, b)
                        if e:
                            start = e
    if start is None:
        raise ValueError('`node.operator().is_sequence()` branch not found')
    it = Interp(prog, hook=opaque_hook(stop_at=('is_rightsided_value',)), max_steps=400000)
    out = []
    it._run(f, start[2], seed(f, {'node', 'root', 'root_stack'}), 0, out, (), {})
    return f, start, out
