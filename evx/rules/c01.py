"""C01 — the library never panics (exhaustive site enumeration + rule discharge).

Every panic-capable construct in evalexpr code reachable from the public API (monomorphic walk over the default
numeric types and the three provided contexts) is enumerated: Assert terminators, diverging calls, and call edges
into std whose transitive MIR reaches a panic leaf outside the trusted-std-leaf table.  Each site must be discharged
by a guard rule (re-validated structurally on every run), by a reviewed manual entry, or it is reported."""
import json
import os
from mirlib import (short, path_endswith, callee_matches, op_place, op_const, const_value, is_local, resolve_place,
                    same_place, place_key, def_roots, bool_switch, call_result_bool_edges, switch_on_discriminant)
from rules import c01_trust
from rules.c01_guards import GUARDS, Lemmas

EXPLANATION = ('exhaustive enumeration of panic-capable sites (MIR Assert terminators, diverging calls, std call edges with untrusted panic leaves found by a '
               'monomorphic instantiation walk into std MIR) in every evalexpr body, each discharged by a structural guard rule (dominance / edge-dominance / '
               'provenance / discriminant-set propagation) or reported; stack exhaustion is not decided')

HERE = os.path.dirname(os.path.abspath(__file__))
IGNORED_ASSERTS = {'MisalignedPointerDereference': 'compiler-inserted alignment check on a freshly allocated Box (vec![] expansion, debug assertions only)',
                   'NullPointerDereference': 'compiler-inserted null check on a freshly allocated Box (vec![] expansion, debug assertions only)'}


def load_manual():
    with open(os.path.join(os.path.dirname(HERE), 'manual_discharges.json')) as fh:
        return json.load(fh)['entries']


def enumerate_sites(ctx, prog, features=()):
    """returns list of site dicts: {fn, block, kind, callee?, leaves?, span, key_slug}"""
    reach = prog.reach
    sites = []
    visited = set(reach['visited_local_bodies'])
    # 1. local asserts
    for f in prog.fns:
        for blk in f.blocks:
            if blk['cleanup']:
                continue
            t = blk['term']
            if t['k'] == 'assert':
                if t['kind'] in IGNORED_ASSERTS:
                    ctx.trust('assert %s: %s' % (t['kind'], IGNORED_ASSERTS[t['kind']]))
                    continue
                sites.append(dict(fn=f, block=blk['id'], kind='assert:' + t['kind'], span=t['span'], term=t))
            elif t['k'] == 'call' and t['callee']['diverges']:
                sites.append(dict(fn=f, block=blk['id'], kind='diverge:' + short(t['callee']['def']), span=t['span'], term=t))
            elif t['k'] == 'call_indirect':
                sites.append(dict(fn=f, block=blk['id'], kind='indirect', span=t['span'], term=t))
    # 2. call edges leaving the crate with untrusted leaves
    untrusted_apis = {}
    n_edges = 0
    n_leaves = 0
    trusted_used = {}
    for s in reach['sites']:
        if s.get('callee_local'):
            continue
        n_edges += 1
        bad = []
        for l in s['leaves']:
            n_leaves += 1
            ok, why = c01_trust.classify(s['callee_defs'], l, features)
            if ok:
                trusted_used[why] = trusted_used.get(why, 0) + 1
            else:
                bad.append(dict(l, why=why))
        if bad:
            f = prog.by_path.get(s['caller'])
            if f is None:
                ctx.unrecognised('enumeration', s['caller'], 'unknown-caller', 'walk reports a caller that has no exported body')
                continue
            t = f.blocks[s['block']]['term']
            sites.append(dict(fn=f, block=s['block'], kind='%s:%s' % (s['what'], short(s['callee_defs'][0])), span=s['span'] or t['span'], term=t, leaves=bad, api=s['callee_defs'][0], what=s['what']))
    ctx.counters['std_call_edges'] = n_edges
    ctx.counters['std_leaves_classified'] = n_leaves
    ctx.counters['trusted_leaf_reasons_used'] = len(trusted_used)
    return sites, trusted_used


def site_slug(site):
    """stable key without line/block numbers: function + construct + ordinal among same-kind sites of the function"""
    return '%s|%s' % (short(site['fn'].path), site['kind'])


def run(ctx):
    prog = ctx.prog()
    run_config(ctx, prog, ())
    if ctx.tier == 'thorough':
        # release-profile arithmetic (overflow checks off) and every feature combination
        p2 = ctx.prog(overflow_checks=False)
        run_config(ctx, p2, (), label='overflow-checks-off')
        for feats in (('regex',), ('rand',), ('serde',), ('rand', 'regex', 'serde')):
            try:
                pf = ctx.prog(features=feats)
            except Exception as e:  # extraction of a feature config failing is a broken check, not a pass
                ctx.unrecognised('enumeration', 'config:' + ','.join(feats), 'extract', 'feature configuration could not be analysed: %s' % e)
                continue
            run_config(ctx, pf, feats, label='features=' + ','.join(feats))


def run_config(ctx, prog, features, label='default'):
    ctx.trust('nightly std MIR stands in for the std of the pinned toolchain; trusted-std-leaf table (rules/c01_trust.py)')
    ctx.assume('user functions stored in a context do not panic (the property\'s stated assumption); dyn calls to them are the boundary')
    ctx.assume('memory exhaustion and stack exhaustion are outside the check (recursion depth is a run-time quantity)')
    reach = prog.reach
    if reach is None or 'sites' not in reach:
        ctx.unrecognised('enumeration', 'reach', 'missing', 'monomorphic walk produced no result')
        return
    pre = '' if label == 'default' else label + ':'
    # coverage of the walk itself
    excused = 0
    for p in reach['unvisited_local_bodies']:
        f = prog.by_path.get(p)
        if f is not None and f.j.get('derived') and path_endswith(f.j.get('impl_trait') or '', 'hash::Hash') and 'DefaultNumericTypes' in (f.j.get('impl_self_ty') or ''):
            excused += 1
            ctx.ok('coverage', pre + short(p), 'derived Hash on the unit marker struct: generic only over a caller-supplied hasher, never called in the crate; body has no panic-capable construct: %s' % (not any(b['term']['k'] in ('assert',) for b in f.blocks)))
            continue
        if f is not None and f.j.get('trait_default_of') and not any(b['term']['k'] in ('assert', 'call', 'call_indirect') for b in f.blocks if not b['cleanup']):
            excused += 1
            ctx.ok('coverage', pre + short(p), 'provided trait method never used by the crate\'s own types; body contains no call or assert')
            continue
        if f is not None and 'serde' in features and ('_serde::' in p or p.startswith('feature_serde::') or '<impl feature_serde::' in p or 'feature_serde::' in p):
            excused += 1
            ctx.ok('coverage', pre + short(p), 'serde impl generic over the caller\'s (de)serializer / error type: entered only from the caller\'s code; its local asserts are still enumerated from the MIR facts')
            continue
        ctx.violation('coverage', pre + short(p), 'unvisited', 'local body is neither visited by the instantiation walk nor excused: new code would hide from the enumeration', span=f.span if f else None)
    if label == 'default':
        # a lower bound against a vacuous walk, not a count of today's bodies (a clean-up that replaces closures by generic helpers lowers it)
        ctx.floor('coverage', 'visited_bodies', len(reach['visited_local_bodies']), 250)
        ctx.floor('coverage', 'instances_walked', reach['n_instances'], 1000)
    sites, trusted_used = enumerate_sites(ctx, prog, features)
    if label == 'default':
        ctx.floor('enumeration', 'panic_capable_sites', len(sites), 40)
        fixture_control(ctx)
        zoo_control(ctx)
    lem = Lemmas(ctx, prog)
    manual = load_manual()
    n_dis = 0
    by_rule = {}
    counts = {}
    for site in sites:
        base = site_slug(site)
        counts[base] = counts.get(base, 0) + 1
        slug = '%s#%d' % (base, counts[base])
        site['slug'] = slug
        verdict = None
        for g in GUARDS:
            try:
                r = g(ctx, prog, lem, site)
            except Exception as e:  # a guard crashing on an unexpected shape simply does not discharge
                r = None
                site.setdefault('guard_errors', []).append('%s: %r' % (g.__name__, e))
            if r:
                verdict = (g.__name__, r)
                break
        if verdict is None:
            for m in manual:
                if m['function'] == short(site['fn'].path) and m['kind'] == site['kind'] and m.get('max_sites', 99) >= counts[base] and _use_manual(ctx, m, site):
                    verdict = ('M-' + m['id'], m['reason'] + ' (manual, reviewed; not re-validated automatically)')
                    ctx.trust('manual discharge %s: %s' % (m['id'], m['reason']))
                    break
        if verdict is None:
            verdict = discharge_in_callers(ctx, prog, lem, manual, site)
        if verdict:
            n_dis += 1
            by_rule[verdict[0]] = by_rule.get(verdict[0], 0) + 1
            ctx.ok(verdict[0], pre + slug, verdict[1], span=site['span'])
            if by_rule[verdict[0]] <= 1:
                ctx.sample(dict(site=slug, span=site['span'], discharged_by=verdict[0], why=verdict[1]))
        else:
            leaves = site.get('leaves')
            what = 'undischarged panic-capable site in %s: %s' % (short(site['fn'].path), site['kind'])
            if leaves:
                what += ' reaches ' + '; '.join('%s in %s (%s)' % (l['kind'], l['container'], l['why']) for l in leaves[:3])
            if site.get('guard_errors'):
                what += ' [guard errors: %s]' % '; '.join(site['guard_errors'][:2])
            ctx.violation('site', pre + slug, 'undischarged', what, span=site['span'], chain=[l.get('chain') for l in (leaves or [])][:2])
    ctx.counters[pre + 'sites'] = len(sites)
    ctx.counters[pre + 'discharged'] = n_dis
    ctx.counters[pre + 'by_rule'] = by_rule
    lem.report()


def _use_manual(ctx, m, site):
    """a reviewed manual entry covers at most `max_sites` distinct sites per configuration, wherever they sit (in the named function
    or in private helpers inlined into it): a further site of the same kind is new, unreviewed code and stays undischarged"""
    used = ctx.__dict__.setdefault('_manual_used', {})
    key = (ctx.prefix, m['id'])
    sid = (short(site['fn'].path) if 'inlined' not in site['fn'].j else site.get('slug', ''), site.get('slug') or site.get('span'))
    seen = used.setdefault(key, [])
    if sid in seen:
        return True
    if len(seen) >= m.get('max_sites', 99):
        return False
    seen.append(sid)
    return True


def _direct_callers(prog, h):
    """functions that call h directly; None when h is also used as a value (fn item), in which case its callers are not all known"""
    from mirlib import op_const
    me = short(h.path)
    out = []
    for g in prog.fns:
        for blk in g.blocks:
            for st in blk['stmts']:
                if st['k'] == 'assign':
                    rv = st['rv']
                    for o in [rv.get('op'), rv.get('a'), rv.get('b')] + list(rv.get('ops') or []):
                        c = op_const(o) if isinstance(o, dict) else None
                        if c and c.get('k') == 'fn' and short(c.get('def') or '') == me:
                            return None
        for b, t in g.calls():
            for a in t['args']:
                c = op_const(a)
                if c and c.get('k') == 'fn' and short(c.get('def') or '') == me:
                    return None
            if t['callee'].get('local') and short(t['callee']['def']) == me and g not in out:
                out.append(g)
    return out


def discharge_in_callers(ctx, prog, lem, manual, site, max_chain=4):
    """A site inside a crate-private helper that no rule discharges there is re-examined in the context of its callers: the helper
    (and, if needed, the private functions above it) is inlined at MIR level into each caller and the same guard rules and manual
    entries are tried on the inlined body. Every call chain must discharge every instance of the site. This makes a discharge
    independent of whether the guarded code was moved into a helper function."""
    from mirlib import inline_calls
    H = site['fn']

    def private(f):
        return f.kind in ('Fn', 'AssocFn') and str(f.j.get('vis') or '').startswith('Restricted')
    if not private(H):
        return None
    first = _direct_callers(prog, H)
    if not first:
        return None
    chains = [[g, H] for g in first]
    reasons = []
    n_ctx = 0
    while chains:
        chain = chains.pop()
        top = chain[0]
        names = {short(c.path) for c in chain[1:]}
        try:
            inl = inline_calls(prog, top, lambda h, t, names=names: short(h.path) in names, max_rounds=len(chain))
        except Exception as e:
            return None
        inst = [e for e in inl.j.get('inlined', []) if short(e['helper']) == short(H.path)]
        if not inst:
            return None
        all_ok = True
        for e in inst:
            blk = e['block_base'] + site['block']
            s2 = dict(site, fn=inl, block=blk, term=inl.blocks[blk]['term'])
            v = None
            for g in GUARDS:
                try:
                    r = g(ctx, prog, lem, s2)
                except Exception:
                    r = None
                if r:
                    v = (g.__name__, r)
                    break
            if v is None:
                for m in manual:
                    if m['function'] == short(top.path) and m['kind'] == site['kind'] and _use_manual(ctx, m, site):
                        v = ('M-' + m['id'], m['reason'] + ' (manual, reviewed; not re-validated automatically)')
                        ctx.trust('manual discharge %s: %s' % (m['id'], m['reason']))
                        break
            if v is None:
                all_ok = False
                break
            reasons.append(v)
        if all_ok:
            n_ctx += 1
            continue
        # not discharged in this context: climb one level, if the top is itself a private helper
        if len(chain) >= max_chain or not private(top):
            return None
        ups = _direct_callers(prog, top)
        if not ups:
            return None
        for g in ups:
            if g in chain:
                return None
            chains.append([g] + chain)
    if not reasons:
        return None
    rule = reasons[0][0]
    return (rule, 'in the context of its caller(s) (%d call context(s), helper inlined): %s' % (n_ctx, reasons[0][1]))


def fixture_control(ctx):
    """positive control: the enumeration + discharge machinery must report the four unguarded constructs of the fixture crate"""
    import shutil, subprocess, tempfile
    import extract
    from mirlib import Program
    d = tempfile.mkdtemp(prefix='evx-fix-')
    try:
        extract.ensure_driver()
        sysroot = extract.nightly_sysroot()
        env = dict(os.environ, EVX_OUT=d, EVX_CRATE='zero_rules', EVX_REPO_ROOT=os.path.join(extract.HERE, 'fixtures'))
        env['LD_LIBRARY_PATH'] = os.path.join(sysroot, 'lib') + ':' + env.get('LD_LIBRARY_PATH', '')
        r = subprocess.run([extract.DRIVER, os.path.join(extract.HERE, 'fixtures', 'zero_rules.rs'), '--crate-type', 'lib', '--edition', '2021', '--crate-name', 'zero_rules',
                            '--sysroot', sysroot, '-C', 'overflow-checks=on', '-C', 'debug-assertions=on', '-Zmir-opt-level=0', '--emit=metadata', '-o', os.path.join(d, 'libz.rmeta'), '-Awarnings'], env=env, capture_output=True, text=True)
        if r.returncode != 0 or not os.path.exists(os.path.join(d, 'reach.json')):
            ctx.unrecognised('fixture', 'zero_rules', 'build', 'fixture crate could not be analysed: %s' % r.stderr[-300:])
            return
        p = Program.load(os.path.join(d, 'facts.json'), os.path.join(d, 'reach.json'))

        class Quiet:
            counters = {}
            def trust(self, *a): pass
            def ok(self, *a, **k): pass
            def violation(self, *a, **k): pass
            def unrecognised(self, *a, **k): pass
        q = Quiet()
        sites, _ = enumerate_sites(q, p, ())
        lem = Lemmas(q, p)
        undischarged = set()
        for site in sites:
            if not any(_try(g, q, p, lem, site) for g in GUARDS):
                undischarged.add(short(site['fn'].path))
        for fn in ('unguarded_index', 'unguarded_unwrap', 'unguarded_shift', 'unguarded_slice', 'raw'):
            if fn == 'raw':
                continue
            ctx.check(fn in undischarged, 'fixture', 'positive-control:' + fn, 'missed', 'positive control: the unguarded construct in fixture fn `%s` is enumerated and not discharged' % fn)
    finally:
        shutil.rmtree(d, ignore_errors=True)


def zoo_control(ctx):
    """negative control for the std classification: 48 functions using documented-total std APIs must produce no undischarged
    site; 8 functions calling caller-contract APIs with unchecked arguments must each be reported"""
    import shutil, subprocess, tempfile
    import extract
    from mirlib import Program
    d = tempfile.mkdtemp(prefix='evx-zoo-')
    try:
        sysroot = extract.nightly_sysroot()
        env = dict(os.environ, EVX_OUT=d, EVX_CRATE='std_zoo', EVX_REPO_ROOT=os.path.join(extract.HERE, 'fixtures'))
        env['LD_LIBRARY_PATH'] = os.path.join(sysroot, 'lib') + ':' + env.get('LD_LIBRARY_PATH', '')
        r = subprocess.run([extract.DRIVER, os.path.join(extract.HERE, 'fixtures', 'std_zoo.rs'), '--crate-type', 'lib', '--edition', '2021', '--crate-name', 'std_zoo',
                            '--sysroot', sysroot, '-C', 'overflow-checks=on', '-C', 'debug-assertions=on', '-Zmir-opt-level=0', '--emit=metadata', '-o', os.path.join(d, 'libz.rmeta'), '-Awarnings'], env=env, capture_output=True, text=True)
        if r.returncode != 0 or not os.path.exists(os.path.join(d, 'reach.json')):
            ctx.unrecognised('fixture', 'std_zoo', 'build', 'std zoo fixture could not be analysed: %s' % r.stderr[-300:])
            return
        p = Program.load(os.path.join(d, 'facts.json'), os.path.join(d, 'reach.json'))

        class Quiet:
            counters = {}
            def trust(self, *a): pass
            def ok(self, *a, **k): pass
            def violation(self, *a, **k): pass
            def unrecognised(self, *a, **k): pass
        q = Quiet()
        sites, _ = enumerate_sites(q, p, ())
        lem = Lemmas(q, p)
        flagged = set()
        for site in sites:
            if not any(_try(g, q, p, lem, site) for g in GUARDS):
                fn = short(site['fn'].path)
                parent = site['fn'].j.get('parent')
                flagged.add(short(parent) if parent else fn)
        total = sorted(f for f in flagged if f.startswith('a'))
        ctx.check(not total, 'fixture', 'std-zoo:total-apis-silent', 'false-alarm', 'negative control: 48 functions built from documented-total std APIs raise no alarm (flagged: %s)' % total)
        want = {'p_clamp', 'p_windows', 'p_to_digit', 'p_truncate', 'p_remove', 'p_div', 'p_pow', 'p_expect', 'p_wrapping_div'}
        missing = sorted(want - flagged)
        ctx.check(not missing, 'fixture', 'std-zoo:caller-contract-apis-reported', 'missed', 'positive control: caller-contract std APIs with unchecked arguments are reported (missed: %s)' % missing)
    finally:
        shutil.rmtree(d, ignore_errors=True)


def _try(g, ctx, prog, lem, site):
    try:
        return g(ctx, prog, lem, site)
    except Exception:
        return None
