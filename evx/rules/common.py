"""helpers shared by rule modules"""
import docs
import extract
import tables


def load_docs(ctx):
    lib, readme = docs.load(extract.REPO)
    return lib, readme


def doc_operator_tables(ctx, rule):
    """documented binary/unary precedence tables (crate docs are the oracle; README cross-checked in thorough tier)"""
    lib, readme = load_docs(ctx)
    b, u = lib.operator_tables()
    if not b or not u:
        ctx.unrecognised(rule, 'docs', 'missing-table', 'operator precedence tables not found in the crate documentation (src/lib.rs //! block)')
        return None, None
    if ctx.tier == 'thorough':
        rb, ru = readme.operator_tables()
        ctx.check(rb == b and ru == u, rule, 'docs:README', 'readme-differs', 'README.md operator tables equal the crate-level documentation tables')
    return b, u


def safe_tables(ctx, prog, rule):
    try:
        return tables.operator_tables(prog)
    except tables.TableError as e:
        ctx.unrecognised(rule, 'operator-tables', 'not-tabular', 'operator table is not a total constant function of the operator kind: %s' % e)
        return None


def is_delegation(f, is_target):
    """f is itself an implementation of the trait method the target predicate selects: a call of the method on another receiver inside it
    is delegation by a wrapper type (reached only through the same trait method), not a new place the method is invoked from"""
    tr = f.j.get('impl_trait')
    return bool(tr and f.name and is_target(dict(name=f.name, trait=tr, local=False, **{'def': tr + '::' + f.name})))


def terminal_call_sites(prog, is_target, roots, max_depth=3):
    """who-may-call through helpers: the call sites of the target, where a site inside a crate-private non-closure helper (other than a
    root function) is replaced by the call sites of that helper, transitively. Returns a list of (function short path, span).
    Taking the target or a followed helper as a fn item (not a direct call) is reported as a site '(fn item taken)'."""
    from mirlib import short, op_const

    def uses_of(pred):
        out = []
        for f in prog.fns:
            for b, t in f.calls():
                if pred(t['callee']):
                    out.append((f, t['span'], False))
                for a in t['args']:
                    c = op_const(a)
                    if c and c.get('k') == 'fn' and pred(dict(local=True, name=(c.get('def') or '').split('::')[-1], **{'def': c.get('def') or ''})):
                        out.append((f, t['span'], True))
            for blk in f.blocks:
                for st in blk['stmts']:
                    if st['k'] == 'assign' and st['rv']['k'] in ('use', 'cast'):
                        c = op_const(st['rv']['op'])
                        if c and c.get('k') == 'fn' and pred(dict(local=True, name=(c.get('def') or '').split('::')[-1], **{'def': c.get('def') or ''})):
                            out.append((f, st.get('span'), True))
        return out
    final = []
    seen = set()
    work = [(f, sp, taken, 0) for f, sp, taken in uses_of(is_target) if not is_delegation(f, is_target)]
    while work:
        f, sp, taken, depth = work.pop()
        sp_f = short(f.path)
        if taken:
            final.append((sp_f + ' (fn item taken)', sp))
            continue
        if sp_f in roots or depth >= max_depth or f.kind == 'Closure' or not str(f.j.get('vis') or '').startswith('Restricted'):
            final.append((sp_f, sp))
            continue
        if sp_f in seen:
            continue
        seen.add(sp_f)
        ups = uses_of(lambda c, sp_f=sp_f: c.get('local') and short(c.get('def') or '') == sp_f)
        if not ups:
            final.append((sp_f + ' (unused helper)', sp))
        for g, sp2, tk in ups:
            work.append((g, sp2, tk, depth + 1))
    return final
