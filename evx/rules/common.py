"""helpers shared by rule modules"""
import docs
import extract
import tables


def load_docs(ctx):
    lib, readme = docs.load(extract.REPO)
    return lib, readme


def doc_operator_tables(ctx, rule):
    """documented binary/unary precedence tables (crate docs are the oracle; README cross-checked in thorough tier)"""
    lib, readme = load_docs(ctx)
    b, u = lib.operator_tables()
    if not b or not u:
        ctx.unrecognised(rule, 'docs', 'missing-table', 'operator precedence tables not found in the crate documentation (src/lib.rs //! block)')
        return None, None
    if ctx.tier == 'thorough':
        rb, ru = readme.operator_tables()
        ctx.check(rb == b and ru == u, rule, 'docs:README', 'readme-differs', 'README.md operator tables equal the crate-level documentation tables')
    return b, u


def safe_tables(ctx, prog, rule):
    try:
        return tables.operator_tables(prog)
    except tables.TableError as e:
        ctx.unrecognised(rule, 'operator-tables', 'not-tabular', 'operator table is not a total constant function of the operator kind: %s' % e)
        return None
