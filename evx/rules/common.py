"""helpers shared by rule modules"""
import docs
import extract
import tables


def load_docs(ctx):
    lib, readme = docs.load(extract.REPO)
    return lib, readme


def doc_operator_tables(ctx, rule):
    """documented binary/unary precedence tables (crate docs are the oracle; README cross-checked in thorough tier)"""
    lib, readme = load_docs(ctx)
    b, u = lib.operator_tables()
    if not b or not u:
        ctx.unrecognised(rule, 'docs', 'missing-table', 'operator precedence tables not found in the crate documentation (src/lib.rs //! block)')
        return None, None
    if ctx.tier == 'thorough':
        rb, ru = readme.operator_tables()
        ctx.check(rb == b and ru == u, rule, 'docs:README', 'readme-differs', 'README.md operator tables equal the crate-level documentation tables')
    return b, u


def safe_tables(ctx, prog, rule):
    try:
        return tables.operator_tables(prog)
    except tables.TableError as e:
        ctx.unrecognised(rule, 'operator-tables', 'not-tabular', 'operator table is not a total constant function of the operator kind: %s' % e)
        return None


def is_delegation(f, is_target):
    """f is itself an implementation of the trait method the target predicate selects: a call of the method on another receiver inside it
    is delegation by a wrapper type (reached only through the same trait method), not a new place the method is invoked from"""
    tr = f.j.get('impl_trait')
    return bool(tr and f.name and is_target(dict(name=f.name, trait=tr, local=False, **{'def': tr + '::' + f.name})))


def terminal_call_sites(prog, is_target, roots, max_depth=3):
    """who-may-call through helpers: the call sites of the target, where a site inside a crate-private non-closure helper (other than a
    root function) is replaced by the call sites of that helper, transitively. Returns a list of (function short path, span).
    Taking the target or a followed helper as a fn item (not a direct call) is reported as a site '(fn item taken)'."""
    from mirlib import short, op_const

    def uses_of(pred):
        out = []
        for f in prog.fns:
            for b, t in f.calls():
                if pred(t['callee']):
                    out.append((f, t['span'], False))
                for a in t['args']:
                    c = op_const(a)
                    if c and c.get('k') == 'fn' and pred(dict(local=True, name=(c.get('def') or '').split('::')[-1], **{'def': c.get('def') or ''})):
                        out.append((f, t['span'], True))
            for blk in f.blocks:
                for st in blk['stmts']:
                    if st['k'] == 'assign' and st['rv']['k'] in ('use', 'cast'):
                        c = op_const(st['rv']['op'])
                        if c and c.get('k') == 'fn' and pred(dict(local=True, name=(c.get('def') or '').split('::')[-1], **{'def': c.get('def') or ''})):
                            out.append((f, st.get('span'), True))
        return out
    final = []
    seen = set()
    work = [(f, sp, taken, 0) for f, sp, taken in uses_of(is_target) if not is_delegation(f, is_target)]
    while work:
        f, sp, taken, depth = work.pop()
        sp_f = short(f.path)
        if taken:
            final.append((sp_f + ' (fn item taken)', sp))
            continue
        if sp_f in roots or depth >= max_depth or f.kind == 'Closure' or not str(f.j.get('vis') or '').startswith('Restricted'):
            final.append((sp_f, sp))
            continue
        if sp_f in seen:
            continue
        seen.add(sp_f)
        ups = uses_of(lambda c, sp_f=sp_f: c.get('local') and short(c.get('def') or '') == sp_f)
        if not ups:
            final.append((sp_f + ' (unused helper)', sp))
        for g, sp2, tk in ups:
            work.append((g, sp2, tk, depth + 1))
    return final


def fieldwise_clone(prog, self_ty_prefix='context::HashMapContext<', adt_path='context::HashMapContext'):
    """Clone for the type is the field-wise clone: either the derived impl, or a hand-written `clone` whose single path returns the
    struct with every field taken from the same field of self (Clone::clone of a field is transparent in the domain) and that does not
    override clone_from. Returns (ok, description)."""
    from absint import Interp, SYM, Budget, fmt
    from mirlib import path_endswith
    cl = [i for i in prog.facts['impls'] if path_endswith(i.get('trait') or '', 'clone::Clone') and i['self_ty'].startswith(self_ty_prefix)]
    if len(cl) != 1:
        return False, '%d Clone impls' % len(cl)
    if cl[0]['derived']:
        return True, 'derived'
    fs = [f for f in prog.fns if f.name in ('clone', 'clone_from') and path_endswith(f.j.get('impl_trait') or '', 'clone::Clone') and (f.j.get('impl_self_ty') or '').startswith(self_ty_prefix)]
    if [f for f in fs if f.name == 'clone_from']:
        return False, 'hand-written clone_from'
    fs = [f for f in fs if f.name == 'clone']
    if len(fs) != 1:
        return False, 'clone not found'
    try:
        ps = Interp(prog).paths(fs[0], [SYM('self')])
    except Budget:
        return False, 'clone too complex'
    a = prog.adt(adt_path)
    if len(ps) != 1 or ps[0][0][0] != 'adt' or not a:
        return False, 'clone returns %s' % [fmt(p[0])[:80] for p in ps]
    names = [fd['name'] for fd in a['variants'][0]['fields']]
    got = ps[0][0][4]
    want = tuple(('proj', SYM('self'), (n,)) for n in names)
    if tuple(got) != want:
        return False, 'hand-written clone returns %s' % fmt(ps[0][0])[:160]
    return True, 'hand-written, field-wise (%s)' % ', '.join(names)
