"""C07 — whitespace and comments never change meaning (clause level).

R7.1 a comment separates tokens like a space: in str_to_partial_tokens every path on which try_skip_comment reported a skipped
     comment pushes PartialToken::Whitespace onto the result before the next character is read (fusion looks only at the last
     element of the result, so this is necessary);
R7.2 the default arm of char_to_partial_token classifies with char::is_whitespace (all Unicode whitespace): true -> Whitespace,
     false -> Literal(c);
R7.3 fusion (push_str onto the last element) happens only when both the last and the current partial token are Literal; every
     other partial token is pushed as its own element; Whitespace yields no token and consumes exactly one partial token;
R7.4 try_skip_comment: Ok(true) only after `//` or a `/* ... */` whose closing marker was found; an unterminated `/*` is an
     error; nothing is consumed when it reports false; the line-comment terminator is `\\n`;
R7.5 comment markers inside string literals are plain text (shared with C06 R6.2).
Not decided: equality of the resulting trees for all separator assignments (follows from these clauses plus C06 R6.5 only as far
as the tokenizer is concerned)."""
import tables
from absint import Interp, SYM, C, ADT, OK, ERR, SOME, NONE, Fork, Stop, fmt, is_adt, Budget
from mirlib import short, path_endswith
from rules.treepaths import branches_of, is_true
from rules.tokpaths import iteration_paths

EXPLANATION = ('must-pass-through rule on the comment path of str_to_partial_tokens and fusion rule, both over enumerated MIR paths of one loop iteration '
               '(case split on the character class and on try_skip_comment\'s result); classifier of the default character arm by abstract interpretation; '
               'exhaustive path enumeration of try_skip_comment')


def run(ctx):
    prog = ctx.prog()
    ctx.trust('rustc nightly MIR of /repo; char::is_whitespace is the Unicode White_Space property (std); Peekable<Chars> yields the input characters in order')
    r71_73(ctx, prog)
    r72(ctx, prog)
    r74(ctx, prog)
    r73b(ctx, prog)


def loop_paths(prog, f, comment_world):
    """paths of one iteration of str_to_partial_tokens for each partial-token class of the current character"""
    pt = prog.adt(tables.PARTIAL)
    worlds = []
    for v in pt['variants']:
        fields = [SYM('payload')] if v['fields'] else []
        worlds.append((v['name'], ADT(pt['path'], v['idx'], v['name'], fields)))
    out = []
    for wname, wval in worlds:
        def hook(it, fn, t, args, wval=wval):
            c = t['callee']
            if c.get('local') and c['name'] == 'char_to_partial_token':
                return wval
            if c.get('local') and c['name'] == 'try_skip_comment':
                return comment_world
            if c.get('local') and c['name'] == 'parse_string_literal':
                return Fork([OK(SYM('string_token')), ERR(SYM('string_error'))])
            if c['name'] == 'new' and 'Vec' in c['def']:
                return SYM('result')
            return None
        ps = Interp(prog, hook=hook, loop_bound=0, record_backedge=True).paths(f, [SYM('string')])
        for ret, eff in ps:
            out.append((wname, wval, ret, eff))
    return out


def r71_73(ctx, prog):
    f = prog.fn('token::str_to_partial_tokens')
    if f is None:
        ctx.unrecognised('R7.1', 'str_to_partial_tokens', 'missing', 'not found')
        return
    pt = prog.adt(tables.PARTIAL)
    ws = [v for v in pt['variants'] if v['name'] == 'Whitespace'][0]
    WS = ADT(pt['path'], ws['idx'], 'Whitespace', [])
    # ---- R7.1: comment skipped
    try:
        paths = loop_paths(prog, f, OK(C(True)))
    except Budget:
        ctx.unrecognised('R7.1', 'str_to_partial_tokens', 'budget', 'too complex', span=f.span)
        return
    n = 0
    for wname, wval, ret, eff in paths:
        calls = [(e[0].split('::')[-1], e[2], e[3]) for e in eff if not e[0].startswith('<')]
        if not any(nm == 'try_skip_comment' for nm, _, _ in calls):
            continue
        n += 1
        i = [k for k, (nm, _, _) in enumerate(calls) if nm == 'try_skip_comment'][0]
        after = calls[i + 1:]
        pushes = [a for nm, a, _ in after if nm == 'push' and a and a[0] == SYM('result')]
        sp = calls[i][2]
        good = ret[0] == 'backedge' and any(a[1] == WS for a in pushes)
        ctx.check(good, 'R7.1', 'comment-path[%s]' % wname, 'no-separator',
                  'after a skipped comment a Whitespace separator is pushed before the next character is read (pushes after the comment: %s); without it `a/**/b` fuses to `ab` and `1/**/2` to `12`' % [fmt(a[1]) for a in pushes], span=sp)
    ctx.floor('R7.1', 'comment_paths', n, 1)
    # comment error is returned
    paths_e = loop_paths(prog, f, ERR(SYM('comment_error')))
    errs = [(w, ret) for w, _, ret, eff in paths_e if any(e[0].endswith('try_skip_comment') for e in eff)]
    ctx.check(bool(errs) and all(ret == ERR(SYM('comment_error')) for _, ret in errs), 'R7.1', 'comment-error', 'error', 'an error from comment skipping (unterminated `/*`) is returned unchanged', span=f.span)
    # only a `/` can start a comment
    starters = sorted({w for w, _, ret, eff in paths if any(e[0].endswith('try_skip_comment') for e in eff)})
    ctx.check(starters == ['Slash'], 'R7.1', 'comment-start', 'starter', 'comment skipping is attempted only after a `/` (found after %s)' % starters, span=f.span)
    # ---- R7.3: fusion, with no comment
    paths = loop_paths(prog, f, OK(C(False)))
    lit_idx = [v['idx'] for v in pt['variants'] if v['name'] == 'Literal'][0]
    n_f = 0
    for wname, wval, ret, eff in paths:
        if ret[0] != 'backedge':
            continue
        calls = [(e[0].split('::')[-1], e[2]) for e in eff if not e[0].startswith('<')]
        if any(nm == 'parse_string_literal' for nm, _ in calls):
            continue
        fused = [a for nm, a in calls if nm == 'push_str']
        pushed = [a for nm, a in calls if nm == 'push' and a and a[0] == SYM('result')]
        br = branches_of(eff)
        last_is_literal = any('last_mut' in fmt(v) and v[0] == 'app' and v[1] == 'discriminant' and v[2][0][0] == 'proj' and t == C(lit_idx) for v, t in br)
        n_f += 1
        inst = 'fusion[%s,last%s]' % (wname, '=Literal' if last_is_literal else '!=Literal')
        if wname == 'Literal' and last_is_literal:
            good = len(fused) == 1 and not pushed and fused[0][1] == SYM('payload') and 'last_mut' in fmt(fused[0][0])
            ctx.check(good, 'R7.3', inst, 'fuse', 'two adjacent word characters fuse: the character is appended to the last Literal', span=f.span)
        else:
            good = not fused and len(pushed) == 1 and pushed[0][1] == wval
            ctx.check(good, 'R7.3', inst, 'no-fuse', 'any other combination pushes the partial token as its own element (fused %d, pushed %s)' % (len(fused), [fmt(a[1]) for a in pushed]), span=f.span)
    ctx.floor('R7.3', 'fusion_cases', n_f, 16)


def r72(ctx, prog):
    try:
        chars = tables.char_table(prog)
    except tables.TableError as e:
        ctx.unrecognised('R7.2', 'char_to_partial_token', 'shape', str(e))
        return
    d = chars[None]
    f = prog.fn('token::char_to_partial_token')
    resolved = [r for r in d['resolved'] if r and 'is_' in r]
    ctx.check(bool(resolved) and all(r == 'std::char::methods::<impl char>::is_whitespace' for r in resolved), 'R7.2', 'default-arm:classifier', 'classifier',
              'characters that are not operators are classified with char::is_whitespace (the Unicode one), found %s' % sorted(set(resolved)), span=f.span)
    bb = dict((o, c) for o, c in d['by_branch'])
    okk = set(d['outcomes']) == {'Literal', 'Whitespace'}
    okk = okk and any('is_whitespace' in x and x.endswith(', 0)') for x in bb.get('Literal', [])) and any('is_whitespace' in x and x.endswith('$otherwise)') for x in bb.get('Whitespace', []))
    ctx.check(okk, 'R7.2', 'default-arm:outcomes', 'outcomes', 'whitespace becomes PartialToken::Whitespace, everything else a Literal (branches %s)' % d['by_branch'], span=f.span)
    ctx.floor('R7.2', 'operator_char_arms', len([c for c in chars if c is not None]), 16)
    spacey = sorted(repr(c) for c in chars if c is not None and c.isspace())
    ctx.check(not spacey, 'R7.2', 'no-whitespace-operator-arm', 'whitespace-arm', 'no whitespace character is claimed by a fixed arm ahead of the Unicode classifier (found %s)' % spacey, span=f.span)
    ws = [c for c, v in chars.items() if c is not None and v == 'Whitespace']
    ctx.check(not ws, 'R7.2', 'no-fixed-whitespace-arm', 'fixed', 'no operator arm maps a fixed character to Whitespace ahead of the Unicode classifier', span=f.span)


def r73b(ctx, prog):
    from rules import toksem
    try:
        toksem.check_whitespace(ctx, prog, 'R7.3')
    except (ValueError, tables.TableError) as e:
        ctx.unrecognised('R7.3', 'partial_tokens_to_tokens', 'shape', str(e))


def r74(ctx, prog):
    f = prog.fn('token::try_skip_comment')
    if f is None:
        ctx.unrecognised('R7.4', 'try_skip_comment', 'missing', 'not found')
        return
    try:
        ps = Interp(prog, loop_bound=1).paths(f, [SYM('iter')])
    except Budget:
        ctx.unrecognised('R7.4', 'try_skip_comment', 'budget', 'too complex', span=f.span)
        return
    n_true = n_false = n_err = 0
    terminators = set()
    for ret, eff in ps:
        br = branches_of(eff)
        facts = []
        for v, t in br:
            s = fmt(v)
            src = 'peek' if 'peek' in s else ('next' if 'next' in s else '?')
            if s.startswith('binop:Eq('):
                ch = v[2][1][1] if v[2][1][0] == 'c' else (v[2][0][1] if v[2][0][0] == 'c' else None)
                facts.append((src, ch, is_true(t), 'into_iter' in s))
            elif v[0] == 'proj' and src != '?' and t[0] == 'c' and isinstance(t[1], int) and not isinstance(t[1], bool) and v[2][-2:] == ('as Some', '0'):
                # `match iter.peek() { Some('/') => ..` : a switch on the character itself
                facts.append((src, chr(t[1]), True, 'into_iter' in s))
        # a line comment skipped with Iterator::find(|&c| c == '\n') instead of a for loop
        for e in eff:
            if not e[0].startswith('<') and e[0].split('::')[-1] in ('find', 'position', 'any') and 'Iterator' in e[0] and len(e[2]) == 2 and e[2][1][0] == 'closure':
                res = Interp(prog).apply_callable(e[2][1], [SYM('c')], 0)
                rets = [r for r, _ in res[1]] if isinstance(res, tuple) and res and res[0] == 'paths' else []
                for r in rets:
                    if r[0] == 'app' and r[1] == 'binop:Eq' and SYM('c') in r[2]:
                        other = [x for x in r[2] if x != SYM('c')]
                        if other and other[0][0] == 'c':
                            facts.append(('next', other[0][1], True, True))
        consumed = sum(1 for e in eff if not e[0].startswith('<') and e[0].split('::')[-1] == 'next')
        line = ('peek', '/', True, False) in facts
        star = ('peek', '*', True, False) in facts
        closed = any(src == 'next' and ch == '*' and tv for src, ch, tv, _ in facts) and any(src == 'peek' and ch == '/' and tv for src, ch, tv, _ in facts[1:])
        for src, ch, tv, in_for in facts:
            if in_for:
                terminators.add(ch)
        # a look-ahead character that was matched as part of a comment marker is consumed before the next look-ahead / the return
        pending = None
        unconsumed = []
        for e in eff:
            if e[0] == '<branch>':
                v, t = e[2]
                sv = fmt(v)
                if 'peek' not in sv:
                    continue
                if sv.startswith('binop:Eq(') and is_true(t):
                    pending = v[2][1][1] if v[2][1][0] == 'c' else (v[2][0][1] if v[2][0][0] == 'c' else '?')
                elif v[0] == 'proj' and t[0] == 'c' and isinstance(t[1], int) and not isinstance(t[1], bool) and v[2][-2:] == ('as Some', '0'):
                    pending = chr(t[1])
            elif not e[0].startswith('<'):
                nm = e[0].split('::')[-1]
                if nm in ('next', 'find', 'position', 'any', 'nth', 'next_if', 'next_if_eq'):
                    pending = None
                elif nm == 'peek' and pending is not None:
                    unconsumed.append(pending)
                    pending = None
        if pending is not None:
            unconsumed.append(pending)
        if ret == OK(C(True)):
            ctx.check(not unconsumed, 'R7.4', 'marker-consumed', 'marker-left', 'every character matched as part of a comment marker is consumed (left in the input on an Ok(true) path: %s)' % unconsumed, span=f.span)
        if ret == OK(C(True)):
            n_true += 1
            ctx.check(line or (star and closed), 'R7.4', 'ok-true', 'unmatched-true', 'Ok(true) is returned only after `//` or after `/*` whose closing `*/` was found (facts %s)' % facts, span=f.span)
        elif ret == OK(C(False)):
            n_false += 1
            ctx.check(consumed == 0 and not line and not star, 'R7.4', 'ok-false', 'consumes', 'Ok(false) consumes nothing and is returned only when the next character starts no comment', span=f.span)
        elif is_adt(ret, 'result::Result', 'Err'):
            n_err += 1
            ctx.check(star and not line, 'R7.4', 'err', 'err', 'the error is reserved for an unterminated `/*`', span=f.span)
        else:
            ctx.unrecognised('R7.4', 'try_skip_comment:return', 'shape', 'unexpected return %s' % fmt(ret), span=f.span)
        if star and not closed and not line and ret != ('diverge',):
            ctx.check(is_adt(ret, 'result::Result', 'Err'), 'R7.4', 'unterminated', 'unterminated-accepted', 'an inline comment whose closing marker was not found is an error, never Ok (returns %s)' % fmt(ret), span=f.span)
    ctx.check(n_true >= 2 and n_false >= 2 and n_err >= 1, 'R7.4', 'outcomes', 'outcomes', 'all three outcomes occur (true %d, false %d, error %d)' % (n_true, n_false, n_err), span=f.span)
    ctx.check(terminators == {'\n'}, 'R7.4', 'line-terminator', 'terminator', 'a line comment ends exactly at `\\n` (terminators %s)' % sorted(terminators), span=f.span)
