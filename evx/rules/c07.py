"""C07 — whitespace and comments never change meaning (clause level).

R7.1 a comment separates tokens like a space: in str_to_partial_tokens every path on which try_skip_comment reported a skipped
     comment pushes PartialToken::Whitespace onto the result before the next character is read (fusion looks only at the last
     element of the result, so this is necessary);
R7.2 the default arm of char_to_partial_token classifies with char::is_whitespace (all Unicode whitespace): true -> Whitespace,
     false -> Literal(c);
R7.3 fusion (push_str onto the last element) happens only when both the last and the current partial token are Literal; every
     other partial token is pushed as its own element; Whitespace yields no token and consumes exactly one partial token;
R7.4 try_skip_comment: Ok(true) only after `//` or a `/* ... */` whose closing marker was found; an unterminated `/*` is an
     error; nothing is consumed when it reports false; the line-comment terminator is `\\n`;
R7.5 comment markers inside string literals are plain text (shared with C06 R6.2).
Not decided: equality of the resulting trees for all separator assignments (follows from these clauses plus C06 R6.5 only as far
as the tokenizer is concerned)."""
import tables
from absint import Interp, SYM, C, ADT, OK, ERR, SOME, NONE, Fork, Stop, fmt, is_adt, Budget, apps
from mirlib import short, path_endswith
from rules.treepaths import branches_of, is_true
from rules.tokpaths import iteration_paths

EXPLANATION = ('must-pass-through rule on the comment path of str_to_partial_tokens and fusion rule, both over enumerated MIR paths of one loop iteration '
               '(case split on the character class and on try_skip_comment\'s result); classifier of the default character arm by abstract interpretation; '
               'exhaustive path enumeration of try_skip_comment')


def stage1_reader(prog):
    """The stage-1 rules (C06 R6.1/R6.2, C07 R7.1/R7.3/R7.4) model the input as the items of a peekable character iterator that the first
    tokenizer stage reads with `next()`. Returns None when str_to_partial_tokens reads its input that way, else the reason it does not
    (a front end rewritten over `&str` cursor operations - `Chars::as_str`, `split_once`, `strip_prefix` - is outside what these rules
    can read; they then report one `unrecognised` obligation instead of verdicts that would mean nothing)."""
    f = prog.fn('token::str_to_partial_tokens')
    if f is None:
        return 'token::str_to_partial_tokens not found'
    reads = [t for _b, t in f.calls() if t['callee']['name'] == 'next' and not t['callee'].get('local') and 'Peekable' in (t['callee'].get('self_ty') or t['callee']['def'])]
    if not reads:
        return 'str_to_partial_tokens does not read its input with next() on a peekable character iterator'
    return None


def run(ctx):
    prog = ctx.prog()
    ctx.trust('rustc nightly MIR of /repo; char::is_whitespace is the Unicode White_Space property (std); Peekable<Chars> yields the input characters in order')
    why = stage1_reader(prog)
    if why is not None:
        ctx.unrecognised('R7.1', 'str_to_partial_tokens', 'reader', '%s: the rules on comment skipping and fusion of adjacent characters cannot be evaluated on this representation (stated limitation, DESIGN section 8)' % why)
    else:
        r71_73(ctx, prog)
    r72(ctx, prog)
    if why is None:
        r74(ctx, prog)
    r73b(ctx, prog)
    r75(ctx, prog)
    # R7.7 which neighbours fuse is decided token by token: a word consumes itself, plus the sign and the word *directly* after it exactly
    # when the three were joined into one number - never something reached across a gap (the C06 R6.3/R6.5 word rules of the second
    # stage, reported here: `1e- 3` must stay three tokens like `1e - 3`)
    from rules import toksem
    from rules.c05 import _Renamed
    try:
        toksem.check_words(_Renamed(ctx, 'R7.7'), prog)
    except (ValueError, tables.TableError) as e:
        ctx.unrecognised('R7.7', 'partial_tokens_to_tokens', 'shape', str(e))


def r75(ctx, prog):
    """R7.6 tokenize is the composition of the two stages and nothing else: interpreted with the two stage functions opaque, it returns
    stage2(stage1(input)?) - stage 1's error passed through - and the raw input is an argument of stage 1 only.  Everything the other
    rules say about separators, comments and string literals is said about the stages; a scan of the raw text in front of them (a
    "fail early" search for `/*` without `*/`, a parenthesis count) knows nothing of string literals and comments."""
    from absint import subst, has_subterm
    f = prog.fn('token::tokenize')
    s1 = prog.fn('token::str_to_partial_tokens')
    s2 = prog.fn('token::partial_tokens_to_tokens')
    if f is None or s1 is None or s2 is None:
        ctx.unrecognised('R7.6', 'tokenize', 'missing', 'tokenize / str_to_partial_tokens / partial_tokens_to_tokens not found')
        return
    try:
        ps = Interp(prog, opaque=lambda g: g is s1 or g is s2, max_steps=50000).paths(f, [SYM('string')])
    except Budget:
        ctx.unrecognised('R7.6', 'tokenize', 'budget', 'too complex', span=f.span)
        return
    raw = SYM('string')
    stage1 = None
    bad = []
    n_ok = n_err = 0
    for ret, eff in ps:
        calls = [e for e in eff if not e[0].startswith('<')]
        for e in calls:
            if e[0].split('::')[-1].split('#')[0] == 'str_to_partial_tokens' and tuple(e[2]) == (raw,) and len(e) > 4 and e[4] is not None:
                stage1 = e[4]
        for e in calls:
            for a in e[2]:
                if not isinstance(a, tuple) or not has_subterm(a, raw):
                    continue
                if stage1 is not None and (a == raw and e[4] == stage1 or not has_subterm(subst(a, stage1, SYM('stage1')), raw)):
                    continue
                bad.append('%s reads the raw input' % e[0].split('::')[-1])
        if stage1 is None:
            bad.append('a path does not call stage 1 on the input')
            continue
        okv = ('proj', stage1, ('as Ok', '0'))
        errv = ('proj', stage1, ('as Err', '0'))
        def bare(v):
            # a borrowed view of the same vector: as_slice / deref / as_ref / borrow / `&v[..]`
            while v[0] == 'app' and v[1].split('::')[-1].split('#')[0] in ('as_slice', 'deref', 'as_ref', 'borrow', 'as_mut_slice') and len(v[2]) == 1:
                v = v[2][0]
            return v
        if ret[0] == 'app' and ret[1].split('::')[-1].split('#')[0] == 'partial_tokens_to_tokens' and len(ret[2]) == 1 and bare(ret[2][0]) == okv:
            n_ok += 1
        elif is_adt(ret, 'result::Result', 'Err') and (ret[4][0] == errv or (ret[4][0][0] == 'app' and ret[4][0][1].endswith('From>::from') and ret[4][0][2] == (errv,))):
            n_err += 1
        else:
            bad.append('returns %s' % fmt(ret)[:120])
    ctx.check(not bad and n_ok >= 1 and n_err >= 1, 'R7.6', 'tokenize', 'not-composition', 'tokenize(input) is partial_tokens_to_tokens(str_to_partial_tokens(input)?) and reads the raw input nowhere else (deviations: %s)' % sorted(set(bad))[:3], span=f.span)


CHARS = ['"', '/', '*', '+', '-', '(', ',', '=', '&', 'a', '1', '.', '_', ' ', '\t', '\n', '\\', '\u00e9', '\u3000']


def char_paths(prog, f, comment_world=None):
    """One iteration of the first tokenizer stage (str_to_partial_tokens) per representative current character: the first `next()` of
    the character iterator yields that character; comment skipping and the string scanner are case-split (their own rules decide
    them); the loop's back edge ends the path. Returns [(char, ret, effects)]. The current character is concrete, so it makes no
    difference whether the code classifies it before or after turning it into a partial token."""
    out = []
    pt_, tk_ = prog.adt(tables.PARTIAL), prog.adt(tables.TOKEN)
    vt = [x for x in pt_['variants'] if x['name'] == 'Token'][0]
    vs = [x for x in tk_['variants'] if x['name'] == 'String'][0]
    # what the string scanner returns on success (C06 R6.2 decides that function): a complete string token
    string_token = ADT(pt_['path'], vt['idx'], 'Token', [ADT(tk_['path'], vs['idx'], 'String', [SYM('string_text')])])
    for ch in CHARS:
        state = {'n': 0}

        def hook(it, fn, t, args, ch=ch, state=state):
            c = t['callee']
            if fn is f and c['name'] == 'next' and not c.get('local') and 'Peekable' in (c.get('self_ty') or c['def']):
                state['n'] += 1
                return SOME(C(ch))
            if c.get('local') and c['name'] == 'try_skip_comment':
                return comment_world if comment_world is not None else Fork([OK(C(True)), OK(C(False)), ERR(SYM('comment_error'))])
            if c.get('local') and c['name'] == 'parse_string_literal':
                return Fork([OK(string_token), ERR(SYM('string_error'))])
            if c['name'] == 'new' and 'Vec' in c['def']:
                return SYM('result')
            return None
        ps = Interp(prog, hook=hook, loop_bound=0, record_backedge=True, max_depth=4, const_chars=True).paths(f, [SYM('string')])
        for ret, eff in ps:
            out.append((ch, ret, eff))
    return out


_CLS = {}


def char_class(prog, ch):
    """the partial-token kind char_to_partial_token gives the character (R7.2 decides that function itself)"""
    key = (id(prog), ch)
    if key not in _CLS:
        g = prog.fn('token::char_to_partial_token')
        ps = Interp(prog, const_chars=True).paths(g, [C(ch)]) if g is not None else []
        kinds = {p[0][3] for p in ps if p[0][0] == 'adt'}
        _CLS[key] = list(kinds)[0] if len(kinds) == 1 else None
    return _CLS[key]


def _pushed(eff):
    """(fused text pushes onto the last literal, partial tokens pushed onto result) along a path, helpers included"""
    calls = [(e[0].split('::')[-1], e[2]) for e in eff if not e[0].startswith('<')]
    fused = [a for nm, a in calls if nm == 'push_str']
    pushed = [a for nm, a in calls if nm == 'push' and len(a) == 2 and a[0] == SYM('result')]
    return calls, fused, pushed


def r71_73(ctx, prog):
    f = prog.fn('token::str_to_partial_tokens')
    if f is None:
        ctx.unrecognised('R7.1', 'str_to_partial_tokens', 'missing', 'not found')
        return
    pt = prog.adt(tables.PARTIAL)

    def PT(name, *fields):
        v = [x for x in pt['variants'] if x['name'] == name][0]
        return ADT(pt['path'], v['idx'], name, list(fields))
    WS = PT('Whitespace')
    try:
        paths = []
        for world, wv in ((True, OK(C(True))), (False, OK(C(False))), ('err', ERR(SYM('comment_error')))):
            for ch, ret, eff in char_paths(prog, f, wv):
                # characters that never reach comment skipping behave the same in every world: keep them once
                reached = any(not e[0].startswith('<') and e[0].split('::')[-1] == 'try_skip_comment' for e in eff)
                if reached or world is True:
                    paths.append((ch, ret, eff, world if reached else None))
    except Budget:
        ctx.unrecognised('R7.1', 'str_to_partial_tokens', 'budget', 'too complex', span=f.span)
        return
    lit_idx = [v['idx'] for v in pt['variants'] if v['name'] == 'Literal'][0]
    starters, string_starters = set(), set()
    plain_fail = []
    n_comment = n_fusion = 0
    err_ok = True
    for ch, ret, eff, world in paths:
        calls, fused, pushed = _pushed(eff)
        names = [nm for nm, _ in calls]
        if 'try_skip_comment' in names:
            starters.add(ch)
            i = names.index('try_skip_comment')
            outcome = [e for e in eff if not e[0].startswith('<') and e[0].split('::')[-1] == 'try_skip_comment']
            # which world was taken: look at what followed
            after_push = [a for nm, a in calls[i + 1:] if nm == 'push' and len(a) == 2 and a[0] == SYM('result')]
            after_fuse = [a for nm, a in calls[i + 1:] if nm == 'push_str']
            if ret == ERR(SYM('comment_error')):
                err_ok = err_ok and not after_push and not after_fuse
                continue
            if is_adt(ret, 'result::Result', 'Err'):
                err_ok = False
                continue
            n_comment += 1
            if world is True:
                good = ret[0] == 'backedge' and [a[1] for a in after_push] == [WS] and not after_fuse
                ctx.check(good, 'R7.1', 'comment-path[%s]' % ch, 'no-separator',
                          'after a skipped comment exactly a Whitespace separator is pushed before the next character is read (pushes after the comment: %s); without it `a/**/b` fuses to `ab` and `1/**/2` to `12`' % [fmt(a[1]) for a in after_push], span=f.span)
            elif world is False:
                good = ret[0] == 'backedge' and [a[1] for a in after_push] == [PT('Slash')] and not after_fuse
                ctx.check(good, 'R7.1', 'no-comment-path[%s]' % ch, 'slash', 'a `/` that starts no comment is the division operator (pushes %s)' % [fmt(a[1]) for a in after_push], span=f.span)
        if 'parse_string_literal' in names:
            string_starters.add(ch)
        # ---- a character that starts neither a comment nor a string is turned into a partial token and the scan goes on: it never
        # fails and never ends the scan, whatever follows it (a `*` directly before a comment is still the operator `*`)
        if 'try_skip_comment' not in names and 'parse_string_literal' not in names and ret[0] != 'backedge' and ret != ('diverge',):
            plain_fail.append('%r -> %s' % (ch, fmt(ret)[:70]))
        # ---- fusion of adjacent word characters (no comment, no string)
        if 'try_skip_comment' in names or 'parse_string_literal' in names or ret[0] != 'backedge':
            continue
        br = branches_of(eff)
        # the discriminant of the *element* `result.last_mut()` points to (not of the Option itself) was found to be Literal
        last_is_literal = any(v[0] == 'app' and v[1] == 'discriminant' and v[2][0][0] == 'proj' and 'as Some' in v[2][0][2] and any(n_.split('::')[-1].split('#')[0] in ('last_mut', 'last') for n_, _x in apps(v)) and t == C(lit_idx) for v, t in br)
        cls = char_class(prog, ch)
        is_word = cls == 'Literal'
        is_space = cls == 'Whitespace'
        n_fusion += 1
        inst = 'fusion[%r,last%s]' % (ch, '=Literal' if last_is_literal else '!=Literal')
        if is_word and last_is_literal:
            good = len(fused) == 1 and not pushed and _bare_text(fused[0][1]) == C(ch)
            ctx.check(good, 'R7.3', inst, 'fuse', 'two adjacent word characters fuse: the character is appended to the last Literal (fused %s, pushed %s)' % ([fmt(a[1])[:40] for a in fused], [fmt(a[1])[:40] for a in pushed]), span=f.span)
        else:
            good = not fused and len(pushed) == 1
            if good and is_space:
                good = pushed[0][1] == WS
            elif good and is_word:
                good = is_adt(pushed[0][1], 'token::PartialToken', 'Literal') and _bare_text(pushed[0][1][4][0]) == C(ch)
            ctx.check(good, 'R7.3', inst, 'no-fuse', 'any other combination pushes the partial token as its own element (fused %d, pushed %s)' % (len(fused), [fmt(a[1])[:50] for a in pushed]), span=f.span)
    ctx.floor('R7.1', 'comment_paths', n_comment, 2)
    ctx.check(err_ok, 'R7.1', 'comment-error', 'error', 'an error from comment skipping (unterminated `/*`) is returned unchanged and nothing is pushed', span=f.span)
    ctx.check(not plain_fail, 'R7.1', 'plain-character', 'char-error', 'a character that starts neither a comment nor a string always becomes a partial token and the scan continues (deviations: %s)' % plain_fail[:3], span=f.span)
    ctx.check(sorted(starters) == ['/'], 'R7.1', 'comment-start', 'starter', 'comment skipping is attempted only after a `/` (found after %s)' % sorted(starters), span=f.span)
    ctx.check(sorted(string_starters) == ['"'], 'R7.6', 'string-start', 'starter', 'the string scanner is entered exactly at a `"` (found at %s)' % sorted(string_starters), span=f.span)
    ctx.floor('R7.3', 'fusion_cases', n_fusion, 16)


def _comment_world(eff):
    """which outcome of try_skip_comment a path took (True / False), from the branch on its result"""
    for e in eff:
        if e[0] == '<branch>':
            v, t = e[2]
            if v[0] == 'c' and isinstance(v[1], bool):
                continue
    # the hook returned a constant Ok(bool): the first constant boolean consumed after the call decides; recover it from the pushes
    calls = [(e[0].split('::')[-1], e[2]) for e in eff if not e[0].startswith('<')]
    names = [nm for nm, _ in calls]
    i = names.index('try_skip_comment')
    pushed = [a[1] for nm, a in calls[i + 1:] if nm == 'push' and len(a) == 2]
    if any(is_adt(x, 'token::PartialToken', 'Whitespace') for x in pushed):
        return True
    if any(is_adt(x, 'token::PartialToken', 'Slash') for x in pushed):
        return False
    return None


def _bare_text(x):
    while x[0] == 'app' and len(x[2]) == 1 and x[1].split('::')[-1].split('<')[0] in ('to_string', 'to_owned', 'into', 'from', 'clone', 'as_str', 'as_ref', 'deref', 'borrow'):
        x = x[2][0]
    return x


def r72(ctx, prog):
    try:
        chars = tables.char_table(prog)
    except tables.TableError as e:
        ctx.unrecognised('R7.2', 'char_to_partial_token', 'shape', str(e))
        return
    d = chars[None]
    f = prog.fn('token::char_to_partial_token')
    resolved = [r for r in d['resolved'] if r and 'is_' in r]
    ctx.check(bool(resolved) and all(r == 'std::char::methods::<impl char>::is_whitespace' for r in resolved), 'R7.2', 'default-arm:classifier', 'classifier',
              'characters that are not operators are classified with char::is_whitespace (the Unicode one), found %s' % sorted(set(resolved)), span=f.span)
    bb = dict((o, c) for o, c in d['by_branch'])
    okk = set(d['outcomes']) == {'Literal', 'Whitespace'}
    okk = okk and any('is_whitespace' in x and x.endswith(', 0)') for x in bb.get('Literal', [])) and any('is_whitespace' in x and x.endswith('$otherwise)') for x in bb.get('Whitespace', []))
    ctx.check(okk, 'R7.2', 'default-arm:outcomes', 'outcomes', 'whitespace becomes PartialToken::Whitespace, everything else a Literal (branches %s)' % d['by_branch'], span=f.span)
    ctx.floor('R7.2', 'operator_char_arms', len([c for c in chars if c is not None]), 16)
    # a character listed explicitly must get the class the Unicode classifier would give it: a whitespace character listed ahead of the
    # classifier may only become Whitespace (a redundant `' ' => Whitespace` entry is harmless), and nothing else may become Whitespace
    spacey = sorted(repr(c) for c, v in chars.items() if c is not None and c.isspace() and v != 'Whitespace')
    ctx.check(not spacey, 'R7.2', 'no-whitespace-operator-arm', 'whitespace-arm', 'no whitespace character is claimed by a fixed arm for something other than Whitespace ahead of the Unicode classifier (found %s)' % spacey, span=f.span)
    ws = [c for c, v in chars.items() if c is not None and v == 'Whitespace' and not c.isspace()]
    ctx.check(not ws, 'R7.2', 'no-fixed-whitespace-arm', 'fixed', 'no fixed arm maps a character that is not whitespace to Whitespace (found %s)' % sorted(map(repr, ws)), span=f.span)


def r73b(ctx, prog):
    from rules import toksem
    try:
        toksem.check_whitespace(ctx, prog, 'R7.3')
    except (ValueError, tables.TableError) as e:
        ctx.unrecognised('R7.3', 'partial_tokens_to_tokens', 'shape', str(e))


def r74(ctx, prog):
    f = prog.fn('token::try_skip_comment')
    if f is None:
        ctx.unrecognised('R7.4', 'try_skip_comment', 'missing', 'not found')
        return
    try:
        ps = Interp(prog, loop_bound=1).paths(f, [SYM('iter')])
    except Budget:
        ctx.unrecognised('R7.4', 'try_skip_comment', 'budget', 'too complex', span=f.span)
        return
    n_true = n_false = n_err = 0
    terminators = set()
    for ret, eff in ps:
        br = branches_of(eff)
        facts = []
        for v, t in br:
            s = fmt(v)
            src = 'peek' if 'peek' in s else ('next' if 'next' in s else '?')
            if s.startswith('binop:Eq('):
                ch = v[2][1][1] if v[2][1][0] == 'c' else (v[2][0][1] if v[2][0][0] == 'c' else None)
                facts.append((src, ch, is_true(t), 'into_iter' in s))
            elif v[0] == 'proj' and src != '?' and t[0] == 'c' and isinstance(t[1], int) and not isinstance(t[1], bool) and v[2][-2:] == ('as Some', '0'):
                # `match iter.peek() { Some('/') => ..` : a switch on the character itself
                facts.append((src, chr(t[1]), True, 'into_iter' in s))
            elif v[0] == 'app' and v[1].split('::')[-1] in ('is_some', 'is_none', 'discriminant') and len(v[2]) == 1 and v[2][0][0] == 'app' and v[2][0][1].split('::')[-1].split('#')[0] == 'next_if_eq' \
                    and len(v[2][0][2]) == 2 and v[2][0][2][1][0] == 'c':
                # `iter.next_if_eq(&'/')`: a look-ahead test that consumes the character when it matches
                nm_ = v[1].split('::')[-1]
                held = (is_true(t) if nm_ == 'is_some' else (not is_true(t) if nm_ == 'is_none' else t == C(1)))
                facts.append(('peek', v[2][0][2][1][1], held, False))
            elif v[0] == 'app' and v[1].split('::')[-1] in ('eq', 'ne') and 'PartialEq' in v[1] and len(v[2]) == 2 and src != '?':
                # `iter.peek() == Some(&'/')`
                for a_, b_ in ((v[2][0], v[2][1]), (v[2][1], v[2][0])):
                    if is_adt(b_, 'option::Option', 'Some') and b_[4][0][0] == 'c' and isinstance(b_[4][0][1], str):
                        held = is_true(t) if v[1].split('::')[-1] == 'eq' else not is_true(t)
                        facts.append((src, b_[4][0][1], held, 'into_iter' in s))
        # a line comment skipped with Iterator::find(|&c| c == '\n') instead of a for loop
        for e in eff:
            if not e[0].startswith('<') and e[0].split('::')[-1] in ('find', 'position', 'any') and 'Iterator' in e[0] and len(e[2]) == 2 and e[2][1][0] == 'closure':
                res = Interp(prog).apply_callable(e[2][1], [SYM('c')], 0)
                rets = [r for r, _ in res[1]] if isinstance(res, tuple) and res and res[0] == 'paths' else []
                for r in rets:
                    if r[0] == 'app' and r[1] == 'binop:Eq' and SYM('c') in r[2]:
                        other = [x for x in r[2] if x != SYM('c')]
                        if other and other[0][0] == 'c':
                            facts.append(('next', other[0][1], True, True))
        consumed = sum(1 for e in eff if not e[0].startswith('<') and e[0].split('::')[-1] == 'next')
        line = ('peek', '/', True, False) in facts
        star = ('peek', '*', True, False) in facts
        # the closing marker: a consumed `*` and, after it, a `/` (looked ahead and consumed, or consumed by a scanner that remembers the `*`).
        # The `*` that opened the comment does not count: it is the item of the first next() after the opening look-ahead.
        nexts = [e[4] for e in eff if not e[0].startswith('<') and len(e) > 4 and e[4] is not None and e[0].split('::')[-1] in ('next', 'next_if_eq', 'next_if') and 'into_iter' not in fmt(e[4])[:0]]
        opening_item = nexts[0] if nexts else None
        star_terms = []
        for v_, t_ in br:
            if v_[0] == 'app' and len(v_[2]) == 2 and (v_[1] == 'binop:Eq' or (v_[1].split('::')[-1] == 'eq' and 'PartialEq' in v_[1])) and is_true(t_):
                for a_, b_ in ((v_[2][0], v_[2][1]), (v_[2][1], v_[2][0])):
                    cst = b_[1] if b_[0] == 'c' else (b_[4][0][1] if is_adt(b_, 'option::Option', 'Some') and b_[4][0][0] == 'c' else None)
                    if cst == '*':
                        star_terms.append(a_)
            elif v_[0] == 'proj' and t_ == C(ord('*')):
                star_terms.append(v_)
        from absint import has_subterm
        opening_only = bool(star_terms) and opening_item is not None and all(has_subterm(x_, opening_item) or x_ == opening_item for x_ in star_terms[1:] or star_terms) and len(star_terms) >= 1
        stars = [i for i, (src, ch, tv, _) in enumerate(facts) if i >= 1 and ch == '*' and tv]
        if opening_item is not None and star_terms:
            later = [x_ for x_ in star_terms if not (x_ == opening_item or has_subterm(x_, opening_item)) and 'peek' not in fmt(x_)]
            if not later:
                stars = []
        closed = any(ch == '/' and tv and any(i < j for i in stars) for j, (src, ch, tv, _) in enumerate(facts) if j >= 1)
        if line and not star:
            for src, ch, tv, in_for in facts[1:]:
                # a character taken from the input (next(), in a `for` or a `while let` loop, here or in a helper) that compared equal
                # on a path leaving the comment
                if src == 'next' and tv:
                    terminators.add(ch)
        # a look-ahead character that was matched as part of a comment marker is consumed before the next look-ahead / the return
        pending = None
        unconsumed = []
        for e in eff:
            if e[0] == '<branch>':
                v, t = e[2]
                sv = fmt(v)
                if 'peek' not in sv:
                    continue
                if sv.startswith('binop:Eq(') and is_true(t):
                    pending = v[2][1][1] if v[2][1][0] == 'c' else (v[2][0][1] if v[2][0][0] == 'c' else '?')
                elif v[0] == 'app' and v[1].split('::')[-1] == 'eq' and 'PartialEq' in v[1] and is_true(t) and any(is_adt(a_, 'option::Option', 'Some') for a_ in v[2]):
                    pending = [a_[4][0][1] for a_ in v[2] if is_adt(a_, 'option::Option', 'Some') and a_[4][0][0] == 'c'][0:1]
                    pending = pending[0] if pending else '?'
                elif v[0] == 'proj' and t[0] == 'c' and isinstance(t[1], int) and not isinstance(t[1], bool) and v[2][-2:] == ('as Some', '0'):
                    pending = chr(t[1])
            elif not e[0].startswith('<'):
                nm = e[0].split('::')[-1]
                if nm in ('next', 'find', 'position', 'any', 'nth', 'next_if', 'next_if_eq'):
                    pending = None
                elif nm == 'peek' and pending is not None:
                    unconsumed.append(pending)
                    pending = None
        if pending is not None:
            unconsumed.append(pending)
        if ret == OK(C(True)):
            ctx.check(not unconsumed, 'R7.4', 'marker-consumed', 'marker-left', 'every character matched as part of a comment marker is consumed (left in the input on an Ok(true) path: %s)' % unconsumed, span=f.span)
        if ret == OK(C(True)):
            n_true += 1
            ctx.check(line or (star and closed), 'R7.4', 'ok-true', 'unmatched-true', 'Ok(true) is returned only after `//` or after `/*` whose closing `*/` was found (facts %s)' % facts, span=f.span)
        elif ret == OK(C(False)):
            n_false += 1
            ctx.check(consumed == 0 and not line and not star, 'R7.4', 'ok-false', 'consumes', 'Ok(false) consumes nothing and is returned only when the next character starts no comment', span=f.span)
        elif is_adt(ret, 'result::Result', 'Err'):
            n_err += 1
            ctx.check(star and not line, 'R7.4', 'err', 'err', 'the error is reserved for an unterminated `/*`', span=f.span)
        else:
            ctx.unrecognised('R7.4', 'try_skip_comment:return', 'shape', 'unexpected return %s' % fmt(ret), span=f.span)
        if star and not closed and not line and ret != ('diverge',):
            ctx.check(is_adt(ret, 'result::Result', 'Err'), 'R7.4', 'unterminated', 'unterminated-accepted', 'an inline comment whose closing marker was not found is an error, never Ok (returns %s)' % fmt(ret), span=f.span)
    ctx.check(n_true >= 2 and n_false >= 1 and n_err >= 1, 'R7.4', 'outcomes', 'outcomes', 'all three outcomes occur (true %d, false %d, error %d)' % (n_true, n_false, n_err), span=f.span)
    ctx.check(terminators == {'\n'}, 'R7.4', 'line-terminator', 'terminator', 'a line comment ends exactly at `\\n` (terminators %s)' % sorted(terminators), span=f.span)
