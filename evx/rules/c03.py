"""C03 — operators compute exact, correctly typed results or a typed error (clause level).

The dispatch of every operator is decided for every combination of operand *types* (6 x 6 for binary, 6 for unary operators)
by abstract interpretation of Operator::eval with symbolic payloads:
R3.1 arity guard first (shared with C13 S13.4);
R3.2 two integers go to exactly the matching EvalexprInt::checked_* with operands in order, result re-wrapped as Int; the integer
     trait has no arithmetic operator supertraits (type-level witness);
R3.3 any other numeric pair is converted with int_as_float and combined by the matching core::ops method, result Float; `^` always
     EvalexprFloat::pow -> Float;
R3.4 operand order is (arguments[0], arguments[1]);
R3.5 comparisons use the matching PartialOrd method on strings, integers, and converted floats; ==/!= are Value's derived PartialEq
     for every type pair;
R3.6 &&, ||, ! accept only booleans (logic decided by enumeration of the paths);
R3.7 every other type combination is a type error (Expected*/WrongTypeCombination), never a value;
R3.8 impl EvalexprInt for i64: checked_X is i64::checked_X(self, rhs) and None becomes the matching arithmetic error carrying
     (self, rhs) in order; no wrapping/overflowing/unchecked operation, no raw arithmetic.
R3.10 the float side of the default numeric types: `<f64 as EvalexprFloat>::pow` (the only float operation `^` reaches that is not a
     core::ops method) is f64::powf(self, exponent) on its single path, and `DefaultNumericTypes::int_as_float` is the one
     `i64 as f64` conversion of its argument (no second cast, no arithmetic, no call).
Not decided: the numbers themselves (i64::checked_*, IEEE-754 operations and float formatting are trusted std)."""
import tables
from absint import Interp, SYM, C, ADT, OK, ERR, SOME, NONE, fmt, is_adt, Budget, P_OK, P_ERR, P_SOME, expand_results
from mirlib import short, path_endswith
from rules.witness import compile_witness
from rules.treepaths import branches_of

EXPLANATION = ('per-arm abstract interpretation of Operator::eval for every operator and every pair of operand types (14 x 36 + 2 x 6 cases) with symbolic payloads, '
               'compared with a table of expected dispatch shapes (callee, operand order, conversion, result constructor, error class); the i64 implementation of the '
               'checked operations is interpreted the same way; a compile-fail witness shows generic integer arithmetic cannot bypass the checked trait methods')

ARITH = {'Add': ('checked_add', 'std::ops::Add::add'), 'Sub': ('checked_sub', 'std::ops::Sub::sub'), 'Mul': ('checked_mul', 'std::ops::Mul::mul'),
         'Div': ('checked_div', 'std::ops::Div::div'), 'Mod': ('checked_rem', 'std::ops::Rem::rem')}
ORDER = {'Gt': 'gt', 'Lt': 'lt', 'Geq': 'ge', 'Leq': 'le'}
NUM = ('Int', 'Float')
INT_TRAIT = 'value::numeric_types::EvalexprInt::'
FLOAT_TRAIT = 'value::numeric_types::EvalexprFloat::'
ERRORS = {'checked_add': ('AdditionError', ('augend', 'addend')), 'checked_sub': ('SubtractionError', ('minuend', 'subtrahend')), 'checked_neg': ('NegationError', ('argument',)),
          'checked_mul': ('MultiplicationError', ('multiplicand', 'multiplier')), 'checked_div': ('DivisionError', ('dividend', 'divisor')), 'checked_rem': ('ModulationError', ('dividend', 'divisor'))}


def is_type_error(ret):
    if not (is_adt(ret, 'result::Result', 'Err') and is_adt(ret[4][0], 'error::EvalexprError')):
        return False
    n = ret[4][0][3]
    return n.startswith('Expected') or n in ('WrongTypeCombination', 'TypeError')


def make_runner(prog, f):
    """(operator adt, value adt, value type names, V, F, run_arm): abstract operands and the per-arm path enumerator of Operator::eval"""
    op = prog.adt(tables.OPERATOR)
    val = prog.adt(tables.VALUE)
    types = [v['name'] for v in val['variants']]

    def V(name, sym):
        v = [x for x in val['variants'] if x['name'] == name][0]
        return ADT(val['path'], v['idx'], name, [SYM(sym)] if v['fields'] else [])

    def F(name, sym):
        """abstract float view of a numeric operand"""
        return SYM(sym) if name == 'Float' else ('app', 'int_as_float', (SYM(sym),))

    def hook(it, fn, t, args):
        c = t['callee']
        if c['name'] == 'len' and not c.get('local') and args and args[0][0] == 'tuple':
            return C(len(args[0][1]))
        if c['name'] == 'int_as_float' and path_endswith(c.get('trait') or '', 'EvalexprNumericTypes'):
            return ('app', 'int_as_float', tuple(args))
        return None

    def run_arm(k, operands):
        v = [x for x in op['variants'] if x['name'] == k][0]
        return Interp(prog, hook=hook, max_depth=4).paths(f, [ADT(op['path'], v['idx'], k, []), ('tuple', tuple(operands)), SYM('ctx')])
    return op, val, types, V, F, run_arm


def run(ctx):
    prog = ctx.prog()
    ctx.trust('rustc nightly MIR of /repo; i64::checked_*, f64 arithmetic and comparison (std)')
    f = prog.fn('operator::Operator::<NumericTypes>::eval')
    if f is None:
        ctx.unrecognised('R3', 'Operator::eval', 'missing', 'not found')
        return
    op, val, types, V, F, run_arm = make_runner(prog, f)
    ctx.floor('R3', 'value_types', len(types), 6)
    n_cases = 0
    # ---- binary operators
    for k in tables.BINARY:
        for A in types:
            for B in types:
                n_cases += 1
                a, b = V(A, 'a'), V(B, 'b')
                inst = '%s[%s,%s]' % (k, A, B)
                try:
                    ps = run_arm(k, [a, b])
                except Budget:
                    ctx.unrecognised('R3', inst, 'budget', 'arm too complex', span=f.span)
                    continue
                rets = [p[0] for p in ps]
                got = [fmt(r)[:160] for r in rets]
                if k in ARITH:
                    chk, flt = ARITH[k]
                    if A == 'Int' and B == 'Int':
                        core = ('app', INT_TRAIT + chk, (SYM('a'), SYM('b')))
                        want = [OK(V2(val, 'Int', P_OK(core))), ERR(P_ERR(core))]
                        ctx.check(sorted(map(fmt, expand_results(rets))) == sorted(map(fmt, want)), 'R3.2', inst, 'int-path', 'two integers: exactly EvalexprInt::%s(a, b), result wrapped as Int (found %s)' % (chk, got), span=f.span)
                    elif A in NUM and B in NUM:
                        want = OK(V2(val, 'Float', ('app', flt, (F(A, 'a'), F(B, 'b')))))
                        ctx.check(rets == [want], 'R3.3', inst, 'float-path', 'mixed numbers: both converted to float, combined with %s(a, b), result Float (found %s)' % (flt.split('::')[-1], got), span=f.span)
                    elif k == 'Add' and A == 'String' and B == 'String':
                        good = len(ps) == 1 and is_adt(rets[0], 'result::Result', 'Ok') and is_adt(rets[0][4][0], 'value::Value', 'String')
                        if good:
                            sv = rets[0][4][0][4][0]
                            pushes = [e[2] for e in ps[0][1] if not e[0].startswith('<') and e[0].split('::')[-1] == 'push_str']
                            good = [x[1] for x in pushes] == [SYM('a'), SYM('b')] and all(x[0] == sv for x in pushes)
                        if not good and len(ps) == 1 and is_adt(rets[0], 'result::Result', 'Ok') and is_adt(rets[0][4][0], 'value::Value', 'String'):
                            # other accepted idioms: [a, b].concat() / [a, b].join("") / a + &b
                            sv = rets[0][4][0][4][0]

                            def bare(x):
                                while x[0] == 'app' and len(x[2]) == 1 and x[1].split('::')[-1] in ('as_str', 'as_ref', 'deref', 'clone', 'to_string', 'to_owned', 'borrow', 'into', 'from'):
                                    x = x[2][0]
                                return x
                            if sv[0] == 'app':
                                last = sv[1].split('::<')[0].split('::')[-1] if not sv[1].endswith('>') else sv[1].split('::')[-1]
                                nm = sv[1].split('::')[-1]
                                if nm == 'concat' and len(sv[2]) == 1 and sv[2][0][0] == 'tuple':
                                    good = [bare(x) for x in sv[2][0][1]] == [SYM('a'), SYM('b')]
                                elif nm == 'join' and len(sv[2]) == 2 and sv[2][0][0] == 'tuple' and sv[2][1] == C(''):
                                    good = [bare(x) for x in sv[2][0][1]] == [SYM('a'), SYM('b')]
                                elif nm == 'add' and 'ops::Add' in sv[1] and len(sv[2]) == 2:
                                    good = [bare(x) for x in sv[2]] == [SYM('a'), SYM('b')]
                        ctx.check(good, 'R3.3', inst, 'concat', '`+` on two strings concatenates a then b (found %s)' % got, span=f.span)
                    else:
                        ctx.check(len(ps) >= 1 and all(is_type_error(r) for r in rets), 'R3.7', inst, 'type-error', 'unsupported operand types yield a type error, never a value (found %s)' % got, span=f.span)
                elif k == 'Exp':
                    if A in NUM and B in NUM:
                        want = OK(V2(val, 'Float', ('app', FLOAT_TRAIT + 'pow', (F(A, 'a'), F(B, 'b')))))
                        ctx.check(rets == [want], 'R3.3', inst, 'pow', '`^` always converts to float and yields Float(pow(a, b)) (found %s)' % got, span=f.span)
                    else:
                        ctx.check(len(ps) >= 1 and all(is_type_error(r) for r in rets), 'R3.7', inst, 'type-error', 'unsupported operand types yield a type error (found %s)' % got, span=f.span)
                elif k in ('Eq', 'Neq'):
                    meth = 'eq' if k == 'Eq' else 'ne'
                    if A != B:
                        want = OK(V2(val, 'Boolean', C(k == 'Neq')))
                    elif A == 'Empty':
                        want = OK(V2(val, 'Boolean', C(k == 'Eq')))
                    else:
                        want = OK(V2(val, 'Boolean', ('app', 'std::cmp::PartialEq::' + meth, (a, b))))
                    ctx.check(rets == [want], 'R3.5', inst, 'equality', '`%s` is structural equality of the two values for every type pair (found %s)' % ('==' if k == 'Eq' else '!=', got), span=f.span)
                elif k in ORDER:
                    m = 'std::cmp::PartialOrd::' + ORDER[k]
                    if A == B and A in ('String', 'Int'):
                        want = OK(V2(val, 'Boolean', ('app', m, (SYM('a'), SYM('b')))))
                        ctx.check(rets == [want], 'R3.5', inst, 'ordering', 'same-typed %ss are compared with PartialOrd::%s(a, b) (found %s)' % (A, ORDER[k], got), span=f.span)
                    elif A in NUM and B in NUM:
                        want = OK(V2(val, 'Boolean', ('app', m, (F(A, 'a'), F(B, 'b')))))
                        ctx.check(rets == [want], 'R3.5', inst, 'ordering-float', 'mixed numbers are compared as floats with PartialOrd::%s(a, b) (found %s)' % (ORDER[k], got), span=f.span)
                    else:
                        ctx.check(len(ps) >= 1 and all(is_type_error(r) for r in rets), 'R3.7', inst, 'type-error', 'unsupported operand types yield a type error (found %s)' % got, span=f.span)
                elif k in ('And', 'Or'):
                    if A == 'Boolean' and B == 'Boolean':
                        short_c = OK(V2(val, 'Boolean', C(k == 'Or')))
                        full = OK(V2(val, 'Boolean', SYM('b')))
                        good = sorted(map(fmt, rets)) == sorted(map(fmt, [short_c, full]))
                        if good:
                            for ret, eff in ps:
                                br = [(v, t) for v, t in branches_of(eff) if v == SYM('a')]
                                taken_true = bool(br) and br[0][1] != C(0)
                                # And: a false -> false, a true -> b ; Or: a true -> true, a false -> b
                                exp = (full if taken_true else short_c) if k == 'And' else (short_c if taken_true else full)
                                good = good and ret == exp
                        ctx.check(good, 'R3.6', inst, 'logic', '`%s` on two booleans is the boolean %s (found %s)' % ('&&' if k == 'And' else '||', k.lower(), got), span=f.span)
                    else:
                        offender = a if A != 'Boolean' else b
                        want = ERR(ADT('error::EvalexprError', 0, 'ExpectedBoolean', [offender]))
                        good = len(ps) == 1 and is_adt(rets[0], 'result::Result', 'Err') and is_adt(rets[0][4][0], 'error::EvalexprError', 'ExpectedBoolean') and rets[0][4][0][4] == (offender,)
                        ctx.check(good, 'R3.6', inst, 'bool-only', 'a non-boolean operand yields ExpectedBoolean carrying that operand (found %s)' % got, span=f.span)
    # ---- unary operators
    for k in ('Neg', 'Not'):
        for A in types:
            n_cases += 1
            a = V(A, 'a')
            inst = '%s[%s]' % (k, A)
            ps = run_arm(k, [a])
            rets = [p[0] for p in ps]
            got = [fmt(r)[:160] for r in rets]
            if k == 'Neg':
                if A == 'Int':
                    core = ('app', INT_TRAIT + 'checked_neg', (SYM('a'),))
                    want = [OK(V2(val, 'Int', P_OK(core))), ERR(P_ERR(core))]
                    ctx.check(sorted(map(fmt, expand_results(rets))) == sorted(map(fmt, want)), 'R3.2', inst, 'int-path', 'integer negation goes through checked_neg (found %s)' % got, span=f.span)
                elif A == 'Float':
                    want = OK(V2(val, 'Float', ('app', 'std::ops::Neg::neg', (SYM('a'),))))
                    ctx.check(rets == [want], 'R3.3', inst, 'float-path', 'float negation (found %s)' % got, span=f.span)
                else:
                    ctx.check(len(ps) >= 1 and all(is_type_error(r) for r in rets), 'R3.7', inst, 'type-error', 'unsupported operand type yields a type error (found %s)' % got, span=f.span)
            else:
                if A == 'Boolean':
                    want = OK(V2(val, 'Boolean', ('app', 'unop:Not', (SYM('a'),))))
                    ctx.check(rets == [want], 'R3.6', inst, 'not', '`!` negates a boolean (found %s)' % got, span=f.span)
                else:
                    good = len(ps) == 1 and is_adt(rets[0], 'result::Result', 'Err') and is_adt(rets[0][4][0], 'error::EvalexprError', 'ExpectedBoolean') and rets[0][4][0][4] == (a,)
                    ctx.check(good, 'R3.6', inst, 'bool-only', 'a non-boolean operand yields ExpectedBoolean (found %s)' % got, span=f.span)
    ctx.counters['operator_type_cases'] = n_cases
    ctx.floor('R3', 'operator_type_cases', n_cases, 14 * 36 + 12)
    pe = [i for i in prog.facts['impls'] if path_endswith(i.get('trait') or '', 'cmp::PartialEq') and i['self_ty'].startswith('value::Value<')]
    ctx.check(len(pe) == 1 and pe[0]['derived'], 'R3.5', 'Value:PartialEq', 'derived', 'PartialEq for Value is the derived structural equality')
    r38(ctx, prog)
    r39(ctx, prog)
    r32_witness(ctx, prog)
    # R3.11 the compound forms `a op= b` apply the same arithmetic: what the mutable dispatcher stores is exactly the value the
    # (R3-checked) arm of the plain operator returned for (old value, right operand) - no comparison, rounding or skipping in
    # between (a store skipped when `result == old` loses the sign of a float zero).  The C04 R4.4 case analysis, reported here.
    from rules.c04 import r44
    from rules.c05 import _Renamed
    r44(_Renamed(ctx, 'R3.11'), prog)
    ctx.sample(dict(rule='R3.2', Add_Int_Int='Result::map(EvalexprInt::checked_add($a, $b), Value::Int)', Add_Int_Float='Ok(Value::Float(Add::add(int_as_float($a), $b)))'))


def V2(val, name, payload):
    v = [x for x in val['variants'] if x['name'] == name][0]
    return ADT(val['path'], v['idx'], name, [payload])


def r39(ctx, prog):
    fs = [f for f in prog.fns if f.name == 'pow' and path_endswith(f.j.get('impl_trait') or '', 'EvalexprFloat') and f.j.get('impl_self_ty') == 'f64']
    if len(fs) != 1:
        ctx.unrecognised('R3.10', '<f64 as EvalexprFloat>::pow', 'missing', 'not found')
    else:
        g = fs[0]
        args = [SYM('self'), SYM('exponent')]
        try:
            ps = Interp(prog).paths(g, args)
        except Budget:
            ps = []
        r = ps[0][0] if len(ps) == 1 else None
        good = r is not None and r[0] == 'app' and r[1].split('::')[-1] == 'powf' and 'f64' in r[1] and list(r[2]) == args
        raw = [st for blk in g.blocks if not blk['cleanup'] for st in blk['stmts'] if st['k'] == 'assign' and st['rv']['k'] in ('binop', 'cast')]
        ctx.check(good and not raw, 'R3.10', '<f64 as EvalexprFloat>::pow', 'powf', '`^` on the default float type is f64::powf(self, exponent) for every pair of operands: one path, no cast, no other operation (found %d path(s), %s)' % (len(ps), [fmt(p[0])[:100] for p in ps][:3]), span=g.span)
    fs = [f for f in prog.fns if f.name == 'int_as_float' and path_endswith(f.j.get('impl_trait') or '', 'EvalexprNumericTypes') and (f.j.get('impl_self_ty') or '').endswith('DefaultNumericTypes')]
    if len(fs) != 1:
        ctx.unrecognised('R3.10', 'DefaultNumericTypes::int_as_float', 'missing', 'not found')
        return
    g = fs[0]
    try:
        ps = Interp(prog).paths(g, [SYM('int')])
    except Budget:
        ps = []
    stmts = [st for blk in g.blocks if not blk['cleanup'] for st in blk['stmts'] if st['k'] == 'assign']
    casts = [st for st in stmts if st['rv']['k'] == 'cast']
    other = [st for st in stmts if st['rv']['k'] in ('binop', 'unop', 'aggregate')]
    calls = [t for _b, t in g.calls()]
    good = len(ps) == 1 and ps[0][0] == SYM('int') and len(casts) == 1 and 'IntToFloat' in str(casts[0]['rv'].get('kind') or casts[0]['rv'].get('cast') or casts[0]['rv']) and not other and not calls \
        and g.locals[0]['ty'] == 'f64'
    ctx.check(good, 'R3.10', 'DefaultNumericTypes::int_as_float', 'conversion', 'mixed arithmetic converts an integer with exactly one `i64 as f64` cast of the argument (casts %d, other operations %d, calls %d, returns %s)' % (len(casts), len(other), len(calls), [fmt(p[0])[:80] for p in ps][:2]), span=g.span)


def r38(ctx, prog):
    n = 0
    for meth, (errname, fields) in ERRORS.items():
        fs = [f for f in prog.fns if f.name == meth and path_endswith(f.j.get('impl_trait') or '', 'EvalexprInt') and f.j.get('impl_self_ty') == 'i64']
        if len(fs) != 1:
            ctx.unrecognised('R3.8', '<i64 as EvalexprInt>::' + meth, 'missing', 'not found')
            continue
        n += 1
        g = fs[0]
        unary = meth == 'checked_neg'
        args = [SYM('self')] if unary else [SYM('self'), SYM('rhs')]
        ps = Interp(prog).paths(g, args)
        core = ('app', 'core::num::<impl i64>::' + meth, tuple(args))
        oks = [p for p in ps if is_adt(p[0], 'result::Result', 'Ok')]
        errs = [p for p in ps if is_adt(p[0], 'result::Result', 'Err')]
        good = len(ps) == 2 and len(oks) == 1 and len(errs) == 1
        if good:
            good = oks[0][0] == OK(('proj', core, ('as Some', '0')))
            e = errs[0][0][4][0]
            intv = lambda s: ADT('value::Value', 2, 'Int', [s])
            good = good and is_adt(e, 'error::EvalexprError', errname) and e[4] == tuple(intv(a) for a in args)
            # the error path is the None edge of the core result
            br = [(v, t) for v, t in branches_of(errs[0][1]) if v == ('app', 'discriminant', (core,))]
            good = good and bool(br) and br[0][1] != C(1)
        calls = sorted({e[0] for p in ps for e in p[1] if not e[0].startswith('<') and 'core::num' in e[0]})
        ctx.check(good, 'R3.8', '<i64 as EvalexprInt>::' + meth, 'checked', '%s is i64::%s(self%s); None becomes %s carrying the operands in order; Some(x) becomes Ok(x) (core calls %s, returns %s)' % (meth, meth, '' if unary else ', rhs', errname, calls, [fmt(p[0])[:120] for p in ps]), span=g.span)
        bad = [c for c in calls if any(w in c for w in ('wrapping_', 'overflowing_', 'unchecked_', 'saturating_'))]
        ctx.check(not bad, 'R3.8', '<i64 as EvalexprInt>::%s:no-wrapping' % meth, 'wrapping', 'no wrapping/overflowing/unchecked/saturating operation (found %s)' % bad, span=g.span)
        raw = [st for blk in g.blocks if not blk['cleanup'] for st in blk['stmts'] if st['k'] == 'assign' and st['rv']['k'] == 'binop' and st['rv']['op'] in ('Add', 'Sub', 'Mul', 'Div', 'Rem', 'AddWithOverflow', 'SubWithOverflow', 'MulWithOverflow', 'AddUnchecked', 'SubUnchecked', 'MulUnchecked', 'Shl', 'Shr')]
        ctx.check(not raw, 'R3.8', '<i64 as EvalexprInt>::%s:no-raw-arithmetic' % meth, 'raw', 'no raw arithmetic on the operands', span=g.span)
    ctx.floor('R3.8', 'checked_methods', n, 6)


def r32_witness(ctx, prog):
    tr = [t for t in prog.facts['traits'] if t['path'].endswith('numeric_types::EvalexprInt')]
    sup = ' '.join(tr[0]['super_predicates']) if tr else ''
    ctx.check(bool(tr) and not any(('ops::' + o) in sup for o in ('Add', 'Sub', 'Mul', 'Div', 'Rem', 'Neg')), 'R3.2', 'EvalexprInt:no-operator-supertraits', 'supertraits',
              'the integer trait has no arithmetic operator supertrait: generic code can only use the checked methods')
    ex = ctx.extraction()
    okp, msg = compile_witness(ex, 'use evalexpr::*;\nfn add<N: EvalexprNumericTypes>(a: N::Float, b: N::Float) -> N::Float { a + b }\n')
    ctx.check(okp, 'R3.2', 'witness:float-operators-compile', 'twin', 'compiling twin: generic float addition type-checks (%s)' % msg)
    okf, msg = compile_witness(ex, 'use evalexpr::*;\nfn add<N: EvalexprNumericTypes>(a: N::Int, b: N::Int) -> N::Int { a + b }\n', expect_ok=False, code='E0369', must_mention='Int')
    ctx.check(okf, 'R3.2', 'witness:int-operators-rejected', 'witness', 'compile-fail witness: generic integer `a + b` does not type-check (%s)' % msg)
