"""C08 — strict left-to-right evaluation; the first error wins (claimed structurally).

For both recursive evaluators (Node::eval_with_context, Node::eval_with_context_mut):
R8.1 one forward pass: the recursive call sits in a loop driven by slice::Iter::next on the iterator obtained directly from
     self.children(); every callee of the function is in the accepted list (no rev/skip/take/filter/next_back/sort);
R8.2 each child once, error first: exactly one recursive call site, inside the loop, whose result goes through `?`; the Break
     edge reaches the return without passing another recursive call or the operator call;
R8.3 no short-circuit: the operator is not read before the loop's exit edge; Operator::eval[_mut] is called once, after the loop,
     with all collected arguments (pushed in iteration order) and the same context;
R8.4 op-assign order inside eval_mut: read X, compute, write X (dominance chain) - shared with C04 R4.4;
R8.5 Context::call_function is invoked once per FunctionIdentifier evaluation with arguments[0] - shared with C09 R9.1;
     effects persist: the mutable path neither clones nor restores the context.
R8.6 operator application is strict in both operands (no value-level short-circuit): for every binary operator other than
     ==/!= (which accept every type), an operand of a type the operator accepts nowhere (Value::Empty) makes every path of
     Operator::eval end in an error, whatever the type or value of the other operand and in either position.
"""
import tables
from absint import Interp, SYM, C, ADT, OK, ERR, fmt, is_adt, Budget
from mirlib import (short, path_endswith, callee_matches, op_place, resolve_place, def_roots, question_mark, switch_on_discriminant,
                    is_local, same_place)

EXPLANATION = ('path/dominance rules over the MIR of the two recursive evaluators: loop shape (slice iterator over self.children()), single recursive call site under `?`, '
               'operator consulted only after the loop exit edge, accepted-callee list; op-assign read-compute-write dominance chain in Operator::eval_mut')

ACCEPTED = {'new', 'with_capacity', 'len', 'children', 'into_iter', 'next', 'branch', 'from_residual', 'push', 'operator', 'deref', 'eval', 'eval_mut', 'eval_with_context', 'eval_with_context_mut', 'iter'}


def run(ctx):
    prog = ctx.prog()
    ctx.trust('rustc nightly MIR of /repo; std slice::Iter yields elements in index order; Vec::push appends')
    for name, opname in (('eval_with_context', 'eval'), ('eval_with_context_mut', 'eval_mut')):
        f = prog.fn('tree::Node::<NumericTypes>::' + name)
        if f is None:
            ctx.unrecognised('R8.1', 'Node::' + name, 'missing', 'evaluator not found')
            continue
        evaluator(ctx, prog, f, name, opname)
    r84(ctx, prog)
    r85(ctx, prog)
    r86(ctx, prog)


def evaluator(ctx, prog, f, name, opname):
    inst = 'Node::' + name
    calls = list(f.calls())
    names = [t['callee']['name'] for _, t in calls]
    # accepted callee list
    extra = sorted(set(names) - ACCEPTED)
    ctx.check(not extra, 'R8.1', inst + ':callees', 'callee', 'only the accepted callees occur (no reordering/skipping adaptor); unexpected: %s' % extra, span=f.span)
    rec = [(b, t) for b, t in calls if t['callee'].get('local') and short(t['callee']['def']) == short(f.path)]
    if not ctx.check(len(rec) == 1, 'R8.2', inst + ':recursive-call', 'count', 'exactly one recursive call site (found %d)' % len(rec), span=f.span):
        return
    rb, rt = rec[0]
    # the loop: next() on a slice iterator obtained from into_iter(children(self))
    nexts = [(b, t) for b, t in calls if t['callee']['name'] == 'next' and path_endswith(t['callee'].get('trait') or '', 'iter::Iterator')]
    if not ctx.check(len(nexts) == 1 and 'slice::Iter<' in (nexts[0][1]['callee'].get('self_ty') or ''), 'R8.1', inst + ':iterator', 'iterator', 'the loop advances a std::slice::Iter with Iterator::next (found %s)' % [(t['callee'].get('self_ty')) for _, t in nexts], span=f.span):
        return
    nb, nt = nexts[0]
    it_place = resolve_place(f, op_place(nt['args'][0]))
    # provenance of the iterator local: into_iter(children(self)) [or children(self).iter()]
    roots = def_roots(f, it_place['l']) if is_local(it_place) or not it_place['p'] else []
    def source_ok(local, depth=4):
        """the iterator value in `local` comes from `self.children()` / `self.children` through iter()/into_iter() only"""
        rs = def_roots(f, local)
        if len(rs) != 1 or rs[0][1] != 'term' or depth == 0:
            return False
        t = rs[0][2]
        nm = t['callee']['name']
        if callee_matches(t, ['tree::Node::<NumericTypes>::children']):
            recv = resolve_place(f, op_place(t['args'][0]))
            return recv['l'] == 1
        if nm in ('into_iter', 'iter') and len(t['args']) == 1:
            rsrc = resolve_place(f, op_place(t['args'][0]))
            if rsrc['l'] == 1 and any(isinstance(p_, dict) and p_.get('name') == 'children' for p_ in rsrc['p']):
                return True
            return source_ok(rsrc['l'], depth - 1)
        return False
    prov_ok = source_ok(it_place['l']) if not it_place['p'] else False
    ctx.check(prov_ok and len(roots) == 1, 'R8.1', inst + ':iterator-source', 'source', 'the iterator is obtained directly from self.children() (no adaptor in between)', span=nt['span'])
    # loop structure: next block's result switch: Some edge leads to the recursive call, None edge leaves the loop
    sw = switch_on_discriminant(f, nt['target'])
    if sw is None or not same_place(sw[0], nt['dest']):
        ctx.unrecognised('R8.1', inst + ':loop', 'shape', 'no match on the result of next()', span=nt['span'])
        return
    some = [tg for v, tg in sw[1] if v == 1]
    none = [tg for v, tg in sw[1] if v == 0] or [sw[2]]
    some_t, none_t = some[0] if some else sw[2], none[0]
    in_loop = f.edge_dominates((nt['target'], some_t), rb) and nb in f.reachable_from(rb)
    ctx.check(in_loop, 'R8.1', inst + ':loop', 'loop', 'the recursive call is inside the loop body (dominated by the Some edge of next(), and next() is reachable again from it)', span=rt['span'])
    # the child evaluated is the element just yielded
    child = resolve_place(f, op_place(rt['args'][0]))
    yielded = dict(l=nt['dest']['l'], p=[])
    child_ok = child['l'] == nt['dest']['l'] or any(r[1] != 'term' and r[0] != 'arg' and op_place(r[2].get('op', {})) is not None and op_place(r[2]['op'])['l'] == nt['dest']['l'] for r in def_roots(f, child['l']))
    ctx.check(child_ok, 'R8.2', inst + ':child', 'child', 'the recursive call evaluates exactly the element yielded by next()', span=rt['span'])
    # context forwarded
    cpl = resolve_place(f, op_place(rt['args'][1]))
    ctx.check(cpl['l'] == 2, 'R8.2', inst + ':context', 'context', 'the recursive call receives the same context', span=rt['span'])
    # `?`: Break edge returns without another evaluation
    qm = question_mark(f, rb)
    if not ctx.check(qm is not None and qm['brk'] is not None, 'R8.2', inst + ':question-mark', 'try', 'the child result goes through `?`', span=rt['span']):
        return
    after_break = f.reachable_from(qm['brk'])
    bad = [b for b, t in calls if b in after_break and (t['callee']['name'] in ('eval', 'eval_mut', name, 'next', 'push'))]
    rets = [b for b in after_break if f.term(b)['k'] == 'return']
    ctx.check(not bad and bool(rets), 'R8.2', inst + ':first-error-wins', 'error-path', 'after a failing child the function returns that error without evaluating anything else (calls after the Break edge: %s)' % [f.term(b)['callee']['name'] for b in bad], span=f.term(qm['switch'])['span'])
    # the residual returned is the child's error
    fr = [(b, t) for b, t in calls if b in after_break and t['callee']['name'] == 'from_residual']
    ctx.check(len(fr) == 1 and fr[0][1]['dest']['l'] == 0, 'R8.2', inst + ':error-value', 'residual', 'the returned error is the child\'s residual', span=f.span)
    # Continue edge: value pushed to the arguments vector, then back to next()
    pushes = [(b, t) for b, t in calls if callee_matches(t, ['vec::Vec::<T, A>::push'])]
    push_ok = len(pushes) == 1 and f.edge_dominates((qm['switch'], qm['cont']), pushes[0][0])
    ctx.check(push_ok, 'R8.3', inst + ':collect', 'push', 'each child value is pushed once onto the argument vector on the Continue edge', span=f.span)
    # R8.3 operator consulted only after the loop exit edge
    exit_edge = (nt['target'], none_t)
    op_reads = [(b, t) for b, t in calls if t['callee']['name'] in ('operator', opname, 'eval', 'eval_mut')]
    field_reads = []
    for blk in f.blocks:
        if blk['cleanup']:
            continue
        for st in blk['stmts']:
            if st['k'] == 'assign':
                rv = st['rv']
                pls = []
                if rv['k'] in ('ref', 'discriminant'):
                    pls.append(rv['pl'])
                elif rv['k'] == 'use' and op_place(rv['op']) is not None:
                    pls.append(op_place(rv['op']))
                for pl in pls:
                    if pl['l'] == 1 and any(isinstance(p, dict) and p.get('name') == 'operator' for p in pl['p']):
                        field_reads.append(blk['id'])
    early = [b for b, _ in op_reads if not f.edge_dominates(exit_edge, b)] + [b for b in field_reads if not f.edge_dominates(exit_edge, b)]
    ctx.check(not early and op_reads, 'R8.3', inst + ':no-short-circuit', 'operator-before-loop-end', 'the operator is not consulted before all children are evaluated (reads before the loop exit edge: bb%s)' % early, span=f.span)
    evs = [(b, t) for b, t in calls if t['callee'].get('local') and t['callee']['name'] == opname and 'Operator' in t['callee']['def']]
    good = len(evs) == 1
    if good:
        eb, et = evs[0]
        a1 = resolve_place(f, op_place(et['args'][1]))
        a2 = resolve_place(f, op_place(et['args'][2]))
        vec_local = resolve_place(f, op_place(pushes[0][1]['args'][0]))['l'] if pushes else None
        good = a1['l'] == vec_local and a2['l'] == 2 and et['dest']['l'] == 0
    ctx.check(good, 'R8.3', inst + ':apply', 'apply', 'Operator::%s is called once, after the loop, with the collected arguments and the context, and its result is returned' % opname, span=f.span)
    # no clone/restore of the context
    ctx.check('clone' not in names, 'R8.5', inst + ':no-context-clone', 'clone', 'the evaluator does not clone or restore the context: effects of evaluated children persist', span=f.span)


def r84(ctx, prog):
    f = prog.fn('operator::Operator::<NumericTypes>::eval_mut')
    if f is None:
        ctx.unrecognised('R8.4', 'Operator::eval_mut', 'missing', 'not found')
        return
    calls = list(f.calls())
    reads = []
    for b, t in calls:
        if t['callee'].get('local') and t['callee']['name'] == 'eval' and 'Operator' in t['callee']['def']:
            recv = op_place(t['args'][0])
            roots = def_roots(f, resolve_place(f, recv)['l']) if recv is not None else []
            kinds = {r[2].get('vname') for r in roots if r[1] != 'term' and r[0] != 'arg' and r[2].get('k') == 'aggregate'}
            for r in roots:
                if r[1] != 'term' and r[0] != 'arg' and r[2].get('k') == 'use':
                    from mirlib import op_const
                    c = op_const(r[2]['op'])
                    if c and c.get('k') == 'unevaluated' and c.get('promoted') is not None:
                        v = Interp(prog).promoted(f, c['promoted'])
                        if v[0] == 'adt':
                            kinds.add(v[3])
            reads.append((b, t, kinds))
    read_calls = [(b, t) for b, t, k in reads if k == {'VariableIdentifierRead'}]
    op_calls = [(b, t, k) for b, t, k in reads if k and k != {'VariableIdentifierRead'}]
    sets = [(b, t) for b, t in calls if t['callee']['name'] == 'set_value']
    ctx.floor('R8.4', 'op_assign_operator_calls', len(op_calls), 8)
    if len(read_calls) != 1:
        ctx.unrecognised('R8.4', 'eval_mut:read', 'shape', 'expected one VariableIdentifierRead evaluation, found %d' % len(read_calls), span=f.span)
        return
    rb = read_calls[0][0]
    qm_r = question_mark(f, rb)
    for b, t, k in op_calls:
        ctx.check(qm_r is not None and f.edge_dominates((qm_r['switch'], qm_r['cont']), b), 'R8.4', 'eval_mut:%s:after-read' % sorted(k)[0], 'order', 'the operation is evaluated only after the variable was read successfully', span=t['span'])
    # the write after the operations: the op-assign set_value is dominated by the read and reachable from every operation
    w = [(b, t) for b, t in sets if f.dominates(rb, b)]
    ctx.check(len(w) == 1 and all(w[0][0] in f.reachable_from(b) for b, _, _ in op_calls), 'R8.4', 'eval_mut:write-last', 'order', 'the variable is written after the operation (set_value dominated by the read, reached from every operation)', span=f.span)


def r85(ctx, prog):
    f = prog.fn('operator::Operator::<NumericTypes>::eval')
    if f is None:
        return
    cf = [(b, t) for b, t in f.calls() if t['callee']['name'] == 'call_function' and path_endswith(t['callee'].get('trait') or '', 'context::Context')]
    ctx.check(len(cf) == 1, 'R8.5', 'Operator::eval:call_function', 'count', 'Context::call_function has exactly one call site (the FunctionIdentifier arm; its single invocation per evaluation is decided by C09 R9.1)', span=f.span)


def r86(ctx, prog):
    from rules.c03 import make_runner
    f = prog.fn('operator::Operator::<NumericTypes>::eval')
    if f is None:
        ctx.unrecognised('R8.6', 'Operator::eval', 'missing', 'not found')
        return
    op, val, types, V, F, run_arm = make_runner(prog, f)
    n = 0
    for k in tables.BINARY:
        if k in ('Eq', 'Neq'):
            continue
        for pos in (0, 1):
            for other in types:
                operands = [V(other, 'a'), V(other, 'b')]
                operands[pos] = V('Empty', 'e')
                inst = '%s[%s]' % (k, ','.join('Empty' if i == pos else other for i in (0, 1)))
                try:
                    ps = run_arm(k, operands)
                except Budget:
                    ctx.unrecognised('R8.6', inst, 'budget', 'arm too complex', span=f.span)
                    continue
                n += 1
                rets = [p[0] for p in ps]
                ctx.check(len(ps) >= 1 and all(is_adt(r, 'result::Result', 'Err') for r in rets), 'R8.6', inst, 'strict',
                          'an unacceptable operand in position %d is reported on every path, whatever the other operand is (found %s)' % (pos, [fmt(r)[:80] for r in rets]), span=f.span)
    ctx.floor('R8.6', 'strictness_cases', n, 12 * 2 * 6)
