"""C08 — strict left-to-right evaluation; the first error wins (claimed structurally).

For both recursive evaluators (Node::eval_with_context, Node::eval_with_context_mut):
R8.1 one forward pass: the recursive call sits in a loop driven by slice::Iter::next on the iterator obtained directly from
     self.children(); every callee of the function is in the accepted list (no rev/skip/take/filter/next_back/sort);
R8.2 each child once, error first: exactly one recursive call site, inside the loop, whose result goes through `?`; the Break
     edge reaches the return without passing another recursive call or the operator call;
R8.3 no short-circuit: the operator is not read before the loop's exit edge; Operator::eval[_mut] is called once, after the loop,
     with all collected arguments (pushed in iteration order) and the same context;
R8.4 op-assign order inside eval_mut: read X, compute, write X; a failing step prevents the later ones (the C04 R4.4 case analysis);
R8.7 every typed / string-level entry point reaches the root evaluator exactly once per path (shared with C12);
R8.5 Context::call_function is invoked once per FunctionIdentifier evaluation with arguments[0] - shared with C09 R9.1;
     effects persist: the mutable path neither clones nor restores the context.
R8.6 operator application is strict in both operands (no value-level short-circuit): for every binary operator other than
     ==/!= (which accept every type), an operand of a type the operator accepts nowhere (Value::Empty) makes every path of
     Operator::eval end in an error, whatever the type or value of the other operand and in either position.
"""
import tables
from absint import Interp, SYM, C, ADT, OK, ERR, Fork, fmt, is_adt, Budget, has_subterm
from mirlib import (short, path_endswith, callee_matches, op_place, resolve_place, def_roots, question_mark, switch_on_discriminant, continue_payload_local,
                    is_local, same_place)

EXPLANATION = ('path/dominance rules over the MIR of the two recursive evaluators: loop shape (slice iterator over self.children()), single recursive call site under `?`, '
               'operator consulted only after the loop exit edge, accepted-callee list; op-assign read-compute-write dominance chain in Operator::eval_mut')

ACCEPTED = {'new', 'with_capacity', 'len', 'children', 'into_iter', 'next', 'branch', 'from_residual', 'push', 'operator', 'deref', 'eval', 'eval_mut', 'eval_with_context', 'eval_with_context_mut', 'iter'}


def run(ctx):
    prog = ctx.prog()
    ctx.trust('rustc nightly MIR of /repo; std slice::Iter yields elements in index order; Vec::push appends')
    for name, opname in (('eval_with_context', 'eval'), ('eval_with_context_mut', 'eval_mut')):
        f = prog.fn('tree::Node::<NumericTypes>::' + name)
        if f is None:
            ctx.unrecognised('R8.1', 'Node::' + name, 'missing', 'evaluator not found')
            continue
        evaluator(ctx, prog, f, name, opname)
    r84(ctx, prog)
    r85(ctx, prog)
    r86(ctx, prog)
    r87(ctx, prog)
    # R8.8 the first error wins also inside a function call: an error returned by a function of the context is the result of the call
    # (it is not retried with a builtin, replaced or dropped) - the C09 R9.1 case analysis of the FunctionIdentifier arm over every
    # outcome of Context::call_function, reported here
    from rules.c09 import r91
    from rules.c05 import _Renamed
    r91(_Renamed(ctx, 'R8.8'), prog)
    # R8.9 "all elements of a tuple or chain are evaluated": the evaluators walk the children the tree has, so every element written in
    # the source has to be a child - the C05 rules on the separator branch of the tree builder (S5.1 every separator opens an element,
    # S5.5 element conservation, S5.8 the separator's decision, S5.10 collapsing drops nothing), reported here: a builder that drops a
    # "useless" element skips its evaluation, its errors and its effects
    from rules import c05
    from rules.common import safe_tables
    r89 = _Renamed(ctx, 'R8.9')
    T = safe_tables(r89, prog, 'R8.9')
    if T is not None:
        c05.s51(r89, prog)
        c05.s55(r89, prog)
        c05.s58(r89, prog, T)
        c05.s510(r89, prog)
    # R8.10 "evaluation stops at the first failing sub-expression": an assignment fails exactly when the context's set_value says so -
    # the C04 R4.2 decision table of HashMapContext::set_value over all 36 type pairs (same type or unbound: stored; any other pair:
    # the matching expected-type error, nothing stored), reported here: a pair that wrongly succeeds lets everything after it run
    from rules.c04 import r42
    r42(_Renamed(ctx, 'R8.10'), prog)


class _BaseCallOnly:
    """forwards, under rule R8.7, only those reports of the C12 entry-point analysis that say how often the root evaluator is reached"""
    def __init__(self, ctx, rule='R8.7'):
        self._ctx = ctx
        self._rule = rule
        self.n = 0

    def __getattr__(self, n):
        return getattr(self._ctx, n)

    def _mine(self, code):
        return code == 'base-call' or str(code).startswith('value-dependent')

    def violation(self, rule, inst, code, *a, **k):
        if self._mine(code):
            return self._ctx.violation(self._rule, inst, code, *a, **k)

    def unrecognised(self, rule, inst, code, *a, **k):
        return self._ctx.unrecognised(self._rule, inst, code, *a, **k)

    def check(self, cond, rule, inst, code, *a, **k):
        if self._mine(code):
            return self._ctx.check(cond, self._rule, inst, code, *a, **k)

    def ok(self, rule, inst, *a, **k):
        self.n += 1

    def floor(self, *a, **k):
        pass

    def sample(self, *a, **k):
        pass


def r87(ctx, prog, rule='R8.7', only_mut=False):
    """every node is evaluated exactly once also through the typed and the string-level entry points: each of them reaches the root
    evaluator exactly once on every path (the C12 entry-point analysis, of which only this part is reported here) - a wrapper that
    evaluates, looks at the result and evaluates again repeats every side effect of the expression"""
    from rules import c12
    w = _BaseCallOnly(ctx, rule)
    worlds = c12.value_worlds(prog)
    n = 0
    for f in prog.fns:
        if f.kind not in ('Fn', 'AssocFn') or not f.name:
            continue
        m = c12.NAME_RE.match(f.name)
        if not m:
            continue
        g = 'interface' if f.path.startswith('interface::') else ('node' if path_endswith(c12.short(f.path), 'tree::Node::' + f.name) else None)
        if g is None:
            continue
        ty, mut = m.group(1), m.group(2)
        has_ctx = '_with_context' in f.name
        if ty is None and has_ctx and g == 'node':
            continue
        if only_mut and has_ctx and not mut:
            continue
        n += 1
        c12.entry(w, prog, f, g, ty, bool(mut), has_ctx, worlds)
    ctx.floor(rule, 'entry_points', n, 25 if only_mut else 40)
    if w.n:
        ctx.ok(rule, 'entry-points:evaluate-once', '%d entry point cases reach the root evaluator (the mutable one for the `_mut` and the context-free forms) exactly once' % w.n)


def evaluator_collect(ctx, prog, f, name, opname):
    """second accepted idiom: self.children().iter().map(|c| c.<evaluator>(context)).collect::<Result<Vec<_>, _>>()? followed by the
    operator application. Returns True when the function has this shape (and reports its obligations), False otherwise.
    std facts used: slice::Iter yields in index order, Map applies the closure to each item once and lazily, and collecting into
    Result<Vec<_>, E> pulls items in order, stops at the first Err and returns it (core::iter::adapters::GenericShunt)."""
    inst = 'Node::' + name
    calls = list(f.calls())
    maps = [(b, t) for b, t in calls if t['callee']['name'] == 'map' and path_endswith(t['callee'].get('trait') or '', 'iter::Iterator')]
    cols = [(b, t) for b, t in calls if t['callee']['name'] == 'collect' and path_endswith(t['callee'].get('trait') or '', 'iter::Iterator')]
    if len(maps) != 1 or len(cols) != 1:
        return False
    (mb, mt), (cb, ct) = maps[0], cols[0]
    names = [t['callee']['name'] for _, t in calls]
    extra = sorted(set(names) - (ACCEPTED | {'map', 'collect'}))
    ctx.check(not extra, 'R8.1', inst + ':callees', 'callee', 'only the accepted callees occur (no reordering/skipping adaptor); unexpected: %s' % extra, span=f.span)
    ctx.check('slice::Iter<' in (mt['callee'].get('self_ty') or ''), 'R8.1', inst + ':iterator', 'iterator', 'the mapped iterator is a std::slice::Iter (found %s)' % mt['callee'].get('self_ty'), span=mt['span'])
    # source of the iterator: iter(children(self))
    def source_ok(local, depth=4):
        rs = def_roots(f, local)
        if len(rs) != 1 or rs[0][1] != 'term' or depth == 0:
            return False
        t = rs[0][2]
        if callee_matches(t, ['tree::Node::<NumericTypes>::children']):
            return resolve_place(f, op_place(t['args'][0]))['l'] == 1
        if t['callee']['name'] in ('into_iter', 'iter') and len(t['args']) == 1:
            rsrc = resolve_place(f, op_place(t['args'][0]))
            if rsrc['l'] == 1 and any(isinstance(p_, dict) and p_.get('name') == 'children' for p_ in rsrc['p']):
                return True
            return source_ok(rsrc['l'], depth - 1)
        return False
    recv = resolve_place(f, op_place(mt['args'][0]))
    ctx.check(not recv['p'] and source_ok(recv['l']), 'R8.1', inst + ':iterator-source', 'source', 'the iterator is obtained directly from self.children() (no adaptor in between)', span=mt['span'])
    # the closure: one call, the recursive evaluator on its item with the captured context, result returned as is
    cl_pl = op_place(mt['args'][1])
    cl_roots = def_roots(f, cl_pl['l']) if cl_pl is not None else []
    body = None
    captured_ctx = False
    if len(cl_roots) == 1 and cl_roots[0][1] != 'term' and cl_roots[0][0] != 'arg' and cl_roots[0][2].get('k') == 'aggregate' and cl_roots[0][2].get('agg') == 'closure':
        rv = cl_roots[0][2]
        body = prog.by_path.get(rv.get('def') or rv.get('adt') or '')
        caps = [resolve_place(f, op_place(o)) for o in rv.get('ops', []) if op_place(o) is not None]
        captured_ctx = len(caps) == 1 and caps[0]['l'] == 2
    good = body is not None and captured_ctx
    if good:
        bcalls = list(body.calls())
        good = len(bcalls) == 1 and bcalls[0][1]['callee'].get('local') and short(bcalls[0][1]['callee']['def']) == short(f.path) and bcalls[0][1]['dest']['l'] == 0 and not bcalls[0][1]['dest']['p']
        if good:
            bt = bcalls[0][1]
            item = resolve_place(body, op_place(bt['args'][0]))
            cx = resolve_place(body, op_place(bt['args'][1]))
            good = item['l'] == 2 and cx['l'] == 1 and body.term(bt['target'])['k'] == 'return'
    ctx.check(good, 'R8.2', inst + ':recursive-call', 'count', 'the mapped closure makes exactly one call, the recursive evaluator on the yielded child with the same context, and returns its result unchanged', span=mt['span'])
    ctx.check(good, 'R8.2', inst + ':child', 'child', 'the recursive call evaluates exactly the element yielded by the iterator', span=mt['span'])
    ctx.check(good, 'R8.2', inst + ':context', 'context', 'the recursive call receives the same context', span=mt['span'])
    # collect::<Result<Vec<_>, _>>() on the map, through `?`
    src = resolve_place(f, op_place(ct['args'][0]))
    into = (ct['callee'].get('args') or [''])[-1]
    okc = src['l'] == mt['dest']['l'] and into.startswith('std::result::Result<std::vec::Vec<')
    ctx.check(okc, 'R8.3', inst + ':collect', 'push', 'the child values are collected in order into Result<Vec<_>, _> (stops at the first error)', span=ct['span'])
    qm = question_mark(f, cb)
    if not ctx.check(qm is not None and qm['brk'] is not None, 'R8.2', inst + ':question-mark', 'try', 'the collected result goes through `?`', span=ct['span']):
        return True
    after_break = f.reachable_from(qm['brk'])
    bad = [b for b, t in calls if b in after_break and (t['callee']['name'] in ('eval', 'eval_mut', name, 'next', 'push', 'map', 'collect'))]
    rets = [b for b in after_break if f.term(b)['k'] == 'return']
    ctx.check(not bad and bool(rets), 'R8.2', inst + ':first-error-wins', 'error-path', 'after a failing child the function returns that error without evaluating anything else', span=f.term(qm['switch'])['span'])
    fr = [(b, t) for b, t in calls if b in after_break and t['callee']['name'] == 'from_residual']
    ctx.check(len(fr) == 1 and fr[0][1]['dest']['l'] == 0, 'R8.2', inst + ':error-value', 'residual', 'the returned error is the child\'s residual', span=f.span)
    # operator consulted only after all children are evaluated
    exit_edge = (qm['switch'], qm['cont'])
    op_reads = [(b, t) for b, t in calls if t['callee']['name'] in ('operator', opname, 'eval', 'eval_mut')]
    early = [b for b, _ in op_reads if not f.edge_dominates(exit_edge, b)] + [b for b in _operator_field_reads(f) if not f.edge_dominates(exit_edge, b)]
    ctx.check(not early and op_reads, 'R8.3', inst + ':no-short-circuit', 'operator-before-loop-end', 'the operator is not consulted before all children are evaluated (reads before the Continue edge of `?`: bb%s)' % early, span=f.span)
    evs = [(b, t) for b, t in calls if t['callee'].get('local') and t['callee']['name'] == opname and 'Operator' in t['callee']['def']]
    good = len(evs) == 1
    if good:
        eb, et = evs[0]
        a1 = resolve_place(f, op_place(et['args'][1]))
        a2 = resolve_place(f, op_place(et['args'][2]))
        payload = continue_payload_local(f, qm)
        vec_roots = {r[2]['op']['pl']['l'] if False else None for r in []}
        # the argument vector is the Continue payload of the `?` (possibly moved into a named local)
        def from_payload(l, depth=3):
            if l in payload:
                return True
            if depth == 0:
                return False
            for r in def_roots(f, l):
                if r[1] != 'term' and r[0] != 'arg' and r[2].get('k') == 'use' and op_place(r[2]['op']) is not None:
                    if from_payload(op_place(r[2]['op'])['l'], depth - 1):
                        return True
            return False
        good = from_payload(a1['l']) and a2['l'] == 2 and et['dest']['l'] == 0
    ctx.check(good, 'R8.3', inst + ':apply', 'apply', 'Operator::%s is called once, after all children, with the collected arguments and the context, and its result is returned' % opname, span=f.span)
    ctx.check('clone' not in names, 'R8.5', inst + ':no-context-clone', 'clone', 'the evaluator does not clone or restore the context: effects of evaluated children persist', span=f.span)
    return True


def _operator_field_reads(f):
    out = []
    for blk in f.blocks:
        if blk['cleanup']:
            continue
        for st in blk['stmts']:
            if st['k'] == 'assign':
                rv = st['rv']
                pls = []
                if rv['k'] in ('ref', 'discriminant'):
                    pls.append(rv['pl'])
                elif rv['k'] == 'use' and op_place(rv['op']) is not None:
                    pls.append(op_place(rv['op']))
                for pl in pls:
                    if pl['l'] == 1 and any(isinstance(p, dict) and p.get('name') == 'operator' for p in pl['p']):
                        out.append(blk['id'])
    return out


def evaluator_sem(ctx, prog, f, name, opname):
    """The evaluator decided by interpretation: the body is interpreted on a node with 0..3 concrete children; every evaluation of a child
    (any crate function receiving that child) is observed and made to succeed or fail. Required: children are evaluated in order,
    each exactly once, with the caller's context; the first failure is returned and nothing else is evaluated after it; when all
    succeed Operator::eval[_mut] is applied once to the operator, the collected values in order and the context, and its result
    is returned. Whether the walk is a for loop, an iterator chain or a generic helper shared between the two evaluators does not
    matter. Returns True when the interpretation was conclusive (obligations reported), False when it was not (structural rule applies)."""
    inst = 'Node::' + name
    node_adt = prog.adt('tree::Node')
    if node_adt is None:
        return False
    results = []
    counter = [0]
    for n in range(0, 4):
        kids = tuple(SYM('child%d' % i) for i in range(n))
        selfv = ADT(node_adt['path'], 0, 'Node', [SYM('op'), ('tuple', kids)])

        def hook(it, fn, t, args, kids=kids):
            c = t['callee']
            if c.get('local') and args and args[0] in kids:
                i = kids.index(args[0])
                return Fork([OK(SYM('value%d' % i)), ERR(SYM('error%d' % i))])
            if c.get('local') and c['name'] == opname and 'Operator' in c['def']:
                return ('app', 'Operator::' + opname, tuple(args))
            if not c.get('local') and c['name'] in ('len', 'is_empty', 'capacity'):
                # sizes stay unknown: the walk is interpreted on short child lists, so a decision that depends on how many children
                # or values there are must show up as a fork (and then as a deviating outcome), not be settled by the small example
                counter[0] += 1
                return ('app', '%s#%d' % (c['name'], counter[0]), tuple(args))
            return None
        try:
            ps = Interp(prog, hook=hook, max_depth=6, vec_model=True, max_steps=100000, loop_bound=6).paths(f, [selfv, SYM('context')])
        except Budget:
            return False
        results.append((n, kids, ps))
    # conclusive only if every path is one of the recognisable outcomes (otherwise leave it to the structural rule)
    verdicts = []
    for n, kids, ps in results:
        seen_fail = set()
        seen_ok = 0
        for ret, eff in ps:
            if ret == ('diverge',):
                continue
            evals = [(kids.index(e[2][0]), e[2]) for e in eff if not e[0].startswith('<') and e[2] and e[2][0] in kids and 'children' not in e[0].split('::')[-1]]
            ops = [e for e in eff if not e[0].startswith('<') and e[0].split('::')[-1] == opname and 'Operator' in e[0]]
            order = [i for i, _a in evals]
            ctx_ok = all(any(has_subterm(a, SYM('context')) for a in args[1:]) for _i, args in evals)
            if is_adt(ret, 'result::Result', 'Err') and ret[4][0][0] == 'sym' and ret[4][0][1].startswith('error'):
                k = int(ret[4][0][1][5:])
                good = order == list(range(k + 1)) and not ops and ctx_ok
                verdicts.append((good, n, 'child %d fails' % k, order, len(ops)))
                seen_fail.add(k)
            elif ret[0] == 'app' and ret[1] == 'Operator::' + opname:
                vals = ret[2][1] if len(ret[2]) > 1 else None
                good = order == list(range(n)) and len(ops) == 1 and ctx_ok and ret[2][0] == SYM('op') and vals == ('tuple', tuple(SYM('value%d' % i) for i in range(n))) and len(ret[2]) == 3 and ret[2][2] == SYM('context')
                verdicts.append((good, n, 'all children succeed', order, len(ops)))
                seen_ok += 1
            else:
                return False
        if seen_fail != set(range(n)) or seen_ok != 1:
            verdicts.append((False, n, 'outcome set (failing children seen %s, success paths %d)' % (sorted(seen_fail), seen_ok), [], 0))
    bad = [v for v in verdicts if not v[0]]
    ctx.check(not [v for v in bad if 'fails' in v[2] or 'outcome' in v[2]], 'R8.2', inst + ':first-error-wins', 'error-path',
              'children are evaluated in order, each once, and the first failing child\'s error is returned without evaluating anything after it (deviations: %s)' % [(v[1], v[2], v[3]) for v in bad if 'fails' in v[2] or 'outcome' in v[2]][:3], span=f.span)
    ctx.check(not [v for v in bad if 'succeed' in v[2]], 'R8.3', inst + ':apply', 'apply',
              'when all children succeed Operator::%s is applied once to the operator, the collected values in order and the context, and its result is returned (deviations: %s)' % (opname, [(v[1], v[3], v[4]) for v in bad if 'succeed' in v[2]][:3]), span=f.span)
    for suffix, rule in ((':callees', 'R8.1'), (':recursive-call', 'R8.2'), (':child', 'R8.2'), (':context', 'R8.2'), (':collect', 'R8.3'), (':no-short-circuit', 'R8.3')):
        ctx.check(not bad, rule, inst + suffix, 'sem', 'decided by interpretation on nodes with 0-3 children (all %d outcomes as required)' % len(verdicts), span=f.span)
    names = set()
    stack = [f]
    seen_f = set()
    while stack:
        g = stack.pop()
        if g.path in seen_f:
            continue
        seen_f.add(g.path)
        for _b, t in g.calls():
            names.add(t['callee']['name'])
    ctx.check('clone' not in names, 'R8.5', inst + ':no-context-clone', 'clone', 'the evaluator does not clone or restore the context: effects of evaluated children persist', span=f.span)
    return True


def evaluator(ctx, prog, f, name, opname):
    if evaluator_sem(ctx, prog, f, name, opname):
        return
    if evaluator_collect(ctx, prog, f, name, opname):
        return
    inst = 'Node::' + name
    calls = list(f.calls())
    names = [t['callee']['name'] for _, t in calls]
    # accepted callee list
    extra = sorted(set(names) - ACCEPTED)
    ctx.check(not extra, 'R8.1', inst + ':callees', 'callee', 'only the accepted callees occur (no reordering/skipping adaptor); unexpected: %s' % extra, span=f.span)
    rec = [(b, t) for b, t in calls if t['callee'].get('local') and short(t['callee']['def']) == short(f.path)]
    if not ctx.check(len(rec) == 1, 'R8.2', inst + ':recursive-call', 'count', 'exactly one recursive call site (found %d)' % len(rec), span=f.span):
        return
    rb, rt = rec[0]
    # the loop: next() on a slice iterator obtained from into_iter(children(self))
    nexts = [(b, t) for b, t in calls if t['callee']['name'] == 'next' and path_endswith(t['callee'].get('trait') or '', 'iter::Iterator')]
    if not ctx.check(len(nexts) == 1 and 'slice::Iter<' in (nexts[0][1]['callee'].get('self_ty') or ''), 'R8.1', inst + ':iterator', 'iterator', 'the loop advances a std::slice::Iter with Iterator::next (found %s)' % [(t['callee'].get('self_ty')) for _, t in nexts], span=f.span):
        return
    nb, nt = nexts[0]
    it_place = resolve_place(f, op_place(nt['args'][0]))
    # provenance of the iterator local: into_iter(children(self)) [or children(self).iter()]
    roots = def_roots(f, it_place['l']) if is_local(it_place) or not it_place['p'] else []
    def source_ok(local, depth=4):
        """the iterator value in `local` comes from `self.children()` / `self.children` through iter()/into_iter() only"""
        rs = def_roots(f, local)
        if len(rs) != 1 or rs[0][1] != 'term' or depth == 0:
            return False
        t = rs[0][2]
        nm = t['callee']['name']
        if callee_matches(t, ['tree::Node::<NumericTypes>::children']):
            recv = resolve_place(f, op_place(t['args'][0]))
            return recv['l'] == 1
        if nm in ('into_iter', 'iter') and len(t['args']) == 1:
            rsrc = resolve_place(f, op_place(t['args'][0]))
            if rsrc['l'] == 1 and any(isinstance(p_, dict) and p_.get('name') == 'children' for p_ in rsrc['p']):
                return True
            return source_ok(rsrc['l'], depth - 1)
        return False
    prov_ok = source_ok(it_place['l']) if not it_place['p'] else False
    ctx.check(prov_ok and len(roots) == 1, 'R8.1', inst + ':iterator-source', 'source', 'the iterator is obtained directly from self.children() (no adaptor in between)', span=nt['span'])
    # loop structure: next block's result switch: Some edge leads to the recursive call, None edge leaves the loop
    sw = switch_on_discriminant(f, nt['target'])
    if sw is None or not same_place(sw[0], nt['dest']):
        ctx.unrecognised('R8.1', inst + ':loop', 'shape', 'no match on the result of next()', span=nt['span'])
        return
    some = [tg for v, tg in sw[1] if v == 1]
    none = [tg for v, tg in sw[1] if v == 0] or [sw[2]]
    some_t, none_t = some[0] if some else sw[2], none[0]
    in_loop = f.edge_dominates((nt['target'], some_t), rb) and nb in f.reachable_from(rb)
    ctx.check(in_loop, 'R8.1', inst + ':loop', 'loop', 'the recursive call is inside the loop body (dominated by the Some edge of next(), and next() is reachable again from it)', span=rt['span'])
    # the child evaluated is the element just yielded
    child = resolve_place(f, op_place(rt['args'][0]))
    yielded = dict(l=nt['dest']['l'], p=[])
    child_ok = child['l'] == nt['dest']['l'] or any(r[1] != 'term' and r[0] != 'arg' and op_place(r[2].get('op', {})) is not None and op_place(r[2]['op'])['l'] == nt['dest']['l'] for r in def_roots(f, child['l']))
    ctx.check(child_ok, 'R8.2', inst + ':child', 'child', 'the recursive call evaluates exactly the element yielded by next()', span=rt['span'])
    # context forwarded
    cpl = resolve_place(f, op_place(rt['args'][1]))
    ctx.check(cpl['l'] == 2, 'R8.2', inst + ':context', 'context', 'the recursive call receives the same context', span=rt['span'])
    # `?`: Break edge returns without another evaluation
    qm = question_mark(f, rb)
    if not ctx.check(qm is not None and qm['brk'] is not None, 'R8.2', inst + ':question-mark', 'try', 'the child result goes through `?`', span=rt['span']):
        return
    after_break = f.reachable_from(qm['brk'])
    bad = [b for b, t in calls if b in after_break and (t['callee']['name'] in ('eval', 'eval_mut', name, 'next', 'push'))]
    rets = [b for b in after_break if f.term(b)['k'] == 'return']
    ctx.check(not bad and bool(rets), 'R8.2', inst + ':first-error-wins', 'error-path', 'after a failing child the function returns that error without evaluating anything else (calls after the Break edge: %s)' % [f.term(b)['callee']['name'] for b in bad], span=f.term(qm['switch'])['span'])
    # the residual returned is the child's error
    fr = [(b, t) for b, t in calls if b in after_break and t['callee']['name'] == 'from_residual']
    ctx.check(len(fr) == 1 and fr[0][1]['dest']['l'] == 0, 'R8.2', inst + ':error-value', 'residual', 'the returned error is the child\'s residual', span=f.span)
    # Continue edge: value pushed to the arguments vector, then back to next()
    pushes = [(b, t) for b, t in calls if callee_matches(t, ['vec::Vec::<T, A>::push'])]
    push_ok = len(pushes) == 1 and f.edge_dominates((qm['switch'], qm['cont']), pushes[0][0])
    ctx.check(push_ok, 'R8.3', inst + ':collect', 'push', 'each child value is pushed once onto the argument vector on the Continue edge', span=f.span)
    # R8.3 operator consulted only after the loop exit edge
    exit_edge = (nt['target'], none_t)
    op_reads = [(b, t) for b, t in calls if t['callee']['name'] in ('operator', opname, 'eval', 'eval_mut')]
    field_reads = []
    for blk in f.blocks:
        if blk['cleanup']:
            continue
        for st in blk['stmts']:
            if st['k'] == 'assign':
                rv = st['rv']
                pls = []
                if rv['k'] in ('ref', 'discriminant'):
                    pls.append(rv['pl'])
                elif rv['k'] == 'use' and op_place(rv['op']) is not None:
                    pls.append(op_place(rv['op']))
                for pl in pls:
                    if pl['l'] == 1 and any(isinstance(p, dict) and p.get('name') == 'operator' for p in pl['p']):
                        field_reads.append(blk['id'])
    early = [b for b, _ in op_reads if not f.edge_dominates(exit_edge, b)] + [b for b in field_reads if not f.edge_dominates(exit_edge, b)]
    ctx.check(not early and op_reads, 'R8.3', inst + ':no-short-circuit', 'operator-before-loop-end', 'the operator is not consulted before all children are evaluated (reads before the loop exit edge: bb%s)' % early, span=f.span)
    evs = [(b, t) for b, t in calls if t['callee'].get('local') and t['callee']['name'] == opname and 'Operator' in t['callee']['def']]
    good = len(evs) == 1
    if good:
        eb, et = evs[0]
        a1 = resolve_place(f, op_place(et['args'][1]))
        a2 = resolve_place(f, op_place(et['args'][2]))
        vec_local = resolve_place(f, op_place(pushes[0][1]['args'][0]))['l'] if pushes else None
        good = a1['l'] == vec_local and a2['l'] == 2 and et['dest']['l'] == 0
    ctx.check(good, 'R8.3', inst + ':apply', 'apply', 'Operator::%s is called once, after the loop, with the collected arguments and the context, and its result is returned' % opname, span=f.span)
    # no clone/restore of the context
    ctx.check('clone' not in names, 'R8.5', inst + ':no-context-clone', 'clone', 'the evaluator does not clone or restore the context: effects of evaluated children persist', span=f.span)


def r84(ctx, prog):
    """op-assign order: the C04 R4.4 case analysis (read X at Context::get_value, then Operator::<op>.eval on (old X, e), then
    set_value(X, result); a failing step ends the evaluation without the later ones), reported here under R8.4"""
    from rules.c04 import r44
    from rules.c05 import _Renamed
    r44(_Renamed(ctx, 'R8.4'), prog)


def r85(ctx, prog):
    from rules.common import terminal_call_sites
    sites = terminal_call_sites(prog, lambda c: c.get('name') == 'call_function' and path_endswith(c.get('trait') or '', 'context::Context'), roots={'operator::Operator::eval'})
    ctx.check(len(sites) == 1 and sites[0][0] == 'operator::Operator::eval', 'R8.5', 'Operator::eval:call_function', 'count',
              'Context::call_function is reached from exactly one site (the FunctionIdentifier arm of Operator::eval, directly or through a private helper called only there; its single invocation per evaluation is decided by C09 R9.1; found %s)' % sites)


def r86(ctx, prog):
    from rules.c03 import make_runner
    f = prog.fn('operator::Operator::<NumericTypes>::eval')
    if f is None:
        ctx.unrecognised('R8.6', 'Operator::eval', 'missing', 'not found')
        return
    op, val, types, V, F, run_arm = make_runner(prog, f)
    n = 0
    for k in tables.BINARY:
        if k in ('Eq', 'Neq'):
            continue
        for pos in (0, 1):
            for other in types:
                operands = [V(other, 'a'), V(other, 'b')]
                operands[pos] = V('Empty', 'e')
                inst = '%s[%s]' % (k, ','.join('Empty' if i == pos else other for i in (0, 1)))
                try:
                    ps = run_arm(k, operands)
                except Budget:
                    ctx.unrecognised('R8.6', inst, 'budget', 'arm too complex', span=f.span)
                    continue
                n += 1
                rets = [p[0] for p in ps]
                ctx.check(len(ps) >= 1 and all(is_adt(r, 'result::Result', 'Err') for r in rets), 'R8.6', inst, 'strict',
                          'an unacceptable operand in position %d is reported on every path, whatever the other operand is (found %s)' % (pos, [fmt(r)[:80] for r in rets]), span=f.span)
    ctx.floor('R8.6', 'strictness_cases', n, 12 * 2 * 6)
