"""C02 — precedence and associativity determine the tree (clause level).

Decided: the tables the tree builder consults (precedence ORDER, associativity, arity, prefix/binary split,
char -> partial token -> token -> operator symbol chain, operand-boundary sets) against the documented table.
Declined: the descend/rotate algorithm of insert_back_prioritized itself."""
import itertools
import tables
from tables import BINARY, ASSIGN, PREFIX, SEQUENCE, LEAF
from rules.common import doc_operator_tables, safe_tables

EXPLANATION = ('table extraction by abstract interpretation of Operator::{precedence,is_left_to_right,max_argument_amount,is_unary,is_leaf,is_sequence}, '
               'Display impls, Token predicates, char_to_partial_token and the token match of tokens_to_operator_tree, per enum variant, '
               'compared pairwise (order only) with the operator tables parsed from the crate documentation; the insertion algorithm is not decided')


def sign(x):
    return (x > 0) - (x < 0)


def run(ctx):
    prog = ctx.prog()
    ctx.trust('rustc nightly MIR of /repo (type-checked, mir-opt-level=0)')
    ctx.trust('documentation tables in src/lib.rs as oracle')
    ctx.assume('the tree builder consults only these tables to order operators (its algorithm is not verified here)')
    T = safe_tables(ctx, prog, 'T1')
    if T is None:
        return
    prec = T['precedence']
    ctx.floor('T1', 'operator_variants', len(prec), 32)
    try:
        sym = tables.display_symbols(prog, tables.OPERATOR)
    except tables.TableError as e:
        ctx.unrecognised('T1', 'Display for Operator', 'not-tabular', str(e))
        return
    docb, docu = doc_operator_tables(ctx, 'T1')
    if docb is None:
        return
    # symbol -> variant (binary table: '-' is Sub; unary table: '-' is Neg)
    def lookup(symbol, unary):
        c = [v for v, s in sym.items() if s is not None and s.strip() == symbol]
        if unary:
            c = [v for v in c if v in PREFIX]
        else:
            c = [v for v in c if v not in PREFIX]
        return c
    docmap = {}
    for s, p in docb.items():
        c = lookup(s, False)
        if len(c) != 1:
            ctx.violation('T1', 'doc-symbol:' + s, 'unmapped', 'documented binary operator `%s` maps to %d operator variants via Display (%s)' % (s, len(c), c))
            continue
        docmap[c[0]] = p
    for s, p in docu.items():
        c = lookup(s, True)
        if len(c) != 1:
            ctx.violation('T1', 'doc-unary-symbol:' + s, 'unmapped', 'documented unary operator `%s` maps to %d prefix operator variants via Display (%s)' % (s, len(c), c))
            continue
        docmap[c[0]] = p
    ctx.floor('T1', 'documented_operators', len(docmap), 27)
    npairs = 0
    for a, b in itertools.combinations(sorted(docmap), 2):
        npairs += 1
        good = sign(prec[a] - prec[b]) == sign(docmap[a] - docmap[b])
        if not good:
            ctx.violation('T1', 'pair:%s/%s' % (a, b), 'order', 'precedence order of %s (%d) vs %s (%d) differs from the documented order (%d vs %d)' % (a, prec[a], b, prec[b], docmap[a], docmap[b]), span=tables.operator_fn(prog, 'precedence').span)
    ctx.ok('T1', 'pairs', '%d ordered pairs of documented operators compared by sign' % npairs)
    ctx.counters['ordered_pairs'] = npairs
    ctx.sample(dict(rule='T1', code_precedence=prec, documented={k: docmap[k] for k in sorted(docmap)}))
    # statement-level relations
    span = tables.operator_fn(prog, 'precedence').span
    allops = BINARY + ASSIGN + PREFIX + SEQUENCE
    ctx.check(all(prec['FunctionIdentifier'] > prec[o] for o in allops), 'T1', 'function>operators', 'fn-prec', 'function application binds tighter than every operator', span=span)
    ctx.check(all(prec[l] >= prec['FunctionIdentifier'] for l in LEAF + ['RootNode']), 'T1', 'leaf>=function', 'leaf-prec', 'values, variables and parenthesis groups have at least function precedence', span=span)
    ctx.check(prec['Neg'] == prec['Not'], 'T1', 'Neg=Not', 'prefix-eq', 'both prefix operators share one precedence', span=span)
    ctx.check(all(prec['Neg'] > prec[o] for o in BINARY if o != 'Exp'), 'T1', 'prefix>binary', 'prefix-prec', 'prefix operators bind tighter than every binary operator except ^', span=span)
    ctx.check(prec['Exp'] > prec['Neg'], 'T1', 'Exp>prefix', 'exp-prec', '^ binds tighter than the prefix operators', span=span)
    ctx.check(prec['Tuple'] > prec['Chain'], 'T1', 'Tuple>Chain', 'seq-prec', 'tuple operator binds tighter than chain operator', span=span)
    ctx.check(len({prec[a] for a in ASSIGN}) == 1, 'T1', 'assignments-equal', 'assign-prec', 'all nine assignment operators share one precedence', span=span)
    ctx.check(all(prec[a] > prec['Tuple'] for a in ASSIGN) and all(prec[a] < prec[b] for a in ASSIGN for b in BINARY), 'T1', 'binary>assign>sequence', 'assign-band', 'assignments sit between the sequence operators and every binary operator', span=span)

    # T2 associativity
    l2r = T['is_left_to_right']
    span = tables.operator_fn(prog, 'is_left_to_right').span
    for o in BINARY + SEQUENCE:
        ctx.check(l2r[o] is True, 'T2', o, 'not-left-to-right', '%s groups left-to-right' % o, span=span)
    for o in ('Assign', 'FunctionIdentifier'):
        ctx.check(l2r[o] is False, 'T2', o, 'not-right-to-left', '%s groups right-to-left (a = b = c, f g x)' % o, span=span)
    # prefix operators must not be right-to-left "equal precedence" chained away: they enter through is_unary
    unary = T['is_unary']
    span_u = tables.operator_fn(prog, 'is_unary').span
    for o, v in unary.items():
        want = o in PREFIX or o == 'FunctionIdentifier'
        ctx.check(v is want, 'T2', 'is_unary:' + o, 'unary-set', 'is_unary(%s) is %s' % (o, want), span=span_u)

    # T3 arity
    arity = T['max_argument_amount']
    span = tables.operator_fn(prog, 'max_argument_amount').span
    want = {}
    for o in BINARY + ASSIGN:
        want[o] = 2
    for o in PREFIX + ['RootNode', 'FunctionIdentifier']:
        want[o] = 1
    for o in LEAF:
        want[o] = 0
    for o in SEQUENCE:
        want[o] = None
    for o, a in arity.items():
        if o in want:
            ctx.check(a == want[o], 'T3', o, 'arity', 'max_argument_amount(%s) = %s (found %s)' % (o, want[o], a), span=span)
        else:
            # a new operator variant: must at least be classified consistently
            ctx.ok('T3', o, 'new operator variant with arity %s (no documented expectation)' % (a,))
    for o in arity:
        ctx.check(T['is_leaf'][o] is (arity[o] == 0), 'T3', 'is_leaf:' + o, 'leaf-derivation', 'is_leaf(%s) <=> arity 0' % o, span=tables.operator_fn(prog, 'is_leaf').span)
        ctx.check(T['is_sequence'][o] is (o in SEQUENCE), 'T3', 'is_sequence:' + o, 'sequence-set', 'is_sequence(%s) is %s' % (o, o in SEQUENCE), span=tables.operator_fn(prog, 'is_sequence').span)

    # T4 symbol chain (writer/reader agreement): char -> PartialToken (Display) ; Token (Display) -> Operator (Display)
    try:
        tsym = tables.display_symbols(prog, tables.TOKEN)
        psym = tables.display_symbols(prog, tables.PARTIAL)
        chars = tables.char_table(prog)
        sem = tables.token_semantics(prog)
        f_tree = sem['fn']
        t2o = {tv: dict(operators=sorted({o[3] for o in sem['first'][tv]} | {o[3] for o in sem['after_value'][tv]})) for tv in sem['first']}
    except tables.TableError as e:
        ctx.unrecognised('T4', 'tables', 'not-tabular', str(e))
        return
    ctx.floor('T4', 'token_variants', len(tsym), 33)
    ctx.floor('T4', 'partial_token_variants', len(psym), 15)
    nchar = 0
    for ch, pt in chars.items():
        if ch is None:
            continue
        nchar += 1
        if pt is None:
            ctx.unrecognised('T4', 'char:' + ch, 'not-const', 'char_to_partial_token(%r) does not evaluate to a constant partial token' % ch)
            continue
        if pt.startswith('Token('):
            tv = pt[6:-1]
            ctx.check(tsym.get(tv) == ch, 'T4', 'char:' + ch, 'char-token', 'character %r becomes token %s whose symbol is %r' % (ch, tv, tsym.get(tv)))
        else:
            ctx.check(psym.get(pt) == ch, 'T4', 'char:' + ch, 'char-partial', 'character %r becomes partial token %s whose symbol is %r' % (ch, pt, psym.get(pt)))
    ctx.floor('T4', 'operator_chars', nchar, 16)
    for tv, info in t2o.items():
        ops = info['operators']
        s = tsym.get(tv)
        if s is None:
            continue  # payload-carrying tokens: C06 R6.6 / C09 R9.5
        if tv in ('LBrace', 'RBrace'):
            ctx.check(ops == [], 'T4', 'token:' + tv, 'brace-node', 'parenthesis tokens create no operator node directly', span=f_tree.span)
            continue
        if tv == 'Minus':
            ctx.check(ops == ['Neg', 'Sub'], 'T4', 'token:Minus', 'minus-split', 'Minus token maps to exactly {Sub, Neg} (found %s)' % ops, span=f_tree.span)
            continue
        okk = len(ops) == 1 and (sym.get(ops[0]) or '').strip() == s.strip()
        ctx.check(okk, 'T4', 'token:' + tv, 'token-operator', 'token %s (`%s`) builds the operator with the same symbol (found %s: %s)' % (tv, s, ops, [sym.get(o) for o in ops]), span=f_tree.span)

    # an operator character keeps its own token in front of a word: the tokenizer never folds a sign (or any other operator character)
    # into the literal that follows it, so that a prefix `-` always reaches the tree builder as an operator subject to the precedence
    # table (`-x ^ 2` for every literal x). Shared with C06 R6.5.
    from rules import toksem
    try:
        pp = toksem.prefix_word_problems(toksem.get(prog))
    except Exception as e:   # the tokenizer's second stage could not be read at all
        pp = None
    if pp is None:
        ctx.unrecognised('T4', 'operator-before-word', 'budget', 'the second tokenizer stage could not be interpreted on an operator character followed by a word')
    else:
        ctx.check(not pp, 'T4', 'operator-before-word', 'sign-folded', 'an operator character followed by a word gives the operator\'s token and then the word\'s token, whatever the word is (deviations: %s)' % [m_ for _k, m_ in pp][:3])

    # T5 operand-boundary tables
    try:
        tp = tables.token_predicates(prog)
    except tables.TableError as e:
        ctx.unrecognised('T5', 'token predicates', 'not-tabular', str(e))
        return
    payload = {n for n, s in tsym.items() if s is None}
    ctx.floor('T5', 'payload_tokens', len(payload), 5)
    for tv in tsym:
        ctx.check(tp['is_rightsided_value'][tv] is (tv == 'RBrace' or tv in payload), 'T5', 'is_rightsided_value:' + tv, 'right-set', 'is_rightsided_value(%s) is %s' % (tv, tv == 'RBrace' or tv in payload))
        ctx.check(tp['is_leftsided_value'][tv] is (tv == 'LBrace' or tv in payload), 'T5', 'is_leftsided_value:' + tv, 'left-set', 'is_leftsided_value(%s) is %s' % (tv, tv == 'LBrace' or tv in payload))
        want = (tsym[tv] or '').endswith('=') and tsym[tv] not in ('==', '!=', '>=', '<=') and tsym[tv] is not None
        ctx.check(tp['is_assignment'][tv] is want, 'T5', 'is_assignment:' + tv, 'assign-set', 'is_assignment(%s) is %s' % (tv, want))

    # T6 minus split: Sub on the true edge, Neg on the false edge of last_token_is_rightsided_value
    t6(ctx, prog, f_tree, sem, tp)
    t7(ctx, prog, T)


def t6(ctx, prog, f, sem, tp):
    """minus split, decided on what the builder inserts for `-` after each token kind (tables.token_semantics): the binary Sub exactly
    after a right-sided value (literal, identifier, `)`), the prefix Neg otherwise and at the start"""
    first = {o[3] for o in sem['first']['Minus']}
    ctx.check(first == {'Neg'}, 'T6', 'Minus:false-edge', 'neg-edge', 'at the start `-` is the prefix Neg (found %s)' % sorted(first), span=f.span)
    bad_sub, bad_neg = [], []
    for K, got in sem['minus_after'].items():
        if tp['is_rightsided_value'][K]:
            if got != {'Sub'}:
                bad_sub.append('%s: %s' % (K, sorted(got)))
        elif got != {'Neg'}:
            bad_neg.append('%s: %s' % (K, sorted(got)))
    ctx.check(not bad_sub, 'T6', 'Minus:true-edge', 'sub-edge', 'after a right-sided value `-` is the binary Sub (deviations %s)' % bad_sub[:4], span=f.span)
    ctx.check(not bad_neg, 'T6', 'flag-definitions', 'flag-defs', 'after any other token `-` is the prefix Neg (deviations %s)' % bad_neg[:4], span=f.span)
    ctx.floor('T6', 'minus_contexts', len(sem['minus_after']), 33)


# ----------------------------------------------------------------------------- T7: the insertion decision procedure

class InsertionError(Exception):
    def __init__(self, kind, msg, span):
        Exception.__init__(self, msg)
        self.kind, self.msg, self.span = kind, msg, span


class InsertionUnknown(Exception):
    pass


def compile_insertion(prog, T):
    """The decision function of Node::insert_back_prioritized: all its paths are enumerated with symbolic operators (self S, last child
    L, inserted node N) and a symbolic number of children of self; returns (f, decide, number of paths) where
    decide(dict(S=kind, L=kind, N=kind, R=is_root, sclen=children of S)) is the set of outcomes among error / descend / rotate / push /
    panic whose path conditions hold. decide raises InsertionUnknown on a condition that is not a function of the tables."""
    from absint import Interp, ADT, SYM, C, fmt, is_adt, Budget
    from rules.treepaths import opaque_hook
    f = prog.fn('tree::Node::<NumericTypes>::insert_back_prioritized')
    if f is None:
        raise InsertionError('missing', 'not found', None)
    node_adt = prog.adt('tree::Node')
    S = ADT(node_adt['path'], 0, 'Node', [SYM('S'), SYM('SC')])
    N = ADT(node_adt['path'], 0, 'Node', [SYM('N'), SYM('NC')])
    try:
        paths = Interp(prog, hook=opaque_hook(opaque={'insert_back_prioritized'}), max_steps=600000).paths(f, [S, N, SYM('R')])
    except Budget:
        raise InsertionError('budget', 'too complex for path enumeration', f.span)

    def who(term):
        """which operator a term talks about: 'S', 'N' or 'L' (the last child of self)"""
        from absint import apps, has_subterm
        if term == SYM('S'):
            return 'S'
        if term == SYM('N'):
            return 'N'
        if term[0] == 'adt':
            return None
        if has_subterm(term, SYM('SC')):
            names = {n.split('::')[-1].split('#')[0] for n, _ in apps(term)}
            if names & {'last', 'last_mut', 'pop'} and not names & {'len', 'is_empty'}:
                return 'L'
        return None

    ORDERING = {'Less': ('ord', -1), 'Equal': ('ord', 0), 'Greater': ('ord', 1)}

    Unknown = InsertionUnknown

    def sc_of(term):
        """'S' / 'N' when the term is the child list of self / of the inserted node"""
        from absint import has_subterm
        if has_subterm(term, SYM('SC')):
            return 'S'
        if has_subterm(term, SYM('NC')):
            return 'N'
        return None

    def comp_d(term, delta=0):
        """compile a term into a function of the assignment (atoms resolved once); `delta` is the number of elements pushed
        minus popped on self's child list before the term is evaluated on its path"""
        def comp(t):
            return comp_d(t, delta)
        k = term[0]
        if k == 'c':
            v = term[1]
            return lambda a: v
        if k == 'sym':
            if term[1] == 'R':
                return lambda a: a['R']
            raise Unknown(fmt(term))
        if k == 'adt':
            if term[3] in ('Some', 'None') and 'Option' in term[1]:
                subs = [comp(x) for x in term[4]]
                nm = term[3]
                return lambda a: ('opt', nm, tuple(f_(a) for f_ in subs))
            if 'Operator' in term[1]:
                v = ('op', term[3])
                return lambda a: v
            if term[1].endswith('cmp::Ordering') and term[3] in ORDERING:
                v = ORDERING[term[3]]
                return lambda a: v
            raise Unknown(fmt(term))
        if k == 'app':
            name, args = term[1], term[2]
            if name.startswith('binop:'):
                x, y = comp(args[0]), comp(args[1])
                op = name.split(':')[1]
                import operator as _o
                fn_ = {'Lt': _o.lt, 'Le': _o.le, 'Gt': _o.gt, 'Ge': _o.ge, 'Eq': _o.eq, 'Ne': _o.ne}[op]
                return lambda a: fn_(x(a), y(a))
            if name.startswith('unop:Not'):
                x = comp(args[0])
                return lambda a: not x(a)
            base = name.split('::')[-1].split('#')[0]
            if base == 'cmp' and len(args) == 2:
                x, y = comp(args[0]), comp(args[1])
                return lambda a: ('ord', (x(a) > y(a)) - (x(a) < y(a)))
            if base == 'discriminant' and len(args) == 1 and args[0][0] == 'app' and args[0][1].split('::')[-1].split('#')[0] in ('last', 'last_mut', 'first', 'first_mut', 'pop') \
                    and len(args[0][2]) == 1 and sc_of(args[0][2][0]) == 'S':
                # whether self has a last child at all: Some exactly when the child list is not empty at that point (for `pop`, the
                # point before the pop: `delta` already counts it)
                extra = 1 if args[0][1].split('::')[-1].split('#')[0] == 'pop' else 0
                return lambda a: 1 if a['sclen'] + delta + extra > 0 else 0
            if base == 'discriminant' and len(args) == 1 and args[0][0] == 'app' and args[0][1].split('::')[-1].split('#')[0] == 'cmp':
                x = comp(args[0])
                return lambda a: {-1: 255, 0: 0, 1: 1}[x(a)[1]]
            if base == 'discriminant' and len(args) == 1 and args[0][0] == 'app' and args[0][1].split('::')[-1].split('#')[0] == 'max_argument_amount':
                # `match op.max_argument_amount() { Some(n) if .. }`: the Option's discriminant is a function of the table
                x = comp(args[0])
                return lambda a: 1 if x(a)[1] == 'Some' else 0
            if base in ('precedence', 'is_unary', 'is_left_to_right', 'is_leaf', 'is_sequence', 'max_argument_amount'):
                w = who(args[0])
                if w is None:
                    raise Unknown(fmt(term))
                tab = T[base]
                if base == 'max_argument_amount':
                    return lambda a: (('opt', 'Some', (tab[a[w]],)) if tab[a[w]] is not None else ('opt', 'None', ()))
                return lambda a: tab[a[w]]
            if base in ('is_empty', 'len') and len(args) == 1:
                w = sc_of(args[0])
                if w is None:
                    raise Unknown(fmt(term))
                if base == 'len':
                    return (lambda a: a['sclen'] + delta) if w == 'S' else (lambda a: 0)
                return (lambda a: a['sclen'] + delta == 0) if w == 'S' else (lambda a: True)
            if base in ('eq', 'ne') and len(args) == 2:
                subs = []
                for x in args:
                    w = who(x)
                    subs.append((lambda a, w=w: ('op', a[w])) if w else comp(x))
                if base == 'eq':
                    return lambda a: subs[0](a) == subs[1](a)
                return lambda a: subs[0](a) != subs[1](a)
            raise Unknown(fmt(term))
        if k == 'proj' and term[2] == ('as Some', '0') and term[1][0] == 'app' and term[1][1].split('::')[-1].split('#')[0] == 'max_argument_amount':
            x = comp(term[1])

            def payload(a):
                v = x(a)
                if v[1] != 'Some':
                    raise Unknown('payload of None: ' + fmt(term))
                return v[2][0]
            return payload
        raise Unknown(fmt(term))

    compiled = []
    try:
        for ret, eff in paths:
            conds = []
            delta = 0
            for e in eff:
                if e[0] == '<branch>':
                    conds.append((comp_d(e[2][0], delta), e[2][1]))
                    v_ = e[2][0]
                    if e[2][1] == C(0) and v_[0] == 'app' and v_[1] == 'discriminant' and v_[2][0][0] == 'app' and v_[2][0][1].split('::')[-1].split('#')[0] == 'pop' and v_[2][0][2] == (SYM('SC'),):
                        delta += 1   # a pop that returned None removed nothing
                elif e[0].split('::')[-1] in ('pop', 'push') and 'Vec' in e[0] and e[2] and e[2][0] == SYM('SC'):
                    delta += 1 if e[0].endswith('push') else -1
            calls = [e[0].split('::')[-1] for e in eff if not e[0].startswith('<')]
            if is_adt(ret, 'result::Result', 'Err'):
                out = 'error'
            elif ret[0] == 'app' and 'insert_back_prioritized' in ret[1]:
                out = 'descend'
            elif is_adt(ret, 'result::Result', 'Ok'):
                out = 'rotate' if 'pop' in calls else 'push'
            elif ret == ('diverge',):
                out = 'panic'
            else:
                out = '?'
            compiled.append((conds, out))
    except Unknown as e:
        raise InsertionError('condition', 'a branch condition of the insertion procedure is not a function of the operator tables: %s' % e, f.span)

    def decide(a):
        hits = set()
        for conds, out in compiled:
            for fn_, taken in conds:
                v = fn_(a)
                if isinstance(v, bool):
                    v = 1 if v else 0
                if (v in getattr(taken, 'excluded', (0,))) if taken[0] == 'sym' else (v != taken[1]):
                    break
            else:
                hits.add(out)
        return hits

    return f, decide, len(compiled)


def t7(ctx, prog, T):
    """insert_back_prioritized decides between error / descend into the last child / rotate / plain push from the operator
    tables only.  All its paths are enumerated with symbolic operators (self S, last child L, inserted node N); the resulting
    decision function is evaluated for every combination of operator-kind classes and compared with the reference decision of
    precedence climbing derived from the documented rules:
      enter(S,N)   = prec S < prec N  or  N prefix-like  or  S is the insertion root  or  (prec S = prec N and both right-to-left)
      descend(L,N) = prec L < prec N  or  N prefix-like  or  (prec L = prec N and both right-to-left)
      not enter -> error; S leaf -> error; S complete: descend -> recurse into L, else N leaf/group -> error, else rotate
      (N adopts L as its left operand); S incomplete: N binary -> error, else push.
    Together with T1-T3 (the tables) this fixes every single insertion step; the induction over the token sequence is not mechanised."""
    try:
        f, decide, n_paths = compile_insertion(prog, T)
    except InsertionError as e:
        ctx.unrecognised('T7', 'insert_back_prioritized', e.kind, e.msg, span=e.span)
        return
    Unknown = InsertionUnknown
    ctx.counters['insert_decision_paths'] = n_paths

    prec, unary, l2r, leaf, arity = T['precedence'], T['is_unary'], T['is_left_to_right'], T['is_leaf'], T['max_argument_amount']

    def ref(a):
        s, l, n = a['S'], a['L'], a['N']
        enter = prec[s] < prec[n] or unary[n] or a['R'] or (prec[s] == prec[n] and not l2r[s] and not l2r[n])
        if not enter or leaf[s]:
            return 'error'
        if arity[s] is not None and a['sclen'] == arity[s]:
            if prec[l] < prec[n] or unary[n] or (prec[l] == prec[n] and not l2r[l] and not l2r[n]):
                return 'descend'
            if leaf[n] or n == 'RootNode':
                return 'error'
            if s == 'RootNode' and a['sclen'] != 1:
                return 'error'
            return 'rotate'
        if arity[n] == 2:
            return 'error'
        return 'push'
    # kind classes: operators that agree on every table behave identically
    cls = {}
    for k in prec:
        key = (prec[k], unary[k], l2r[k], leaf[k], k == 'RootNode', arity[k])
        cls.setdefault(key, k)
    reps = sorted(cls.values())
    n = 0
    bad = 0
    try:
        for s in reps:
            for l in reps:
                for nn in reps:
                    for R in (False, True):
                        # the number of children self already has: at most its arity (the insertion procedure itself keeps
                        # this: it pushes only below an incomplete node, and a rotation keeps the count); unbounded arity: 0..3
                        for sclen in range(0, (arity[s] if arity[s] is not None else 3) + 1):
                            a = dict(S=s, L=l, N=nn, R=R, sclen=sclen)
                            n += 1
                            got = decide(a)
                            want = ref(a)
                            if got != {want}:
                                bad += 1
                                if bad <= 5:
                                    ctx.violation('T7', 'decision[S=%s,L=%s,N=%s,root=%s,complete=%s]' % (s, l, nn, R, arity[s] == sclen), 'decision',
                                                  'inserting a %s node below a %s node with %d children whose last child is %s: the code decides %s, precedence climbing by the documented table requires %s' % (nn, s, sclen, l, sorted(got), want), span=f.span)
    except Unknown as e:
        ctx.unrecognised('T7', 'insert_back_prioritized', 'condition', 'a branch condition of the insertion procedure is not a function of the operator tables: %s' % e, span=f.span)
        return
    if bad == 0:
        ctx.ok('T7', 'insertion-decision', 'the decision (error / descend / rotate / push) equals the reference for all %d combinations of %d operator-kind classes, root flag and completeness' % (n, len(reps)), span=f.span)
    elif bad > 5:
        ctx.violation('T7', 'decision[more]', 'decision-more', '%d further combinations disagree with the reference decision' % (bad - 5), span=f.span)
    ctx.counters['insert_decision_combinations'] = n
    ctx.floor('T7', 'kind_classes', len(reps), 10)
