"""C16 — serde support round-trips expressions and contexts (clause level; `serde` feature configuration).

R16.1 Deserialize for Node asks the deserializer for a string and the visitor's visit_str(v) is build_operator_tree(v): Ok(tree) is
      returned unchanged, Err(e) becomes E::custom(e) (the Display text of the same error);
R16.2 trait obligations (witnesses compiled against the serde configuration): Value<DefaultNumericTypes> and
      HashMapContext<DefaultNumericTypes> are Serialize + DeserializeOwned, Node is DeserializeOwned;
R16.3 the impls on Value / HashMapContext are the derived ones; HashMapContext's derived serialize emits exactly the fields
      `variables` and `without_builtin_functions` (never `functions`), and the derived deserialize fills `functions` with Default.
R16.4 the derived impls delegate nothing to hand-written code (no `serde(with = ..)`-style codec on a field or variant).
Not decided: byte-exact float round trips (depends on the data format chosen by the user)."""
from absint import Interp, SYM, C, ADT, OK, ERR, Fork, fmt, is_adt, Budget
from mirlib import short, path_endswith, def_roots, op_place, resolve_place
from rules.witness import compile_witness

EXPLANATION = ('serde feature configuration analysed through the same driver: abstract interpretation of the hand-written Deserialize impl for Node, compile-pass witnesses for the '
               'trait obligations on the default numeric types, and field/effect facts of the derived impls. Wire formats and float round trips are not decided')

FEATURES = ('serde',)


def run(ctx):
    prog = ctx.prog(features=FEATURES)
    ex = ctx.extraction(features=FEATURES)
    ctx.trust('rustc nightly type checker; serde_derive expansion; MIR of /repo with --features serde')
    # R16.1
    d = [f for f in prog.fns if f.name == 'deserialize' and 'feature_serde' in f.path and 'tree::Node<' in (f.j.get('impl_self_ty') or '')]
    if len(d) != 1:
        ctx.unrecognised('R16.1', 'Deserialize for Node', 'missing', 'impl not found (%d candidates)' % len(d))
    else:
        ps = Interp(prog).paths(d[0], [SYM('deserializer')])
        good = len(ps) == 1 and ps[0][0][0] == 'app' and ps[0][0][1].endswith('deserialize_str') and ps[0][0][2][0] == SYM('deserializer') and is_adt(ps[0][0][2][1], 'NodeVisitor')
        ctx.check(good, 'R16.1', 'Node::deserialize', 'deserialize-str', 'Node is deserialized from a string through NodeVisitor (returns %s)' % [fmt(p[0]) for p in ps], span=d[0].span)
    v = [f for f in prog.fns if f.name == 'visit_str' and 'NodeVisitor' in f.path]
    if len(v) != 1:
        ctx.unrecognised('R16.1', 'NodeVisitor::visit_str', 'missing', 'visitor not found')
    else:
        for world, wv in (('ok', OK(SYM('tree'))), ('err', ERR(SYM('error')))):
            calls = []

            def hook(it, fn, t, args, wv=wv, calls=calls):
                c = t['callee']
                if c.get('local') and c['name'] == 'build_operator_tree':
                    calls.append(tuple(args))
                    return wv
                return None
            ps = Interp(prog, hook=hook).paths(v[0], [SYM('self'), SYM('text')])
            if world == 'ok':
                good = len(ps) == 1 and ps[0][0] == OK(SYM('tree')) and calls == [(SYM('text'),)]
                what = 'visit_str(v) returns the tree built by build_operator_tree(v) unchanged'
            else:
                r = ps[0][0] if ps else None
                good = len(ps) == 1 and is_adt(r, 'result::Result', 'Err') and r[4][0][0] == 'app' and r[4][0][1].endswith('::custom') and r[4][0][2] == (SYM('error'),) and calls == [(SYM('text'),)]
                what = 'a build error is reported as E::custom(error) (the same message)'
            ctx.check(good, 'R16.1', 'NodeVisitor::visit_str[%s]' % world, 'visitor', what + ' (returns %s)' % [fmt(p[0]) for p in ps], span=v[0].span)
    # R16.2 witnesses
    okp, msg = compile_witness(ex, 'use evalexpr::*;\nfn w() {}\n')
    ctx.check(okp, 'R16.2', 'witness-harness', 'harness', 'the witness harness compiles against the serde configuration (%s)' % msg)
    for ty, bounds in (('Value<DefaultNumericTypes>', 'serde::Serialize + serde::de::DeserializeOwned'), ('HashMapContext<DefaultNumericTypes>', 'serde::Serialize + serde::de::DeserializeOwned'), ('Node<DefaultNumericTypes>', 'serde::de::DeserializeOwned')):
        okp, msg = compile_witness(ex, 'use evalexpr::*;\nfn need<T: %s>() {}\nfn w() { need::<%s>(); }\n' % (bounds, ty))
        ctx.check(okp, 'R16.2', 'obligation:' + ty, 'unsatisfied', '%s: %s (%s)' % (ty, bounds.replace('serde::de::', '').replace('serde::', ''), msg))
    okf, msg = compile_witness(ex, 'use evalexpr::*;\nfn need<T: serde::Serialize>() {}\nfn w() { need::<Function<DefaultNumericTypes>>(); }\n', expect_ok=False, code='E0277', must_mention='Serialize')
    ctx.check(okf, 'R16.2', 'failing-twin:Function', 'harness-fail', 'the harness can fail: Function is not Serialize (%s)' % msg)
    # R16.3 derived impls
    for ty in ('value::Value<', 'context::HashMapContext<'):
        for tr in ('Serialize', 'Deserialize'):
            im = [i for i in prog.facts['impls'] if (i.get('trait') or '').endswith('::' + tr) and i['self_ty'].startswith(ty)]
            ctx.check(len(im) == 1 and im[0]['derived'], 'R16.3', '%s:%s' % (ty.rstrip('<'), tr), 'derived', '%s for %s is the derived impl' % (tr, ty.rstrip('<')))
    s = [f for f in prog.fns if f.name == 'serialize' and 'HashMapContext' in (f.j.get('impl_self_ty') or '') and f.j.get('derived')]
    if len(s) != 1:
        ctx.unrecognised('R16.3', 'HashMapContext::serialize', 'missing', 'derived serialize not found')
    else:
        def hook(it, fn, t, args):
            c = t['callee']
            if c['name'] in ('serialize_struct', 'serialize_field', 'end') or (c.get('trait') or '').endswith('SerializeStruct') or (c.get('trait') or '').endswith('Serializer'):
                return OK(SYM('st_' + c['name']))
            return None
        ps = Interp(prog, hook=hook).paths(s[0], [SYM('self'), SYM('serializer')])
        fields = []
        for ret, eff in ps:
            fl = []
            for e in eff:
                nm = e[0].split('::')[-1]
                if nm == 'serialize_field':
                    fl.append((e[2][1][1] if e[2][1][0] == 'c' else '?', fmt(e[2][2])))
                if nm == 'serialize_struct':
                    fl.append(('<struct>', fmt(e[2][1]) + '/' + fmt(e[2][2])))
            fields.append(fl)
        good = len(ps) == 1 and fields[0] == [('<struct>', "'HashMapContext'/2"), ('variables', '$self.variables'), ('without_builtin_functions', '$self.without_builtin_functions')]
        ctx.check(good, 'R16.3', 'HashMapContext::serialize:fields', 'fields', 'serialises exactly `variables` and `without_builtin_functions` (2 fields), never `functions` (found %s)' % fields, span=s[0].span)
    # deserialize: the constructed HashMapContext takes `functions` from Default::default()
    n = 0
    for f in prog.fns:
        if 'Deserialize' in f.path and 'HashMapContext' in f.path and f.name in ('visit_seq', 'visit_map'):
            for blk in f.blocks:
                if blk['cleanup']:
                    continue
                for st in blk['stmts']:
                    if st['k'] == 'assign' and st['rv']['k'] == 'aggregate' and st['rv'].get('agg') == 'adt' and st['rv']['adt'].endswith('context::HashMapContext'):
                        n += 1
                        names = st['rv']['fields']
                        ops = st['rv']['ops']
                        i = names.index('functions') if 'functions' in names else None
                        good = False
                        if i is not None:
                            pl = op_place(ops[i])
                            roots = def_roots(f, pl['l']) if pl is not None else []
                            good = bool(roots) and all(r[1] == 'term' and r[2]['callee']['name'] == 'default' for r in roots)
                        ctx.check(good, 'R16.3', 'HashMapContext::deserialize:%s:functions' % f.name, 'functions-default', 'a deserialized context has no functions: the field is filled with Default::default()', span=st.get('span'))
    ctx.floor('R16.3', 'deserialize_constructions', n, 2)
    # R16.4 the derived impls delegate nothing to hand-written code: no item that serde_derive generated for Value / HashMapContext (the
    # impls, their visitors and helper types, all inside the anonymous `const _`) calls a crate function outside those generated items.
    # A `#[serde(with / serialize_with / deserialize_with / from / into ...)]` attribute would: the wire form of that part of the
    # value would then be whatever that code writes (a float printed with a fixed number of decimals, say).
    gen = [f for f in prog.fns if '::_::' in f.path and f.path.split('::')[0].lstrip('<') in ('value', 'context') and 'feature_serde::NodeVisitor' not in f.path]
    bad = []
    for f in gen:
        for _b, t in f.calls():
            for d_ in (t['callee']['def'] if t['callee'].get('local') else None, (t['callee'].get('resolved') or {}).get('def') if (t['callee'].get('resolved') or {}).get('local') else None):
                if d_ and '::_::' not in d_:
                    g_ = prog.by_path.get(d_)
                    if g_ is not None and g_.j.get('derived'):
                        continue
                    bad.append('%s calls %s' % (short(f.path)[:70], short(d_)))
    ctx.check(not bad, 'R16.4', 'derived-impls:no-delegation', 'custom-codec', 'the serde impls derived for Value and HashMapContext call no hand-written crate code (found %s)' % sorted(set(bad))[:3])
    ctx.floor('R16.4', 'derive_generated_items', len(gen), 15)
