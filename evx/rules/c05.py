"""C05 — tuples and chains compose (clause level).

S5.1 a separator always opens a new element: on every path through the sequence branch of tokens_to_operator_tree the
     sequence node that ends on top of root_stack received a fresh Node::root_node() as its last child;
S5.2 collapsing stays inside the parenthesis level: collapse_root_stack_to absorbs a popped node only when that node is a
     sequence (explicit guard, or the precedence comparison is false for RootNode against both sequence operators by the table);
S5.3 evaluation arms: Tuple -> Value::Tuple(all arguments), Chain -> last argument (error when empty), RootNode -> first | Empty;
S5.4 Tuple binds tighter than Chain; both are sequences with unbounded arity.
Not decided: tree equality for all mixed `,`/`;` programs (a run-time property of the root_stack algorithm)."""
import tables
from absint import Interp, SYM, C, ADT, fmt, is_adt, Budget
from rules.treepaths import sequence_branch_paths, opaque_hook, calls_of, branches_of, is_true, seed
from rules.common import safe_tables

EXPLANATION = ('sibling-branch rule: path enumeration (abstract interpretation of MIR) of the four sub-branches of the separator handling in '
               'tokens_to_operator_tree and of collapse_root_stack_to, with must-pass-through obligations on the pushed placeholder and the absorb guard, '
               'the latter evaluated against the extracted precedence table; evaluation arms of Tuple/Chain/RootNode by abstract interpretation. '
               'Decides these necessary conditions, not tree equality for all programs')


def run(ctx):
    prog = ctx.prog()
    ctx.trust('rustc nightly MIR of /repo; Vec::push/pop semantics (std)')
    ctx.assume('root_stack holds only RootNode (parenthesis levels) and sequence nodes: every push onto it is a root_node(), a node popped from it, or a node inside the is_sequence() branch')
    T = safe_tables(ctx, prog, 'S5.4')
    if T is None:
        return
    s51(ctx, prog)
    s52(ctx, prog, T)
    s53(ctx, prog)
    prec = T['precedence']
    ctx.check(prec['Tuple'] > prec['Chain'], 'S5.4', 'Tuple>Chain', 'prec', 'tuple operator binds tighter than the chain operator (%d > %d)' % (prec['Tuple'], prec['Chain']))
    for o in ('Tuple', 'Chain'):
        ctx.check(T['is_sequence'][o] is True and T['max_argument_amount'][o] is None, 'S5.4', o, 'sequence', '%s is a sequence operator with unbounded arity' % o)
    ctx.check(sorted(k for k, v in T['is_sequence'].items() if v) == ['Chain', 'Tuple'], 'S5.4', 'sequence-set', 'set', 'exactly Tuple and Chain are sequence operators')


def s51(ctx, prog):
    try:
        f, start, paths = sequence_branch_paths(prog)
    except (ValueError, Budget) as e:
        ctx.unrecognised('S5.1', 'sequence-branch', 'shape', 'separator branch of tokens_to_operator_tree not recognised: %s' % e)
        return
    sub = {}
    n = 0
    for ret, eff in paths:
        if not (isinstance(ret, tuple) and ret and ret[0] == 'stop'):
            continue  # error return / unreachable!()
        calls = calls_of(eff)
        pushes = [(a, sp) for (nm, a, sp) in calls if nm == 'push' and len(a) == 2]
        stack_pushes = [(a, sp) for (a, sp) in pushes if a[0] == SYM('root_stack')]
        if not stack_pushes:
            ctx.violation('S5.1', 'sequence-branch', 'no-stack-push', 'a path through the separator branch leaves nothing on root_stack', span=f.span)
            continue
        top = stack_pushes[-1][0][1]
        # sub-branch label from the branch conditions (for reporting; not used for the verdict)
        label = sub_label(eff)
        n += 1
        children_of_top = ('proj', top[1], top[2] + ('children',)) if top[0] == 'proj' else ('proj', top, ('children',))
        child_pushes = [a for (a, sp) in pushes if a[0] == children_of_top]
        good = bool(child_pushes) and child_pushes[-1][1] == ('app', 'root_node', ())
        sub.setdefault(label, []).append(good)
        if not good:
            ctx.violation('S5.1', 'sub-branch:' + label, 'no-placeholder',
                          'after a separator, the sequence node left on top of root_stack (%s) did not receive a fresh root_node() as its last child (children pushes: %s): the next element is inserted into the previous one' % (fmt(top), [fmt(a[1]) for a in child_pushes]),
                          span=stack_pushes[-1][1])
    for label, goods in sub.items():
        if all(goods):
            ctx.ok('S5.1', 'sub-branch:' + label, 'every path (%d) pushes a root_node() placeholder into the sequence that ends on top of root_stack' % len(goods), span=f.span)
    ctx.floor('S5.1', 'separator_sub_branches', len(sub), 4)
    ctx.sample(dict(rule='S5.1', sub_branches={k: all(v) for k, v in sub.items()}))


def sub_label(eff):
    for v, taken in branches_of(eff):
        s = fmt(v)
        if 'mem::discriminant' in s and 'eq' in s.lower():
            if is_true(taken):
                return 'extend-same-kind'
        if 'Operator::RootNode' in s and is_true(taken):
            return 'start-on-root'
        if s.startswith('binop:Lt(precedence') or s.startswith('binop:Gt(precedence'):
            return 'nest-higher' if is_true(taken) == s.startswith('binop:Lt') else 'collapse-to-lower'
    return 'other'


def s52(ctx, prog, T):
    f = prog.fn('tree::collapse_root_stack_to')
    if f is None:
        ctx.unrecognised('S5.2', 'collapse_root_stack_to', 'missing', 'tree::collapse_root_stack_to not found')
        return
    it = Interp(prog, hook=opaque_hook(), loop_bound=1)
    try:
        paths = it.paths(f, [SYM('root_stack'), SYM('root'), SYM('collapse_goal')])
    except Budget:
        ctx.unrecognised('S5.2', 'collapse_root_stack_to', 'budget', 'too complex')
        return
    prec = T['precedence']
    n = 0
    for ret, eff in paths:
        seen_br = []
        for e in eff:
            if e[0] == '<branch>':
                seen_br.append((e[2][0], e[2][1]))
                continue
            if e[0].startswith('<'):
                continue
            nm = e[0].split('::')[-1]
            a = e[2]
            if nm == 'push' and len(a) == 2 and a[0][0] == 'proj' and a[0][2][-1:] == ('children',) and 'pop' in fmt(a[0]):
                # absorb step: children of a node popped from the stack
                n += 1
                popped = a[0][1] if len(a[0][2]) == 1 else ('proj', a[0][1], a[0][2][:-1])
                guard = None
                for v, taken in seen_br:
                    s = fmt(v)
                    if s.startswith('is_sequence(') and fmt(popped) in s and is_true(taken):
                        guard = 'explicit is_sequence() guard on the popped node'
                    if 'Operator::RootNode' in s and fmt(popped) in s and (('::ne' in s and is_true(taken)) or ('::eq' in s and not is_true(taken))):
                        guard = 'explicit `!= RootNode` guard on the popped node'
                if guard is None:
                    # accepted idiom 2: the precedence comparison alone excludes every non-sequence kind that can sit on the stack
                    cmpb = [(v, taken) for v, taken in seen_br if fmt(v).startswith('binop:Gt(precedence') or fmt(v).startswith('binop:Lt(precedence') or fmt(v).startswith('binop:Ge(precedence') or fmt(v).startswith('binop:Le(precedence')]
                    bad = []
                    if cmpb:
                        v, taken = cmpb[-1]
                        opname = v[1].split(':')[1]
                        for goal in ('Tuple', 'Chain'):
                            for k in ('RootNode',):
                                x, y = prec[k], prec[goal]
                                # operand order: first operand is precedence of the popped node when its term mentions pop
                                a0 = fmt(v[2][0])
                                lhs, rhs = (x, y) if 'pop' in a0 else (y, x)
                                val = {'Gt': lhs > rhs, 'Lt': lhs < rhs, 'Ge': lhs >= rhs, 'Le': lhs <= rhs}[opname]
                                if val == is_true(taken):
                                    bad.append('%s (precedence %d) against %s (precedence %d)' % (k, x, goal, y))
                        if not bad:
                            guard = 'precedence comparison is false for RootNode against both sequence operators (table)'
                    if guard is None:
                        ctx.violation('S5.2', 'collapse_root_stack_to:absorb', 'absorbs-root',
                                      'the popped stack node absorbs the collapsed sequence guarded only by a precedence comparison that also holds for a parenthesis-level RootNode: %s; the level\'s bottom root is absorbed and the loop runs off the stack (balanced input reported as UnmatchedRBrace)' % ('; '.join(bad) or 'no comparison found'),
                                      span=e[3])
                        continue
                ctx.ok('S5.2', 'collapse_root_stack_to:absorb', guard, span=e[3])
    ctx.floor('S5.2', 'absorb_steps', n, 1)
    # sibling: collapse_all_sequences absorbs only under is_sequence()
    g = prog.fn('tree::collapse_all_sequences')
    if g is None:
        ctx.unrecognised('S5.2', 'collapse_all_sequences', 'missing', 'tree::collapse_all_sequences not found')
        return
    it = Interp(prog, hook=opaque_hook(), loop_bound=1)
    paths = it.paths(g, [SYM('root_stack')])
    m = 0
    for ret, eff in paths:
        seen_br = []
        for e in eff:
            if e[0] == '<branch>':
                seen_br.append((e[2][0], e[2][1]))
                continue
            if e[0].startswith('<'):
                continue
            nm = e[0].split('::')[-1]
            a = e[2]
            if nm == 'push' and len(a) == 2 and a[0][0] == 'proj' and a[0][2][-1:] == ('children',):
                m += 1
                okk = any(fmt(v).startswith('is_sequence(') and fmt(a[1]) in fmt(v) and is_true(taken) for v, taken in seen_br)
                ctx.check(okk, 'S5.2', 'collapse_all_sequences:absorb', 'unguarded', 'a node is absorbed into the next stack entry only when it is a sequence (is_sequence() on the absorbed node)', span=e[3])
    ctx.floor('S5.2', 'collapse_all_absorb_steps', m, 1)


def s53(ctx, prog):
    f = prog.fn('operator::Operator::<NumericTypes>::eval')
    if f is None:
        ctx.unrecognised('S5.3', 'Operator::eval', 'missing', 'Operator::eval not found')
        return
    op = prog.adt(tables.OPERATOR)
    val = prog.adt(tables.VALUE)

    def paths_for(name):
        v = [x for x in op['variants'] if x['name'] == name][0]
        selfv = ADT(op['path'], v['idx'], v['name'], [])
        it = Interp(prog, max_depth=2)
        return it.paths(f, [selfv, SYM('arguments'), SYM('context')])
    # Tuple
    ps = paths_for('Tuple')
    good = len(ps) == 1 and is_adt(ps[0][0], 'result::Result', 'Ok') and is_adt(ps[0][0][4][0], 'value::Value', 'Tuple') \
        and ps[0][0][4][0][4][0][0] == 'app' and ps[0][0][4][0][4][0][2] == (SYM('arguments'),) and ('into' in ps[0][0][4][0][4][0][1] or 'to_vec' in ps[0][0][4][0][4][0][1])
    ctx.check(good, 'S5.3', 'Tuple', 'tuple-arm', 'Tuple evaluates to Value::Tuple(all arguments, in order): %s' % [fmt(p[0]) for p in ps], span=f.span)
    # Chain
    ps = paths_for('Chain')
    oks = [p for p in ps if is_adt(p[0], 'result::Result', 'Ok')]
    errs = [p for p in ps if is_adt(p[0], 'result::Result', 'Err')]
    good = len(oks) == 1 and len(errs) >= 1
    if good:
        v = oks[0][0][4][0]
        s = fmt(v)
        good = 'last($arguments)' in s.replace('core::slice::<impl [T]>::', '').replace('core::slice::<impl [value::Value<NumericTypes>]>::', '') or ('::last(' in s and '$arguments' in s)
        good = good and 'first' not in s
        br = branches_of(oks[0][1])
        good = good and any('is_empty($arguments)' in fmt(b[0]).replace('core::slice::<impl [T]>::', '') or ('is_empty' in fmt(b[0]) and '$arguments' in fmt(b[0])) for b in br)
    ctx.check(good, 'S5.3', 'Chain', 'chain-arm', 'Chain evaluates to its last argument and fails on an empty argument list: %s' % [fmt(p[0]) for p in ps], span=f.span)
    # RootNode
    ps = paths_for('RootNode')
    rets = sorted(fmt(p[0]) for p in ps)
    good = len(ps) == 2 and any(is_adt(p[0], 'result::Result', 'Ok') and is_adt(p[0][4][0], 'value::Value', 'Empty') for p in ps) \
        and any(is_adt(p[0], 'result::Result', 'Ok') and 'first' in fmt(p[0]) and '$arguments' in fmt(p[0]) for p in ps)
    ctx.check(good, 'S5.3', 'RootNode', 'root-arm', 'RootNode evaluates to its first argument, or Empty when it has none: %s' % rets, span=f.span)
    ctx.sample(dict(rule='S5.3', RootNode=rets))
