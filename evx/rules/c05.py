"""C05 — tuples and chains compose (clause level).

S5.1 a separator always opens a new element: on every path through the sequence branch of tokens_to_operator_tree the
     sequence node that ends on top of root_stack received a fresh Node::root_node() as its last child;
S5.2 collapsing stays inside the parenthesis level: collapse_root_stack_to absorbs a popped node only when that node is a
     sequence (explicit guard, or the precedence comparison is false for RootNode against both sequence operators by the table);
S5.3 evaluation arms: Tuple -> Value::Tuple(all arguments), Chain -> last argument (error when empty), RootNode -> first | Empty;
S5.4 Tuple binds tighter than Chain; both are sequences with unbounded arity.
S5.5 element conservation in the sequence branch (see s55).
S5.8 the decision a separator makes (continue the open sequence of its kind / open a new one) as a function of the kinds involved (s58);
S5.6 every element is evaluated, in order: both recursive evaluators run one forward pass over all children of a node and apply
     the operator afterwards to all collected values (the C08 evaluator rule, reported here because `;` "evaluates all its elements").
Not decided: tree equality for all mixed `,`/`;` programs (a run-time property of the root_stack algorithm)."""
import tables
from absint import Interp, SYM, C, ADT, OK, ERR, Fork, fmt, is_adt, Budget, has_subterm, apps, UNK as UNK_
from rules.treepaths import sequence_branch_paths, opaque_hook, calls_of, branches_of, is_true, seed
from rules.common import safe_tables

EXPLANATION = ('sibling-branch rule: path enumeration (abstract interpretation of MIR) of the four sub-branches of the separator handling in '
               'tokens_to_operator_tree and of collapse_root_stack_to, with must-pass-through obligations on the pushed placeholder and the absorb guard, '
               'the latter evaluated against the extracted precedence table; evaluation arms of Tuple/Chain/RootNode by abstract interpretation. '
               'Decides these necessary conditions, not tree equality for all programs')


def run(ctx):
    prog = ctx.prog()
    ctx.trust('rustc nightly MIR of /repo; Vec::push/pop semantics (std)')
    ctx.assume('root_stack holds only RootNode (parenthesis levels) and sequence nodes: every push onto it is a root_node(), a node popped from it, or a node inside the is_sequence() branch')
    T = safe_tables(ctx, prog, 'S5.4')
    if T is None:
        return
    s51(ctx, prog)
    s55(ctx, prog)
    s58(ctx, prog, T)
    s52(ctx, prog, T)
    s53(ctx, prog)
    s56(ctx, prog)
    s510(ctx, prog)
    # S5.11 every separator character reaches the tree builder as its own token: stage 2 of the tokenizer passes complete tokens through
    # unchanged, whatever stands before or after them (the C07 R7.3 statement about complete tokens, reported here - `1;;2` has an absent
    # element only if both `;` arrive)
    # S5.12 "further nesting arises only through parentheses": a parenthesised group reaches the tree as its own RootNode child because
    # insert_back_prioritized attaches the node it is given - the C02 T7 decision function of the insertion procedure (push / descend /
    # rotate / error as a function of the kinds involved), reported here: an insertion that unwraps or re-homes a group changes which
    # elements a later operator or separator sees
    from rules.c02 import t7
    t7(_Renamed(ctx, 'S5.12'), prog, T)
    # S5.13 "further nesting arises only through parentheses", at any depth and whatever sequences are open: `(` pushes exactly one
    # RootNode and does nothing else, `)` collapses and pops exactly one level, the end accounts for what is left - the C13 S13.3
    # parenthesis accounting, reported here: a depth guard that measures root_stack.len() counts the open sequences as levels
    from rules.c13 import s13_3
    s13_3(_Renamed(ctx, 'S5.13'), prog)
    from rules import toksem
    try:
        toksem.check_whitespace(_OnlyInstances(ctx, 'S5.11', ['Whitespace-token']), prog, 'S5.11')
    except (ValueError, tables.TableError) as e:
        ctx.unrecognised('S5.11', 'partial_tokens_to_tokens', 'shape', str(e))
    # S5.9 "with earlier elements' effects applied" holds through every mutable entry point: the typed `_mut` and context-free forms
    # reach the mutable root evaluator exactly once (the base-call part of the C12 entry-point analysis)
    from rules.c08 import r87
    r87(ctx, prog, rule='S5.9', only_mut=True)
    prec = T['precedence']
    ctx.check(prec['Tuple'] > prec['Chain'], 'S5.4', 'Tuple>Chain', 'prec', 'tuple operator binds tighter than the chain operator (%d > %d)' % (prec['Tuple'], prec['Chain']))
    for o in ('Tuple', 'Chain'):
        ctx.check(T['is_sequence'][o] is True and T['max_argument_amount'][o] is None, 'S5.4', o, 'sequence', '%s is a sequence operator with unbounded arity' % o)
    ctx.check(sorted(k for k, v in T['is_sequence'].items() if v) == ['Chain', 'Tuple'], 'S5.4', 'sequence-set', 'set', 'exactly Tuple and Chain are sequence operators')


def s51(ctx, prog):
    try:
        f, start, paths = sequence_branch_paths(prog)
    except (ValueError, Budget) as e:
        ctx.unrecognised('S5.1', 'sequence-branch', 'shape', 'separator branch of tokens_to_operator_tree not recognised: %s' % e)
        return
    sub = {}
    n = 0
    for ret, eff in paths:
        if not (isinstance(ret, tuple) and ret and ret[0] == 'stop'):
            continue  # error return / unreachable!()
        calls = calls_of(eff)
        pushes = [(a, sp) for (nm, a, sp) in calls if nm == 'push' and len(a) == 2]
        stack_pushes = [(a, sp) for (a, sp) in pushes if a[0] == SYM('root_stack')]
        if not stack_pushes:
            # nothing is pushed when the node that stays on top of the stack is edited in place through `root_stack.last_mut()`: that node
            # is then the top
            inplace = [('proj', a[0][1], a[0][2][:-1]) for (a, sp) in pushes if a[0][0] == 'proj' and a[0][2][-1:] == ('children',) and len(a[0][2]) > 1 and a[0][1][0] == 'app'
                       and a[0][1][1].split('::')[-1].split('#')[0] in ('last_mut', 'last') and a[0][1][2] and a[0][1][2][0] == SYM('root_stack')]
            if not inplace:
                ctx.violation('S5.1', 'sequence-branch', 'no-stack-push', 'a path through the separator branch leaves nothing on root_stack', span=f.span)
                continue
            top = inplace[-1]
            stack_pushes = [((SYM('root_stack'), top), f.span)]
        else:
            top = stack_pushes[-1][0][1]
        # sub-branch label from the branch conditions (for reporting; not used for the verdict)
        label = sub_label(eff)
        n += 1
        children_of_top = ('proj', top[1], top[2] + ('children',)) if top[0] == 'proj' else ('proj', top, ('children',))
        child_pushes = [a for (a, sp) in pushes if a[0] == children_of_top]
        good = bool(child_pushes) and child_pushes[-1][1] == ('app', 'root_node', ())
        sub.setdefault(label, []).append(good)
        if not good:
            ctx.violation('S5.1', 'sub-branch:' + label, 'no-placeholder',
                          'after a separator, the sequence node left on top of root_stack (%s) did not receive a fresh root_node() as its last child (children pushes: %s): the next element is inserted into the previous one' % (fmt(top), [fmt(a[1]) for a in child_pushes]),
                          span=stack_pushes[-1][1])
    for label, goods in sub.items():
        if all(goods):
            ctx.ok('S5.1', 'sub-branch:' + label, 'every path (%d) pushes a root_node() placeholder into the sequence that ends on top of root_stack' % len(goods), span=f.span)
    ctx.floor('S5.1', 'separator_sub_branches', len(sub), 4)
    ctx.sample(dict(rule='S5.1', sub_branches={k: all(v) for k, v in sub.items()}))


def owned(v):
    """is the abstract node value one the builder owns exactly once (moved, not copied)?"""
    if v in (SYM('root'), SYM('node')):
        return True
    if v == ('app', 'root_node', ()):
        return True
    if v[0] == 'proj':
        b = v[1]
        # payload of a pop (`Vec::pop#k(..).as Some.0`) or the Ok payload of a collapse
        if b[0] == 'app' and ('::pop#' in b[1] or b[1].startswith('collapse_root_stack_to')):
            return True
    if v[0] == 'app' and ('::pop#' in v[1]):
        return True
    return False


def s55(ctx, prog):
    """element conservation in the separator branch: every node placed into a children vector or onto root_stack is owned
    (the popped root, the new node, a popped child, a collapse result, a fresh placeholder) - never a copy of a node that
    stays where it was - and every node taken out (root, node, each popped child) is placed exactly once"""
    try:
        f, start, paths = sequence_branch_paths(prog)
    except (ValueError, Budget) as e:
        ctx.unrecognised('S5.5', 'sequence-branch', 'shape', str(e))
        return
    n = 0
    bad = False
    for ret, eff in paths:
        if not (isinstance(ret, tuple) and ret and ret[0] == 'stop'):
            continue
        n += 1
        label = sub_label(eff)
        placed = []
        # `root` is the node the branch works on: either already taken off the stack when the branch is entered (then the seeded
        # symbol occurs in the path) or popped inside the branch (then it is one of the pops collected below)
        root_used = any(has_subterm(x_, SYM('root')) for _nm, a_, _sp in calls_of(eff) for x_ in a_ if isinstance(x_, tuple))
        taken = ([SYM('root')] if root_used else []) + [SYM('node')]
        for nm, a, sp in calls_of(eff):
            if nm == 'push' and len(a) == 2:
                placed.append((a[1], sp))
            if nm.startswith('pop') and a:
                pass
        for e in eff:
            if e[0] == '<branch>':
                v, t = e[2]
                # a pop whose Some edge was taken yields an element that must be placed again
                if v[0] == 'app' and v[1] == 'discriminant' and v[2][0][0] == 'app' and '::pop#' in v[2][0][1] and t == C(1):
                    taken.append(('proj', v[2][0], ('as Some', '0')))
        for v, sp in placed:
            if not owned(v):
                bad = True
                ctx.violation('S5.5', 'sub-branch:' + label, 'copied-element', 'a node is placed that the builder does not own exclusively (%s): an element is copied instead of moved, so it occurs twice in the tree and is evaluated twice' % fmt(v)[:160], span=sp)
        vals = [v for v, _ in placed]
        for tkn in taken:
            c = sum(1 for v in vals if v == tkn)
            # the collapse sub-branch hands `root` to collapse_root_stack_to, which returns the node to place
            handed = any(nm == 'collapse_root_stack_to' and tkn in a for nm, a, sp in calls_of(eff))
            droppable = tkn == SYM('node') and c == 0  # the fresh separator node has no children: extending an open sequence drops it
            if c != 1 and not (handed and c == 0) and not droppable:
                bad = True
                ctx.violation('S5.5', 'sub-branch:' + label, 'lost-or-duplicated', 'node %s is placed %d times on a path through the separator branch (must be exactly once)' % (fmt(tkn)[:100], c), span=f.span)
    # S5.7 the kind test that decides between continuing an open sequence and starting a new one compares a sequence on the stack with
    # the incoming separator (and nothing else): every `mem::discriminant(..) == mem::discriminant(..)` in the branch has the separator
    # node's operator on one side and the operator of `root` / of a node popped from root_stack on the other
    n_kind = 0
    wrong_kind = []
    for ret, eff in paths:
        for v, taken in branches_of(eff):
            if v[0] == 'app' and v[1].split('::')[-1] in ('eq', 'ne') and 'PartialEq' in v[1] and len(v[2]) == 2 and all(x_[0] == 'app' and x_[1].endswith('mem::discriminant') for x_ in v[2]):
                n_kind += 1
                sides = [x_[2][0] for x_ in v[2]]
                node_op = ('proj', SYM('node'), ('operator',))
                others = [x_ for x_ in sides if x_ != node_op]
                ok_ = len(others) == 1 and others[0][0] == 'proj' and others[0][2][-1:] == ('operator',) and (
                    others[0][1] == SYM('root') or any(n_.split('::')[-1].split('#')[0] in ('pop', 'last', 'last_mut') and x2 and x2[0] == SYM('root_stack') for n_, x2 in apps(others[0])))
                if not ok_ and len(wrong_kind) < 3:
                    wrong_kind.append(fmt(v)[:160])
    ctx.check(not wrong_kind and n_kind >= 2, 'S5.7', 'same-kind-test', 'kind-test', 'the same-kind test compares the sequence on the stack with the incoming separator (%d tests; deviations: %s)' % (n_kind, wrong_kind), span=f.span)
    if not bad:
        ctx.ok('S5.5', 'element-conservation', 'on all %d paths every placed node is owned (moved) and every removed node is placed exactly once' % n, span=f.span)
    ctx.floor('S5.5', 'separator_paths', n, 4)
    # the non-separator path through an open sequence: the popped last element is pushed back exactly once
    g = f
    start2 = None
    root_tys = []
    for b, t in g.calls():
        if t['callee']['name'] == 'is_sequence' and t['callee'].get('local'):
            from mirlib import def_roots, op_place, resolve_place, call_result_bool_edges
            a = op_place(t['args'][0])
            for r in def_roots(g, resolve_place(g, a)['l']):
                if r[1] == 'term' and r[2]['callee']['name'] == 'operator':
                    raw = op_place(r[2]['args'][0])
                    recv = resolve_place(g, raw)
                    names_ = {g.local_name(recv['l'])}
                    l_ = raw['l'] if raw is not None else None
                    for _step in range(5):
                        if l_ is None:
                            break
                        names_.add(g.local_name(l_))
                        if g.local_name(l_) == 'root':
                            root_tys.append(g.locals[l_]['ty'])
                        sd_ = g.single_def(l_)
                        if sd_ is None or sd_[1] == 'term':
                            break
                        src_ = sd_[2].get('pl') if sd_[2]['k'] == 'ref' else (op_place(sd_[2]['op']) if sd_[2]['k'] == 'use' else None)
                        l_ = src_['l'] if src_ is not None else None
                    if 'root' in names_:
                        e = call_result_bool_edges(g, b)
                        if e:
                            start2 = e
    if start2 is None:
        ctx.unrecognised('S5.5', 'open-sequence-branch', 'shape', '`root.operator().is_sequence()` branch not found', span=g.span)
        return
    it = Interp(prog, hook=opaque_hook(stop_at=('is_rightsided_value',), extra=lambda it_, fn, t, args: (Fork([OK(('tuple', ())), ERR(SYM('insert_error'))]) if t['callee']['name'] == 'insert_back_prioritized' else None)), max_steps=200000)
    out = []
    it._run(g, start2[2], seed(g, {'node', 'root', 'root_stack'}), 0, out, (), {})
    m = 0
    for ret, eff in out:
        if not (isinstance(ret, tuple) and ret and ret[0] == 'stop'):
            continue
        m += 1
        cs = calls_of(eff)
        pops = [a for nm, a, sp in cs if nm == 'pop']
        pushes = [a for nm, a, sp in cs if nm == 'push' and len(a) == 2]
        ins = [a for nm, a, sp in cs if nm == 'insert_back_prioritized']
        good = len(pops) == 1 and pops[0][0] == ('proj', SYM('root'), ('children',)) and len(ins) == 1 and ins[0][1] == SYM('node')
        good = good and len(pushes) == 2 and pushes[0][0] == ('proj', SYM('root'), ('children',)) and owned(pushes[0][1]) and pushes[0][1] == ins[0][0] and pushes[1] == (SYM('root_stack'), SYM('root'))
        if not good and not pops and len(ins) == 1 and ins[0][1] == SYM('node'):
            # in-place form: the last element is edited through `root.children.last_mut()`, nothing is taken out
            tgt = ins[0][0]
            in_place = tgt[0] == 'proj' and tgt[2] == ('as Some', '0') and tgt[1][0] == 'app' and tgt[1][1].split('::')[-1].split('#')[0] == 'last_mut' and tgt[1][2] == (('proj', SYM('root'), ('children',)),)
            root_is_borrow = bool(root_tys) and all(ty_.startswith('&mut') for ty_ in root_tys)
            good = in_place and (pushes == [(SYM('root_stack'), SYM('root'))] or (root_is_borrow and not pushes))
            if not good and not pushes and tgt[0] == 'proj' and tgt[2] == ('as Some', '0') and tgt[1][0] == 'app' and tgt[1][1].split('::')[-1].split('#')[0] == 'last_mut' and len(tgt[1][2]) == 1:
                # the open sequence itself is edited where it sits on the stack: root_stack.last_mut() -> its children.last_mut()
                kids = tgt[1][2][0]
                good = kids[0] == 'proj' and kids[2][-1:] == ('children',) and any(n_.split('::')[-1].split('#')[0] == 'last_mut' and x_ == (SYM('root_stack'),) for n_, x_ in apps(kids))
        ctx.check(good, 'S5.5', 'open-sequence:insert-into-last-element', 'last-element', 'a non-separator token is inserted into the last element of the open sequence, which is popped and pushed back exactly once, or edited in place through last_mut() (pops %d, pushes %s, inserted into %s)' % (len(pops), [fmt(a[1])[:60] for a in pushes], [fmt(a[0])[:110] for a in ins]), span=g.span)
    ctx.floor('S5.5', 'open_sequence_paths', m, 1)


def s58(ctx, prog, T):
    """S5.8 the decision a separator makes. Along every path through the separator branch the branch conditions are functions of the
    kinds of three nodes - `root` (the sequence or group on top of the stack), `node` (the incoming `,` / `;`) and, after a collapse,
    the node popped below (`lower`) - and of whether the stack / a child list had an element to pop. The outcome of a path is which
    node ends on top of root_stack and whether the separator node was placed (a new sequence is opened) or dropped (an open sequence is
    continued). For every combination of kinds the consistent paths must give the outcome the composition rule demands:
      root of the separator's kind                 -> continue root (node dropped, root back on top);
      root is a group (RootNode)                   -> new sequence on top (node placed);
      root binds looser than the separator         -> new sequence on top (node placed; it takes root's last element);
      otherwise collapse, then pop `lower`: none   -> error; lower of the separator's kind -> continue lower (node dropped);
                                            else   -> new sequence on top (node placed).
    A condition that is none of these (a test of the stack depth, say) is a free boolean: the outcome must not depend on it."""
    import itertools
    try:
        f, start, paths = sequence_branch_paths(prog)
    except (ValueError, Budget) as e:
        ctx.unrecognised('S5.8', 'sequence-branch', 'shape', str(e))
        return
    prec, isseq = T['precedence'], T['is_sequence']
    ROOT, NODE, STACK = SYM('root'), SYM('node'), SYM('root_stack')

    class Unknown(Exception):
        pass

    def who(x):
        """'R' / 'N' / 'L' / 'K' when x is (the operator of) root / node / a node popped from root_stack / the collapse result"""
        if x[0] == 'proj' and x[2][-1:] == ('operator',):
            x = ('proj', x[1], x[2][:-1]) if len(x[2]) > 1 else x[1]
        if x[0] == 'app' and x[1].split('::')[-1].split('#')[0] == 'operator' and len(x[2]) == 1:
            x = x[2][0]
        if x == ROOT:
            return 'R'
        if x == NODE:
            return 'N'
        if x[0] == 'proj' and x[1][0] == 'app':
            nm = x[1][1].split('::')[-1].split('#')[0]
            if nm in ('pop', 'last', 'last_mut') and x[1][2] and x[1][2][0] == STACK:
                return roles.get(x[1][1], 'L')
            if nm == 'collapse_root_stack_to':
                return 'K'
        return None

    free = {}
    roles = {}

    def comp(term):
        k = term[0]
        if k == 'c':
            v = term[1]
            return lambda a: v
        if k == 'adt' and 'Operator' in term[1]:
            nm = term[3]
            return lambda a: nm
        if k == 'app':
            name, args = term[1], term[2]
            base = name.split('::')[-1].split('#')[0]
            if name.startswith('binop:') and len(args) == 2:
                import operator as _o
                x, y = comp(args[0]), comp(args[1])
                fn_ = {'Lt': _o.lt, 'Le': _o.le, 'Gt': _o.gt, 'Ge': _o.ge, 'Eq': _o.eq, 'Ne': _o.ne}.get(name.split(':')[1])
                if fn_ is None:
                    raise Unknown(fmt(term)[:100])
                return lambda a: fn_(x(a), y(a))
            if name.startswith('unop:Not') and len(args) == 1:
                x = comp(args[0])
                return lambda a: not x(a)
            if base == 'discriminant' and len(args) == 1:
                inner = args[0]
                w = who(inner)
                if w is not None and not (inner[0] == 'app'):
                    return lambda a: a[w]                      # mem::discriminant of a node's operator: its kind
                if inner[0] == 'app':
                    nm = inner[1].split('::')[-1].split('#')[0]
                    if nm == 'collapse_root_stack_to':
                        return lambda a: 0 if a['collapse_ok'] else 1
                    if nm in ('pop', 'last', 'last_mut', 'first') and inner[2]:
                        key = 'has:' + (('root' if roles.get(inner[1]) == 'R' else 'stack') if inner[2][0] == STACK else fmt(inner[2][0])[:40])
                        free.setdefault(key, None)
                        return lambda a: 1 if a[key] else 0
                if w is not None:
                    return lambda a: a[w]
                raise Unknown(fmt(term)[:100])
            if base in ('eq', 'ne') and len(args) == 2:
                x, y = comp(args[0]), comp(args[1])
                return (lambda a: x(a) == y(a)) if base == 'eq' else (lambda a: x(a) != y(a))
            if base in ('precedence', 'is_sequence') and len(args) == 1:
                w = who(args[0])
                if w is None:
                    raise Unknown(fmt(term)[:100])
                tab = prec if base == 'precedence' else isseq
                return lambda a: tab[a[w]]
            if base in ('is_empty', 'len') and len(args) == 1:
                key = 'len:' + fmt(term)[:60]
                free.setdefault(key, None)
                if base == 'is_empty':
                    return lambda a: bool(a[key])
                return lambda a: 0 if a[key] else 2
            w = who(term)
            if w is not None:
                return lambda a: a[w]
        w = who(term)
        if w is not None:
            return lambda a: a[w]
        raise Unknown(fmt(term)[:100])

    compiled = []
    try:
        for ret, eff in paths:
            # the path ends where this loop iteration ends: at the next advance of the token iterator (when the loop latch is not marked
            # by the `is_rightsided_value` bookkeeping call any more)
            for i_, e in enumerate(eff):
                if not e[0].startswith('<') and e[0].split('::')[-1] == 'next' and 'Iterator' in e[0] and not any(has_subterm(x_, STACK) for x_ in e[2] if isinstance(x_, tuple)):
                    eff = eff[:i_]
                    if not (isinstance(ret, tuple) and ret and ret[0] == 'stop'):
                        ret = ('stop', None)
                    break
            # `root` is either the node already taken off the stack when the branch is entered (the seeded symbol occurs on the path) or
            # the first node the branch pops itself; every later pop is the `lower` node
            roles.clear()
            root_seeded = any(has_subterm(x_, ROOT) for e in eff if not e[0].startswith('<') for x_ in e[2] if isinstance(x_, tuple))
            pops = [e[4] for e in eff if not e[0].startswith('<') and e[0].split('::')[-1] == 'pop' and e[2] and e[2][0] == STACK and len(e) > 4 and e[4] is not None]
            for i_, pt_ in enumerate(pops):
                roles[pt_[1]] = 'R' if (i_ == 0 and not root_seeded) else 'L'
            conds = []
            for e in eff:
                if e[0] != '<branch>':
                    continue
                v, taken = e[2]
                if v == UNK_ or v[0] == 'unk':
                    continue
                conds.append((comp(v), taken))
            pushes = [(a[0], a[1]) for nm, a, sp in calls_of(eff) if nm == 'push' and len(a) == 2]
            on_stack = [v for tgt, v in pushes if tgt == STACK]
            if is_adt(ret, 'result::Result', 'Err') or ret == ('diverge',):
                out = 'error' if ret != ('diverge',) else 'panic'
            elif not on_stack:
                # nothing pushed: the node that stays on top was edited in place through `root_stack.last_mut()`
                inplace = [tgt for tgt, v in pushes if tgt[0] == 'proj' and tgt[2][-1:] == ('children',) and who(('proj', tgt[1], tgt[2][:-1]) if len(tgt[2]) > 1 else tgt[1]) == 'L'
                           and tgt[1][0] == 'app' and tgt[1][1].split('::')[-1].split('#')[0] in ('last_mut', 'last')]
                out = ('lower', False) if inplace else '?'
            else:
                top = on_stack[-1]
                out = ({'R': 'root', 'N': 'node', 'L': 'lower'}.get(who(top), '?'), any(v == NODE for v in on_stack))
            compiled.append((conds, out))
    except Unknown as e:
        ctx.unrecognised('S5.8', 'sequence-branch', 'condition', 'a branch condition of the separator handling is not a function of the kinds of root / separator / lower node: %s' % e, span=f.span)
        return

    def decide(a):
        hits = set()
        for conds, out in compiled:
            for fn_, taken in conds:
                v = fn_(a)
                if isinstance(v, bool):
                    v = 1 if v else 0
                if isinstance(v, str):
                    v = KIND_IDX.get(v, v)
                if (v in getattr(taken, 'excluded', (0,))) if taken[0] == 'sym' else (v != taken[1]):
                    break
            else:
                hits.add(out)
        return hits
    op = prog.adt(tables.OPERATOR)
    KIND_IDX = {v['name']: v['idx'] for v in op['variants']}
    kinds = ('RootNode', 'Tuple', 'Chain')
    free_keys = sorted(free)
    bad, n = [], 0
    try:
        for R in kinds:
            for N in ('Tuple', 'Chain'):
                if R == N:
                    ref, Ls = ('root', False), ('RootNode',)
                elif R == 'RootNode' or prec[R] < prec[N]:
                    ref, Ls = ('node', True), ('RootNode',)
                else:
                    ref, Ls = None, ('RootNode', N)
                for L in Ls:
                    for collapse_ok in (True, False):
                        for vals in itertools.product((False, True), repeat=len(free_keys)):
                            a = dict(R=R, N=N, L=L, K=R, collapse_ok=collapse_ok)
                            a.update(zip(free_keys, vals))
                            want = ref
                            if not a.get('has:root', True):
                                want = 'error'
                            elif ref is None:
                                if not collapse_ok or not a.get('has:stack', True):
                                    want = 'error'
                                else:
                                    want = ('lower', False) if L == N else ('node', True)
                            else:
                                # popping an element of an open sequence always succeeds ("once a sequence is on the stack it has a child"),
                                # and the collapse is not reached in these cases
                                if not all(v_ for k_, v_ in a.items() if k_.startswith('has:') and k_ not in ('has:stack', 'has:root')) or not collapse_ok or not a.get('has:stack', True):
                                    continue
                            n += 1
                            got = decide(a)
                            if got != {want} and len(bad) < 4:
                                bad.append('root %s, separator %s%s%s: %s, expected %s' % (R, N, (', lower %s' % L) if ref is None else '', ''.join(', %s=%s' % (k_, a[k_]) for k_ in free_keys if k_.startswith('len:')), sorted(map(str, got)), want))
    except Unknown as e:
        ctx.unrecognised('S5.8', 'sequence-branch', 'condition', 'a branch condition of the separator handling is not a function of the kinds of root / separator / lower node: %s' % e, span=f.span)
        return
    ctx.check(not bad, 'S5.8', 'separator-decision', 'decision', 'for every combination of kinds the separator continues the open sequence of its own kind or opens a new one exactly as the composition rule demands, independent of anything else (%d cases; deviations: %s)' % (n, bad), span=f.span)
    ctx.floor('S5.8', 'separator_decision_cases', n, 8)


def sub_label(eff):
    for v, taken in branches_of(eff):
        s = fmt(v)
        if 'mem::discriminant' in s and 'eq' in s.lower():
            if is_true(taken):
                return 'extend-same-kind'
        if 'Operator::RootNode' in s and is_true(taken):
            return 'start-on-root'
        if s.startswith('binop:Lt(precedence') or s.startswith('binop:Gt(precedence'):
            return 'nest-higher' if is_true(taken) == s.startswith('binop:Lt') else 'collapse-to-lower'
    return 'other'


def s52(ctx, prog, T):
    f = prog.fn('tree::collapse_root_stack_to')
    if f is None:
        ctx.unrecognised('S5.2', 'collapse_root_stack_to', 'missing', 'tree::collapse_root_stack_to not found')
        return
    it = Interp(prog, hook=opaque_hook(), loop_bound=1)
    try:
        paths = it.paths(f, [SYM('root_stack'), SYM('root'), SYM('collapse_goal')])
    except Budget:
        ctx.unrecognised('S5.2', 'collapse_root_stack_to', 'budget', 'too complex')
        return
    prec = T['precedence']
    n = 0
    for ret, eff in paths:
        seen_br = []
        for e in eff:
            if e[0] == '<branch>':
                seen_br.append((e[2][0], e[2][1]))
                continue
            if e[0].startswith('<'):
                continue
            nm = e[0].split('::')[-1]
            a = e[2]
            if nm == 'push' and len(a) == 2 and a[0][0] == 'proj' and a[0][2][-1:] == ('children',) and any(n_.split('::')[-1].split('#')[0] in ('pop', 'last', 'last_mut') and x_ and x_[0] == SYM('root_stack') for n_, x_ in apps(a[0])):
                # absorb step: children of a node popped from the stack
                n += 1
                popped = a[0][1] if len(a[0][2]) == 1 else ('proj', a[0][1], a[0][2][:-1])
                guard = None
                for v, taken in seen_br:
                    s = fmt(v)
                    if s.startswith('is_sequence(') and has_subterm(v, popped) and is_true(taken):
                        guard = 'explicit is_sequence() guard on the popped node'
                    if 'Operator::RootNode' in s and has_subterm(v, popped) and (('::ne' in s and is_true(taken)) or ('::eq' in s and not is_true(taken))):
                        guard = 'explicit `!= RootNode` guard on the popped node'
                if guard is None:
                    # accepted idiom 2: the precedence comparison alone excludes every non-sequence kind that can sit on the stack
                    cmpb = [(v, taken) for v, taken in seen_br if fmt(v).startswith('binop:Gt(precedence') or fmt(v).startswith('binop:Lt(precedence') or fmt(v).startswith('binop:Ge(precedence') or fmt(v).startswith('binop:Le(precedence')]
                    bad = []
                    if cmpb:
                        v, taken = cmpb[-1]
                        opname = v[1].split(':')[1]
                        for goal in ('Tuple', 'Chain'):
                            for k in ('RootNode',):
                                x, y = prec[k], prec[goal]
                                # operand order: first operand is precedence of the popped node when its term mentions pop
                                a0 = fmt(v[2][0])
                                lhs, rhs = (x, y) if 'pop' in a0 else (y, x)
                                val = {'Gt': lhs > rhs, 'Lt': lhs < rhs, 'Ge': lhs >= rhs, 'Le': lhs <= rhs}[opname]
                                if val == is_true(taken):
                                    bad.append('%s (precedence %d) against %s (precedence %d)' % (k, x, goal, y))
                        if not bad:
                            guard = 'precedence comparison is false for RootNode against both sequence operators (table)'
                    if guard is None:
                        ctx.violation('S5.2', 'collapse_root_stack_to:absorb', 'absorbs-root',
                                      'the popped stack node absorbs the collapsed sequence guarded only by a precedence comparison that also holds for a parenthesis-level RootNode: %s; the level\'s bottom root is absorbed and the loop runs off the stack (balanced input reported as UnmatchedRBrace)' % ('; '.join(bad) or 'no comparison found'),
                                      span=e[3])
                        continue
                ctx.ok('S5.2', 'collapse_root_stack_to:absorb', guard, span=e[3])
                # which sequences are absorbed: exactly those that bind tighter than the goal. An open sequence of the same kind as
                # the goal is the one the caller continues - absorbing it too (>= instead of >) nests `a; b, c; d` as ((a; (b, c)); d)
                cmps = [(v, taken) for v, taken in seen_br if v[0] == 'app' and v[1] in ('binop:Gt', 'binop:Lt', 'binop:Ge', 'binop:Le') and all(x_[0] == 'app' and x_[1] == 'precedence' for x_ in v[2])]
                wrong = []
                if not cmps:
                    wrong.append('no precedence comparison guards the absorb step')
                else:
                    v, taken = cmps[-1]
                    opname = v[1].split(':')[1]
                    popped_first = has_subterm(v[2][0], popped)
                    for pk in ('Tuple', 'Chain'):
                        for gk in ('Tuple', 'Chain'):
                            x, y = (prec[pk], prec[gk]) if popped_first else (prec[gk], prec[pk])
                            val = {'Gt': x > y, 'Lt': x < y, 'Ge': x >= y, 'Le': x <= y}[opname]
                            absorbed = val == is_true(taken)
                            if absorbed != (prec[pk] > prec[gk]):
                                wrong.append('%s under goal %s is %s' % (pk, gk, 'absorbed' if absorbed else 'kept'))
                ctx.check(not wrong, 'S5.2', 'collapse_root_stack_to:absorb-strict', 'absorb-order', 'a sequence on the stack is absorbed exactly when it binds tighter than the separator being handled (deviations: %s)' % wrong, span=e[3])
    ctx.floor('S5.2', 'absorb_steps', n, 1)
    # sibling: collapse_all_sequences absorbs only under is_sequence()
    g = prog.fn('tree::collapse_all_sequences')
    if g is None:
        ctx.unrecognised('S5.2', 'collapse_all_sequences', 'missing', 'tree::collapse_all_sequences not found')
        return
    it = Interp(prog, hook=opaque_hook(), loop_bound=1)
    paths = it.paths(g, [SYM('root_stack')])
    m = 0
    for ret, eff in paths:
        seen_br = []
        for e in eff:
            if e[0] == '<branch>':
                seen_br.append((e[2][0], e[2][1]))
                continue
            if e[0].startswith('<'):
                continue
            nm = e[0].split('::')[-1]
            a = e[2]
            if nm == 'push' and len(a) == 2 and a[0][0] == 'proj' and a[0][2][-1:] == ('children',):
                m += 1
                okk = any(fmt(v).startswith('is_sequence(') and has_subterm(v, a[1]) and is_true(taken) for v, taken in seen_br)
                ctx.check(okk, 'S5.2', 'collapse_all_sequences:absorb', 'unguarded', 'a node is absorbed into the next stack entry only when it is a sequence (is_sequence() on the absorbed node)', span=e[3])
    ctx.floor('S5.2', 'collapse_all_absorb_steps', m, 1)


REMOVERS = ('pop', 'remove', 'swap_remove', 'truncate', 'clear', 'drain', 'retain', 'retain_mut', 'split_off', 'pop_if', 'dedup', 'dedup_by', 'dedup_by_key', 'take')


def s510(ctx, prog):
    """S5.10 collapsing never drops an element: on every path through collapse_all_sequences and collapse_root_stack_to no element is
    taken out of a node's `children` vector unless that very element is placed again (pushed) later on the path.  The two functions only
    move whole nodes from root_stack into the children of the entry below; the placeholder a trailing separator pushed is an element
    ("an absent element ... is the empty value") and stays."""
    n_paths = 0
    for name in ('tree::collapse_all_sequences', 'tree::collapse_root_stack_to'):
        g = prog.fn(name)
        if g is None:
            ctx.unrecognised('S5.10', name.split('::')[-1], 'missing', '%s not found' % name)
            continue
        it = Interp(prog, hook=opaque_hook(), loop_bound=1)
        try:
            paths = it.paths(g, [SYM('root_stack'), SYM('root'), SYM('sequence_operator'), SYM('arg3'), SYM('arg4')][:g.arg_count])
        except Budget as e:
            ctx.unrecognised('S5.10', name.split('::')[-1], 'budget', str(e))
            continue
        bad = []
        for ret, eff in paths:
            n_paths += 1
            calls = [e for e in eff if not e[0].startswith('<')]
            for i, e in enumerate(calls):
                nm = e[0].split('::')[-1].split('#')[0]
                a = e[2]
                if nm in REMOVERS and a and isinstance(a[0], tuple) and a[0][0] == 'proj' and a[0][2][-1:] == ('children',):
                    res = e[4] if len(e) > 4 else None
                    placed = res is not None and any(c_[0].split('::')[-1].split('#')[0] in ('push', 'insert', 'extend') and any(isinstance(x_, tuple) and has_subterm(x_, res) for x_ in c_[2][1:]) for c_ in calls[i + 1:])
                    if not placed:
                        bad.append((nm, fmt(a[0])[:100], e[3]))
        for nm, recv, sp in bad[:3]:
            ctx.violation('S5.10', name.split('::')[-1], 'drops-element', 'an element is removed from a children vector (%s on %s) and not placed again on that path: collapsing drops an element of a sequence' % (nm, recv), span=sp)
        if not bad:
            ctx.ok('S5.10', name.split('::')[-1], 'no path removes an element from a children vector without placing it again', span=g.span)
    ctx.floor('S5.10', 'collapse_paths', n_paths, 4)


def s53(ctx, prog):
    f = prog.fn('operator::Operator::<NumericTypes>::eval')
    if f is None:
        ctx.unrecognised('S5.3', 'Operator::eval', 'missing', 'Operator::eval not found')
        return
    op = prog.adt(tables.OPERATOR)
    val = prog.adt(tables.VALUE)

    def paths_for(name, n):
        v = [x for x in op['variants'] if x['name'] == name][0]
        selfv = ADT(op['path'], v['idx'], v['name'], [])
        it = Interp(prog, max_depth=3)
        return it.paths(f, [selfv, ('tuple', tuple(SYM('a%d' % i) for i in range(n))), SYM('context')])
    cases = 0
    for n in range(0, 4):
        elems = tuple(SYM('a%d' % i) for i in range(n))
        # Tuple: all arguments, in order
        ps = paths_for('Tuple', n)
        cases += 1
        want = OK(ADT(val['path'], [x for x in val['variants'] if x['name'] == 'Tuple'][0]['idx'], 'Tuple', [('tuple', elems)]))
        ctx.check([p[0] for p in ps] == [want], 'S5.3', 'Tuple[%d]' % n, 'tuple-arm', 'Tuple evaluates to Value::Tuple(all %d arguments, in order): %s' % (n, [fmt(p[0]) for p in ps]), span=f.span)
        # Chain: the last argument; an empty argument list (never built by the parser) is an error or the empty value
        ps = paths_for('Chain', n)
        cases += 1
        rets = [p[0] for p in ps]
        if n == 0:
            good = len(ps) >= 1 and all(is_adt(r, 'result::Result', 'Err') or r == OK(ADT(val['path'], [x for x in val['variants'] if x['name'] == 'Empty'][0]['idx'], 'Empty', [])) for r in rets)
        else:
            good = rets == [OK(elems[-1])]
        ctx.check(good, 'S5.3', 'Chain[%d]' % n, 'chain-arm', 'Chain of %d arguments evaluates to its last argument: %s' % (n, [fmt(r) for r in rets]), span=f.span)
        # RootNode: its first argument, Empty when it has none
        if n <= 1:
            ps = paths_for('RootNode', n)
            cases += 1
            rets = [p[0] for p in ps]
            want = OK(elems[0]) if n else OK(ADT(val['path'], [x for x in val['variants'] if x['name'] == 'Empty'][0]['idx'], 'Empty', []))
            ctx.check(rets == [want], 'S5.3', 'RootNode[%d]' % n, 'root-arm', 'RootNode evaluates to its first argument, or Empty when it has none: %s' % [fmt(r) for r in rets], span=f.span)
    ctx.floor('S5.3', 'evaluation_arm_cases', cases, 10)


class _Renamed:
    """reports of a shared rule under this property's rule id"""
    def __init__(self, ctx, rule):
        self._ctx, self._rule = ctx, rule

    def __getattr__(self, n):
        return getattr(self._ctx, n)

    def check(self, cond, rule, *a, **k):
        return self._ctx.check(cond, self._rule, *a, **k)

    def unrecognised(self, rule, *a, **k):
        return self._ctx.unrecognised(self._rule, *a, **k)

    def floor(self, rule, *a, **k):
        return self._ctx.floor(self._rule, *a, **k)

    def violation(self, rule, *a, **k):
        return self._ctx.violation(self._rule, *a, **k)

    def ok(self, rule, *a, **k):
        return self._ctx.ok(self._rule, *a, **k)


class _OnlyInstances(_Renamed):
    """reports of a shared rule under this property's rule id, restricted to the named instances (the part of the shared rule that is
    about this property's clause)"""
    def __init__(self, ctx, rule, instances):
        _Renamed.__init__(self, ctx, rule)
        self._instances = set(instances)

    def check(self, cond, rule, inst, *a, **k):
        if inst in self._instances:
            return self._ctx.check(cond, self._rule, inst, *a, **k)

    def violation(self, rule, inst, *a, **k):
        if inst in self._instances:
            return self._ctx.violation(self._rule, inst, *a, **k)

    def ok(self, rule, inst, *a, **k):
        if inst in self._instances:
            return self._ctx.ok(self._rule, inst, *a, **k)

    def floor(self, *a, **k):
        pass


def s56(ctx, prog):
    from rules.c08 import evaluator
    r = _Renamed(ctx, 'S5.6')
    for name, opname in (('eval_with_context', 'eval'), ('eval_with_context_mut', 'eval_mut')):
        f = prog.fn('tree::Node::<NumericTypes>::' + name)
        if f is None:
            ctx.unrecognised('S5.6', 'Node::' + name, 'missing', 'evaluator not found')
            continue
        evaluator(r, prog, f, name, opname)
