"""C10 — builtin functions compute what the documentation says (clause level).

Every builtin name is resolved to its closure by abstractly interpreting builtin_function(name), and the closure is then
interpreted for a matrix of argument shapes/types with symbolic payloads:
R10.1 name chain: `math::X` / floor / round / ceil / bit operations reach exactly the same-named EvalexprFloat / EvalexprInt
      method, and the f64 / i64 implementations forward to the same-named std method (listed exceptions: pow -> powf,
      shl/shr -> wrapping_shl/wrapping_shr, bit operations -> core::ops methods);
R10.2 argument order: tuple[0] is the receiver, tuple[1] the argument, forwarded in order by the implementations;
R10.3 arity: the argument shapes the closure accepts include every documented "Argument Amount";
R10.4 result typing: float helpers build Float, int helpers Int, is_* Boolean; `typeof` returns the six documented strings;
      math::abs keeps the argument's type and reports overflow as an error;
R10.5 `len` and `str::substring` measure strings with the same unit (String::len) and slice with str::get;
R10.6 result provenance: min/max/if return one of their arguments - no constant or associated constant reaches an Ok result.
R10.7 `contains(t, x)` is slice membership of x in t; `contains_any(t, (y1, y2))` is true exactly on the paths where some membership
      test `t.contains(yi)` was true; a non-tuple first argument (or non-tuple second argument of contains_any) is ExpectedTuple;
      a tuple-typed or empty element to look for is a type error on every path, wherever it stands and whatever the other elements match.
R10.9 min / max of one integer and one float: the integer is returned exactly on paths whose decisive test, a comparison in the
      float domain between the integer converted to float and the float, implies that it is the smaller (larger) one, the float on the
      others; two integers / two floats go through the std minimum / maximum of that type or the corresponding comparison.
R10.8 str::to_lowercase / str::to_uppercase / str::trim apply exactly the same-named std string method to a String argument and
      reject every other type with ExpectedString; str::from yields a String for every type, the string itself for a String and
      the std to_string of the payload (or of the value) otherwise.
Not decided: any numeric result (libm), shift values outside 0..63, min/max with NaN."""
import re
import tables
from absint import Interp, SYM, C, ADT, OK, ERR, SOME, NONE, UNK, Fork, fmt, is_adt, Budget, P_OK, P_ERR, P_SOME
from mirlib import short, path_endswith
from rules.common import load_docs
from rules.treepaths import branches_of
from rules.c09 import builtin_names
import docs as docs_mod

EXPLANATION = ('builtin table by abstract interpretation: builtin_function(name) is interpreted for every documented/code name to obtain its closure, each closure is interpreted over a '
               'matrix of argument shapes and types with symbolic payloads, and the numeric trait implementations for f64/i64 are interpreted to follow the name chain to std; '
               'compared with the documentation table (arity) and with name-derived expectations. Numeric values are not decided')

FLOAT1 = ['ln', 'log2', 'log10', 'exp', 'exp2', 'cos', 'acos', 'cosh', 'acosh', 'sin', 'asin', 'sinh', 'asinh', 'tan', 'atan', 'tanh', 'atanh', 'sqrt', 'cbrt']
FLOAT2 = ['log', 'pow', 'atan2', 'hypot']
ROUND = ['floor', 'round', 'ceil']
IS = ['is_nan', 'is_finite', 'is_infinite', 'is_normal']
INT2 = {'bitand': 'bitand', 'bitor': 'bitor', 'bitxor': 'bitxor', 'shl': 'bit_shift_left', 'shr': 'bit_shift_right'}
INT1 = {'bitnot': 'bitnot'}
STD_NAME = {'pow': 'powf', 'bit_shift_left': 'wrapping_shl', 'bit_shift_right': 'wrapping_shr', 'bitnot': 'not'}
SHAPE_ERRORS = ('ExpectedTuple', 'ExpectedFixedLenTuple', 'ExpectedRangedLenTuple', 'WrongFunctionArgumentAmount')
FT = 'value::numeric_types::EvalexprFloat::'
IT = 'value::numeric_types::EvalexprInt::'


def run(ctx):
    prog = ctx.prog()
    ctx.trust('rustc nightly MIR of /repo; f64 / i64 / str std methods; documentation table as arity oracle')
    B = Builtins(ctx, prog)
    if not B.ok:
        return
    r101(ctx, prog, B)
    r103(ctx, prog, B, ())
    r104(ctx, prog, B)
    r105(ctx, prog, B)
    r106(ctx, prog, B)
    r107(ctx, prog, B)
    r108(ctx, prog, B)
    r109(ctx, prog, B)
    impl_chain(ctx, prog)
    r1010(ctx, prog)
    if ctx.tier == 'thorough':
        pf = ctx.prog(features=('rand', 'regex', 'serde'))
        BF = Builtins(ctx, pf, label='all-features:')
        if BF.ok:
            r103(ctx, pf, BF, ('rand', 'regex'), label='all-features:')


class Builtins:
    def __init__(self, ctx, prog, label=''):
        self.prog = prog
        self.ok = False
        f = prog.fn('function::builtin::builtin_function')
        if f is None:
            ctx.unrecognised('R10.1', label + 'builtin_function', 'missing', 'not found')
            return
        names = builtin_names(prog)
        self.closures = {}
        for n in sorted(names):
            ps = Interp(prog).paths(f, [C(n)])
            if len(ps) != 1 or not is_adt(ps[0][0], 'option::Option', 'Some'):
                ctx.violation('R10.1', label + 'name:' + n, 'lookup', 'builtin_function(%r) does not resolve to exactly one function (%s)' % (n, [fmt(p[0])[:80] for p in ps]), span=f.span)
                continue
            cl = find_closure(ps[0][0])
            if cl is None:
                ctx.unrecognised('R10.1', label + 'name:' + n, 'closure', 'no closure found in the value returned for %r' % n, span=f.span)
                continue
            self.closures[n] = cl
        ps = Interp(prog).paths(f, [C('no::such::builtin')])
        ctx.check(len(ps) == 1 and ps[0][0] == NONE, 'R10.1', label + 'unknown-name', 'unknown', 'an unknown name resolves to None', span=f.span)
        ctx.floor('R10.1', label + 'builtin_closures', len(self.closures), 49)
        val = prog.adt(tables.VALUE)
        self.val = val
        self.ok = True

    def V(self, name, sym):
        v = [x for x in self.val['variants'] if x['name'] == name][0]
        if name == 'Tuple':
            return ADT(self.val['path'], v['idx'], name, [sym])
        return ADT(self.val['path'], v['idx'], name, [SYM(sym)] if v['fields'] else [])

    def tuple(self, elems):
        return self.V('Tuple', ('tuple', tuple(elems)))

    def V2(self, name, payload):
        v = [x for x in self.val['variants'] if x['name'] == name][0]
        return ADT(self.val['path'], v['idx'], name, [payload])

    def call(self, name, arg, depth=5):
        cl = self.closures[name]
        fn = self.prog.by_path.get(cl[1])
        if fn is None:
            return None

        def hook(it, f, t, args):
            c = t['callee']
            if c['name'] == 'len' and not c.get('local') and args and args[0][0] == 'tuple':
                return C(len(args[0][1]))
            if c['name'] == 'int_as_float' and path_endswith(c.get('trait') or '', 'EvalexprNumericTypes'):
                return ('app', 'int_as_float', tuple(args))
            if c['name'] in ('index',) and not c.get('local') and len(args) == 2 and args[0][0] == 'tuple' and args[1][0] == 'c' and isinstance(args[1][1], int) and args[1][1] < len(args[0][1]):
                return args[0][1][args[1][1]]
            if c['name'] == 'get' and not c.get('local') and len(args) == 2 and args[0][0] == 'tuple' and args[1][0] == 'c' and isinstance(args[1][1], int):
                return SOME(args[0][1][args[1][1]]) if args[1][1] < len(args[0][1]) else NONE
            if c['name'] == 'contains' and 'RangeInclusive' in c['def'] and len(args) == 2 and is_adt(args[0], 'RangeInclusive') is False and args[1][0] == 'c':
                r = args[0]
                if r[0] == 'app' and 'RangeInclusive' in r[1] and all(x[0] == 'c' for x in r[2]):
                    return C(r[2][0][1] <= args[1][1] <= r[2][1][1])
            if c['name'] == 'swap_remove' and not c.get('local') and len(args) == 2 and args[0][0] == 'tuple' and args[1][0] == 'c':
                return args[0][1][args[1][1]] if args[1][1] < len(args[0][1]) else UNK
            return None
        env_args = [('closure-env', cl[2]), arg]
        it = Interp(self.prog, hook=hook, max_depth=depth, loop_bound=5, vec_model=True)
        # closure captures: field projections of the environment
        envv = ('tuple', tuple(cl[2]))
        try:
            return it.paths(fn, [envv, arg])
        except Budget:
            return None


def apps(v, out=None):
    """all application terms inside an abstract value: list of (name, args)"""
    if out is None:
        out = []
    if v[0] == 'app':
        out.append((v[1], v[2]))
        for x in v[2]:
            apps(x, out)
    elif v[0] == 'adt':
        for x in v[4]:
            apps(x, out)
    elif v[0] == 'tuple':
        for x in v[1]:
            apps(x, out)
    elif v[0] == 'proj':
        apps(v[1], out)
    return out


def find_closure(v):
    if v[0] == 'closure':
        return v
    if v[0] == 'adt':
        for x in v[4]:
            r = find_closure(x)
            if r:
                return r
    if v[0] in ('app',):
        for x in v[2]:
            r = find_closure(x)
            if r:
                return r
    if v[0] == 'tuple':
        for x in v[1]:
            r = find_closure(x)
            if r:
                return r
    return None


def F(ty, sym):
    return SYM(sym) if ty == 'Float' else ('app', 'int_as_float', (SYM(sym),))


def is_type_error(ret):
    return is_adt(ret, 'result::Result', 'Err') and is_adt(ret[4][0], 'error::EvalexprError') and (ret[4][0][3].startswith('Expected') or ret[4][0][3] in ('TypeError', 'WrongTypeCombination'))


def r101(ctx, prog, B):
    val = B.val
    fv = lambda x: ADT(val['path'], 1, 'Float', [x])
    iv = lambda x: ADT(val['path'], 2, 'Int', [x])
    bv = lambda x: ADT(val['path'], 3, 'Boolean', [x])
    n = 0
    for short_name in FLOAT1 + ROUND:
        name = short_name if short_name in ROUND else 'math::' + short_name
        if name not in B.closures:
            ctx.violation('R10.1', name, 'missing', 'documented builtin %s has no arm' % name)
            continue
        for ty in ('Int', 'Float'):
            ps = B.call(name, B.V(ty, 'x'))
            want = OK(fv(('app', FT + short_name, (F(ty, 'x'),))))
            n += 1
            ctx.check(ps is not None and [p[0] for p in ps] == [want], 'R10.1', '%s[%s]' % (name, ty), 'chain', '%s(x) is EvalexprFloat::%s of the argument converted to float, result Float (found %s)' % (name, short_name, [fmt(p[0])[:120] for p in (ps or [])]))
        for ty in ('String', 'Boolean', 'Tuple0', 'Empty'):
            arg = B.tuple([]) if ty == 'Tuple0' else B.V(ty, 'x')
            ps = B.call(name, arg)
            ctx.check(ps is not None and len(ps) >= 1 and all(is_type_error(p[0]) for p in ps), 'R10.4', '%s[%s]' % (name, ty), 'type-error', '%s rejects a non-numeric argument with a type error (found %s)' % (name, [fmt(p[0])[:80] for p in (ps or [])]))
    for short_name in FLOAT2:
        name = 'math::' + short_name
        if name not in B.closures:
            ctx.violation('R10.1', name, 'missing', 'documented builtin %s has no arm' % name)
            continue
        for ta in ('Int', 'Float'):
            for tb in ('Int', 'Float'):
                ps = B.call(name, B.tuple([B.V(ta, 'a'), B.V(tb, 'b')]))
                want = OK(fv(('app', FT + short_name, (F(ta, 'a'), F(tb, 'b')))))
                n += 1
                ctx.check(ps is not None and [p[0] for p in ps] == [want], 'R10.2', '%s[%s,%s]' % (name, ta, tb), 'order', '%s(a, b) is EvalexprFloat::%s(a, b) in that order (found %s)' % (name, short_name, [fmt(p[0])[:120] for p in (ps or [])]))
    for short_name in IS:
        name = 'math::' + short_name
        if name not in B.closures:
            ctx.violation('R10.1', name, 'missing', 'documented builtin %s has no arm' % name)
            continue
        cl = B.closures[name]
        cap = cl[2]
        good_cap = len(cap) == 1 and cap[0][0] == 'fn' and cap[0][1].endswith('EvalexprFloat::' + short_name)
        ctx.check(good_cap, 'R10.1', name + ':predicate', 'chain', '%s tests with EvalexprFloat::%s (captured %s)' % (name, short_name, [fmt(c) for c in cap]))
        for ty in ('Int', 'Float'):
            ps = B.call(name, B.V(ty, 'x'))
            good = ps is not None and len(ps) == 1 and is_adt(ps[0][0], 'result::Result', 'Ok') and is_adt(ps[0][0][4][0], 'value::Value', 'Boolean')
            if good:
                inner = ps[0][0][4][0][4][0]
                # the captured predicate is applied to the converted argument: seen directly (the fn pointer's value is known on the path) or as an indirect call
                good = inner[0] == 'app' and ((inner[1] == '<indirect>' and inner[2][-1] == F(ty, 'x')) or (inner[1] == FT + short_name and inner[2] == (F(ty, 'x'),)))
            n += 1
            ctx.check(good, 'R10.4', '%s[%s]' % (name, ty), 'boolean', '%s applies the predicate to the argument converted to float and yields a Boolean (found %s)' % (name, [fmt(p[0])[:120] for p in (ps or [])]))
    for name, meth in list(INT2.items()):
        if name not in B.closures:
            ctx.violation('R10.1', name, 'missing', 'documented builtin %s has no arm' % name)
            continue
        ps = B.call(name, B.tuple([B.V('Int', 'a'), B.V('Int', 'b')]))
        want = OK(iv(('app', IT + meth, (SYM('a'), SYM('b')))))
        n += 1
        ctx.check(ps is not None and [p[0] for p in ps] == [want], 'R10.2', name + '[Int,Int]', 'order', '%s(a, b) is EvalexprInt::%s(a, b) in that order, result Int (found %s)' % (name, meth, [fmt(p[0])[:120] for p in (ps or [])]))
        for ta, tb in (('Float', 'Int'), ('Int', 'Float'), ('String', 'Int')):
            ps = B.call(name, B.tuple([B.V(ta, 'a'), B.V(tb, 'b')]))
            ctx.check(ps is not None and len(ps) >= 1 and all(is_type_error(p[0]) for p in ps), 'R10.4', '%s[%s,%s]' % (name, ta, tb), 'type-error', '%s accepts only integers' % name)
    for name, meth in INT1.items():
        if name in B.closures:
            ps = B.call(name, B.V('Int', 'a'))
            want = OK(iv(('app', IT + meth, (SYM('a'),))))
            n += 1
            ctx.check(ps is not None and [p[0] for p in ps] == [want], 'R10.1', name + '[Int]', 'chain', '%s(a) is EvalexprInt::%s(a) (found %s)' % (name, meth, [fmt(p[0])[:120] for p in (ps or [])]))
    ctx.counters['name_chain_cases'] = n
    ctx.floor('R10.1', 'name_chain_cases', n, 70)


def impl_chain(ctx, prog):
    """impl EvalexprFloat for f64 / impl EvalexprInt for i64 forward to the same-named std method with parameters in order"""
    n = 0
    for tr, ty, names in (('EvalexprFloat', 'f64', FLOAT1 + FLOAT2 + ROUND + IS + ['abs', 'min', 'max']), ('EvalexprInt', 'i64', list(INT2.values()) + list(INT1.values()))):
        for m in names:
            fs = [f for f in prog.fns if f.name == m and path_endswith(f.j.get('impl_trait') or '', tr) and f.j.get('impl_self_ty') == ty]
            if len(fs) != 1:
                ctx.unrecognised('R10.1', '<%s as %s>::%s' % (ty, tr, m), 'missing', 'implementation not found')
                continue
            g = fs[0]
            nargs = g.arg_count
            args = [SYM('self')] + [SYM('p%d' % i) for i in range(1, nargs)]
            ps = Interp(prog).paths(g, args)
            std = STD_NAME.get(m, m)
            good = len(ps) == 1 and ps[0][0][0] == 'app'
            got = fmt(ps[0][0]) if ps else None
            if good:
                r = ps[0][0]
                last = r[1].split('::')[-1]
                fa = list(r[2])
                # shifts convert the amount with `as u32`; casts are transparent in the abstract domain
                good = last == std and fa == args and (ty in r[1] or 'ops::' in r[1] or 'intrinsics' in r[1])
                if not good and ty == 'i64':
                    # the operator forms of the same functions: `a & b`, `a | b`, `a ^ b`, `!a`, and a shift by the amount masked to the
                    # low six bits - which is what wrapping_shl / wrapping_shr compute (mask = BITS - 1 exactly)
                    OPS = {'bitand': 'binop:BitAnd', 'bitor': 'binop:BitOr', 'bitxor': 'binop:BitXor', 'bitnot': 'unop:Not', 'bit_shift_left': 'binop:Shl', 'bit_shift_right': 'binop:Shr'}
                    if m in ('bitand', 'bitor', 'bitxor', 'bitnot'):
                        good = r[1] == OPS[m] and fa == args
                    elif m in ('bit_shift_left', 'bit_shift_right') and r[1] == OPS[m] and len(fa) == 2 and fa[0] == args[0]:
                        amt = fa[1]
                        good = amt[0] == 'app' and amt[1] == 'binop:BitAnd' and len(amt[2]) == 2 and ((amt[2][0] == args[1] and amt[2][1] == C(63)) or (amt[2][1] == args[1] and amt[2][0] == C(63)))
            n += 1
            ctx.check(good, 'R10.1', '<%s as %s>::%s' % (ty, tr, m), 'impl-chain', '%s::%s forwards to %s::%s with its parameters in order (found %s)' % (tr, m, ty, std, got), span=g.span)
    ctx.floor('R10.1', 'impl_chain_methods', n, 38)


def candidate_worlds(B, n):
    """argument values of a given shape: n = None scalar kinds; n >= 0 tuples of that length"""
    V = B.V
    if n is None:
        return [('Int', V('Int', 'x')), ('Float', V('Float', 'x')), ('String', V('String', 'x')), ('Boolean', V('Boolean', 'x')), ('Empty', V('Empty', 'x'))]
    out = []
    for ty in ('Int', 'Float', 'String', 'Boolean'):
        out.append((ty + '*%d' % n, B.tuple([V(ty, 'e%d' % i) for i in range(n)])))
    if n == 2:
        out.append(('Tuple,Int', B.tuple([B.tuple([V('Int', 'i')]), V('Int', 'j')])))
        out.append(('Tuple,Tuple', B.tuple([B.tuple([V('Int', 'i')]), B.tuple([V('Int', 'j')])])))
        out.append(('String,Int', B.tuple([V('String', 's'), V('Int', 'j')])))
    if n == 3:
        out.append(('Boolean,Int,Int', B.tuple([V('Boolean', 'c'), V('Int', 'i'), V('Int', 'j')])))
        out.append(('String,Int,Int', B.tuple([V('String', 's'), V('Int', 'i'), V('Int', 'j')])))
        out.append(('String,String,String', B.tuple([V('String', 's'), V('String', 't'), V('String', 'u')])))
    return out


def accepts(B, name, n):
    """does the closure accept some argument of this shape (an Ok path, or an error that is not about the shape)?"""
    for label, w in candidate_worlds(B, n):
        ps = B.call(name, w)
        if ps is None:
            return None
        for ret, eff in ps:
            if is_adt(ret, 'result::Result', 'Ok') or (ret[0] == 'app'):
                return True
            if is_adt(ret, 'result::Result', 'Err') and is_adt(ret[4][0], 'error::EvalexprError') and ret[4][0][3] not in SHAPE_ERRORS and not ret[4][0][3].startswith('Expected') and ret[4][0][3] != 'TypeError':
                return True
    return False


def r103(ctx, prog, B, features, label=''):
    lib, _ = load_docs(ctx)
    doc = lib.builtin_table()
    if not doc:
        ctx.unrecognised('R10.3', label + 'docs', 'missing', 'builtin table not found in the documentation')
        return
    n = 0
    for name in sorted(B.closures):
        if name not in doc:
            continue
        ar = docs_mod.arity_set(doc[name][0])
        if ar is None:
            ctx.unrecognised('R10.3', label + name, 'doc-arity', 'cannot parse documented argument amount %r' % doc[name][0])
            continue
        lo, hi = ar
        shapes = []
        if lo == 0 and hi == 0:
            shapes = [('Empty', 'empty')]
        else:
            amounts = list(range(lo, (hi if hi is not None else lo + 2) + 1))
            if 'omitted' in doc[name][2] and hi is not None:
                amounts = [hi - 1] + amounts  # "If the last argument is omitted ..."
            for k in amounts:
                shapes.append((k, 'amount %d' % k))
        for k, desc in shapes:
            n += 1
            if k == 'Empty':
                ps = B.call(name, B.V('Empty', 'x'))
                acc = ps is not None and any(not is_type_error(p[0]) for p in ps)
            elif k == 0:
                acc = accepts(B, name, None) or accepts(B, name, 0)
            elif k == 1:
                acc = accepts(B, name, None)
            else:
                acc = accepts(B, name, k)
            if acc is None:
                ctx.unrecognised('R10.3', label + '%s:%s' % (name, desc), 'budget', 'closure too complex')
                continue
            ctx.check(bool(acc), 'R10.3', label + '%s:%s' % (name, desc), 'arity-rejected', 'documented argument amount `%s` for %s: a call with %s is accepted by the code (a single value is passed as-is, several as a tuple)' % (doc[name][0], name, desc))
    # the converse ("a wrong number of arguments yields an error, never a made-up value"): a builtin documented with a fixed maximum of two
    # or more arguments rejects a call with one or two more, for every type of the arguments (added after seed `c10l`, whose
    # `let [a, b, ..] = tuple.as_slice()` turned "exactly 2" into "at least 2")
    m = 0
    for name in sorted(B.closures):
        if name not in doc:
            continue
        ar = docs_mod.arity_set(doc[name][0])
        if ar is None or ar[1] is None or ar[1] < 2:
            continue
        hi = ar[1]
        for k in (hi + 1, hi + 2):
            acc = accepts(B, name, k)
            m += 1
            if acc is None:
                ctx.unrecognised('R10.3', label + '%s:surplus %d' % (name, k), 'budget', 'closure too complex')
                continue
            ctx.check(not acc, 'R10.3', label + '%s:surplus %d' % (name, k), 'surplus-accepted', '%s is documented with at most %d arguments: a call with %d is rejected whatever the arguments are' % (name, hi, k))
    ctx.counters[label + 'arity_rows'] = n
    ctx.counters[label + 'surplus_rows'] = m
    ctx.floor('R10.3', label + 'arity_rows', n, 49)
    ctx.floor('R10.3', label + 'surplus_rows', m, 20)


def r104(ctx, prog, B):
    # typeof table
    want = {'String': 'string', 'Float': 'float', 'Int': 'int', 'Boolean': 'boolean', 'Tuple': 'tuple', 'Empty': 'empty'}
    if 'typeof' in B.closures:
        for ty, s in want.items():
            arg = B.tuple([]) if ty == 'Tuple' else B.V(ty, 'x')
            ps = B.call('typeof', arg)
            good = ps is not None and len(ps) == 1 and ps[0][0] == OK(ADT(B.val['path'], 0, 'String', [C(s)]))
            ctx.check(good, 'R10.4', 'typeof[%s]' % ty, 'typeof', 'typeof(%s value) = "%s" (found %s)' % (ty, s, [fmt(p[0]) for p in (ps or [])]))
    else:
        ctx.violation('R10.4', 'typeof', 'missing', 'typeof has no arm')
    # math::abs keeps the type, integer overflow is an error
    if 'math::abs' in B.closures:
        ps = B.call('math::abs', B.V('Float', 'x'))
        want_f = OK(ADT(B.val['path'], 1, 'Float', [('app', FT + 'abs', (SYM('x'),))]))
        ctx.check(ps is not None and [p[0] for p in ps] == [want_f], 'R10.4', 'math::abs[Float]', 'abs-float', 'math::abs of a float is a Float (found %s)' % [fmt(p[0])[:100] for p in (ps or [])])
        ps = B.call('math::abs', B.V('Int', 'x'))
        rets = sorted(fmt(p[0]) for p in (ps or []))
        core = ('app', IT + 'abs', (SYM('x'),))
        good = ps is not None and len(ps) == 2 and OK(ADT(B.val['path'], 2, 'Int', [P_OK(core)])) in [p[0] for p in ps] and ERR(P_ERR(core)) in [p[0] for p in ps]
        ctx.check(good, 'R10.4', 'math::abs[Int]', 'abs-int', 'math::abs of an integer is an Int, and the error of EvalexprInt::abs (overflow) is returned (found %s)' % rets)
        a = [f for f in prog.fns if f.name == 'abs' and path_endswith(f.j.get('impl_trait') or '', 'EvalexprInt') and f.j.get('impl_self_ty') == 'i64']
        if len(a) == 1:
            ps = Interp(prog).paths(a[0], [SYM('self')])
            # accepted idioms: (a) negative -> checked_neg (error on MIN), non-negative -> Ok(self); (b) i64::checked_abs mapped to the
            # negation error on None. Never the panicking / wrapping / saturating forms.
            calls = {e[0] for p in ps for e in p[1] if not e[0].startswith('<')} | {n for p in ps for n, _ in apps(p[0])}
            bad = sorted(c for c in calls if re.search(r'(^|::|>::)(abs|wrapping_abs|saturating_abs|overflowing_abs|unsigned_abs|wrapping_neg|saturating_neg|overflowing_neg|neg)$', c) and 'EvalexprInt' not in c)
            via_neg = any('checked_neg' in c for c in calls) and any(p[0] == OK(SYM('self')) for p in ps)
            via_abs = any(c.endswith('i64>::checked_abs') for c in calls)
            okk = (via_neg or via_abs) and not bad
            ctx.check(okk, 'R10.4', '<i64 as EvalexprInt>::abs', 'abs-checked', 'integer abs goes through checked_neg (negative) / Ok(self), or through i64::checked_abs, so overflow is an error; never the panicking, wrapping or saturating forms (calls %s)' % sorted(calls), span=a[0].span)
    # if: returns the selected argument
    if 'if' in B.closures:
        ps = B.call('if', B.tuple([B.V('Boolean', 'c'), B.V('Int', 'then'), B.V('String', 'else')]))
        good = ps is not None and len(ps) == 2
        if good:
            for ret, eff in ps:
                br = [(v, t) for v, t in branches_of(eff) if v == SYM('c')]
                taken_true = bool(br) and br[0][1] != C(0)
                good = good and ret == OK(B.V('Int', 'then') if taken_true else B.V('String', 'else'))
        ctx.check(good, 'R10.6', 'if[Boolean,_,_]', 'if', 'if(c, a, b) returns a when c is true and b otherwise, unchanged (found %s)' % [fmt(p[0]) for p in (ps or [])])


def r105(ctx, prog, B):
    if 'len' in B.closures:
        ps = B.call('len', B.V('String', 's'))
        strs = [fmt(p[0]) for p in (ps or [])]
        oks = [p for p in (ps or []) if is_adt(p[0], 'result::Result', 'Ok')]
        good = len(oks) == 1 and is_adt(oks[0][0][4][0], 'value::Value', 'Int')
        if good:
            a = apps(oks[0][0])
            names = [n for n, _ in a]
            # String::len and str::len are the same number (bytes); refs and derefs are transparent in the domain
            good = names[:1] == [IT + 'from_usize'] and any((nm_, (SYM('s'),)) in a for nm_ in ('std::string::String::len', 'core::str::<impl str>::len')) and not any('chars' in n or 'count' in n for n in names)
        ctx.check(good, 'R10.5', 'len[String]', 'unit', 'len of a string is String::len (bytes) converted with from_usize (found %s)' % strs)
        ps = B.call('len', B.V('Tuple', SYM('t')))
        strs = [fmt(p[0]) for p in (ps or [])]
        oks = [p for p in (ps or []) if is_adt(p[0], 'result::Result', 'Ok')]
        good = len(oks) == 1 and any((n.endswith('Vec::<T, A>::len') or n.endswith('slice::<impl [T]>::len')) and a == (SYM('t'),) for n, a in apps(oks[0][0]))
        ctx.check(good, 'R10.5', 'len[Tuple]', 'tuple-len', 'len of a tuple is its element count (found %s)' % strs)
    if 'str::substring' in B.closures:
        ps = B.call('str::substring', B.tuple([B.V('String', 's'), B.V('Int', 'from')]), depth=3)
        if ps is None:
            ctx.unrecognised('R10.5', 'str::substring', 'budget', 'too complex')
            return
        calls = [(e[0], e[2]) for p in ps for e in p[1] if not e[0].startswith('<')]
        lens = {c for c, a in calls if c.endswith('::len') and ('String' in c or 'str' in c)}
        slicers = {c.split('::')[-1] for c, a in calls if 'str' in c and c.split('::')[-1] in ('get', 'index', 'get_unchecked', 'chars', 'char_indices')}
        ctx.check(bool(lens) and lens <= {'std::string::String::len', 'core::str::<impl str>::len'} and slicers == {'get'}, 'R10.5', 'str::substring:unit', 'unit', 'str::substring measures with String::len (the unit of `len`) and slices with the non-panicking str::get (len calls %s, slicing %s)' % (sorted(lens), sorted(slicers)))
        oob = [p for p in ps if is_adt(p[0], 'result::Result', 'Err') and is_adt(p[0][4][0], 'error::EvalexprError', 'OutOfBoundsAccess')]
        ctx.check(len(oob) >= 2, 'R10.5', 'str::substring:bounds', 'bounds', 'out-of-range or non-boundary indices are OutOfBoundsAccess (%d error paths)' % len(oob))
        # the slice is the result of str::get, and nothing else: every Ok path returns the payload of `get(..) = Some(..)` (the fork on
        # its discriminant is on the path) and the None side - an index inside a multi-byte character - is OutOfBoundsAccess, never a
        # value made up in its place (`unwrap_or_default()`, `unwrap_or("")`)
        from absint import subst, has_subterm
        for label, args in (('2', [B.V('String', 's'), B.V('Int', 'from')]), ('3', [B.V('String', 's'), B.V('Int', 'from'), B.V('Int', 'to')])):
            ps3 = B.call('str::substring', B.tuple(args), depth=3)
            if ps3 is None:
                ctx.unrecognised('R10.5', 'str::substring/%s' % label, 'budget', 'too complex')
                continue
            bad = []
            n_some = n_none = 0
            for ret, eff in ps3:
                gets = [('app', n_, a_) for n_, a_ in apps(ret) if n_.endswith('str>::get')]
                gets += [e[2][0][2][0] for e in eff if e[0] == '<branch>' and e[2][0][0] == 'app' and e[2][0][1] == 'discriminant' and e[2][0][2][0][0] == 'app' and e[2][0][2][0][1].endswith('str>::get')]
                disc = {fmt(e[2][1]) for e in eff if e[0] == '<branch>' and e[2][0][0] == 'app' and e[2][0][1] == 'discriminant' and e[2][0][2][0] in gets}
                if is_adt(ret, 'result::Result', 'Ok'):
                    g_ok = False
                    for g in gets:
                        payload = ('proj', g, ('as Some', '0'))
                        if has_subterm(ret, payload) and not has_subterm(subst(ret, payload, SYM('slice')), g) and disc == {'1'}:
                            g_ok = True
                    if g_ok:
                        n_some += 1
                    else:
                        bad.append(fmt(ret)[:160])
                elif disc == {'0'}:
                    if is_adt(ret, 'result::Result', 'Err') and is_adt(ret[4][0], 'error::EvalexprError', 'OutOfBoundsAccess'):
                        n_none += 1
                    else:
                        bad.append('get = None -> ' + fmt(ret)[:120])
            ctx.check(not bad and n_some >= 1 and n_none >= 1, 'R10.5', 'str::substring/%s:slice' % label, 'made-up-slice', 'every Ok result is the slice str::get returned and its None side (an index that is not a character boundary) is OutOfBoundsAccess (Some paths %d, None paths %d, other: %s)' % (n_some, n_none, bad[:2]))


def r1010(ctx, prog):
    """R10.10 `str::from` of anything but a string is the value's Display, so "behaves as specified" rests on `Display for Value`: the
    payload of a string, number or boolean value is written exactly once, through its own Display (`{}` in a template,
    `Display::fmt(payload, f)`) or - for a string - handed as it is to `Formatter::write_str`; never through Debug (which would
    escape quotes, backslashes and control characters) or any other formatting trait, and no other call receives the payload."""
    from absint import has_subterm
    try:
        f = tables.display_fn(prog, tables.VALUE)
    except tables.TableError as e:
        ctx.unrecognised('R10.10', 'Display for Value', 'missing', str(e))
        return
    a = prog.adt(tables.VALUE)
    seen = 0
    for v in a['variants']:
        nm = v['name']
        if nm not in ('String', 'Float', 'Int', 'Boolean'):
            continue
        seen += 1
        payload = SYM('payload')
        try:
            ps = Interp(prog).paths(f, [ADT(a['path'], v['idx'], nm, [payload]), SYM('f')])
        except Budget:
            ctx.unrecognised('R10.10', 'Display:Value::' + nm, 'budget', 'too complex', span=f.span)
            continue
        bad = []
        n_ok = 0
        for ret, eff in ps:
            writes = 0
            for e in eff:
                if e[0].startswith('<') or not any(isinstance(x_, tuple) and has_subterm(x_, payload) for x_ in e[2]):
                    continue
                d = e[0]
                last = d.split('::')[-1]
                if 'new_display' in d or ('fmt::Display' in d and last == 'fmt'):
                    writes += 1
                elif nm == 'String' and last in ('write_str', 'pad') and 'Formatter' in d:
                    writes += 1
                elif last in ('deref', 'as_str', 'as_ref', 'borrow', 'new', 'write_fmt', 'new_v1', 'new_const', 'branch', 'from_residual', 'from_output') or 'Arguments' in d:
                    continue   # plumbing: a reference to the payload, the Arguments object the template builds, its hand-over to write_fmt
                else:
                    bad.append(d[:80])
            if ret != ('diverge',):
                if writes == 1:
                    n_ok += 1
                elif not (writes == 0 and is_adt(ret, 'result::Result', 'Err')):   # the formatter failed before the payload's turn
                    bad.append('%d writes of the payload on a path' % writes)
        ctx.check(not bad and n_ok >= 1, 'R10.10', 'Display:Value::' + nm, 'not-display', 'a %s value is written exactly once, through the Display of its payload%s, and the payload goes nowhere else (deviations: %s)' % (nm, ' or Formatter::write_str' if nm == 'String' else '', sorted(set(bad))[:3]), span=f.span)
    ctx.floor('R10.10', 'payload_values', seen, 4)


def r106(ctx, prog, B):
    """min/max return one of their arguments: no associated constant (sentinel) may flow into an Ok result"""
    for name in ('min', 'max'):
        if name not in B.closures:
            ctx.violation('R10.6', name, 'missing', '%s has no arm' % name)
            continue
        worst = None
        for label, w in [('Float*2', B.tuple([B.V('Float', 'a'), B.V('Float', 'b')])), ('Int*2', B.tuple([B.V('Int', 'a'), B.V('Int', 'b')])), ('Int,Float', B.tuple([B.V('Int', 'a'), B.V('Float', 'b')])), ('Float*1', B.tuple([B.V('Float', 'a')])), ('Int*1', B.tuple([B.V('Int', 'a')]))]:
            # the tuple is handed to the closure as an opaque vector whose iteration yields the listed elements
            ps = B.call(name, w, depth=3)
            if ps is None:
                ctx.unrecognised('R10.6', '%s[%s]' % (name, label), 'budget', 'too complex')
                continue
            bad = [p for p in ps if is_adt(p[0], 'result::Result', 'Ok') and has_assoc(p[0])]
            ctx.check(not bad, 'R10.6', '%s[%s]' % (name, label), 'sentinel', '%s returns one of its arguments: no sentinel constant reaches the result (offending results: %s)' % (name, sorted({fmt(p[0])[:90] for p in bad})))


def has_assoc(v):
    if v[0] == 'assoc':
        return True
    if v[0] == 'adt':
        return any(has_assoc(x) for x in v[4])
    if v[0] == 'tuple':
        return any(has_assoc(x) for x in v[1])
    if v[0] == 'app':
        return False  # an application term (e.g. min(assoc, x)) is a computed value, decided by the float/int min
    return False


PRIMS = ('String', 'Int', 'Float', 'Boolean')
B_TYPES = PRIMS + ('Tuple', 'Empty')
SLICE_CONTAINS = 'slice::<impl [T]>::contains'


def is_err(ret, variant):
    return is_adt(ret, 'result::Result', 'Err') and is_adt(ret[4][0], 'error::EvalexprError', variant)


def r107(ctx, prog, B):
    n = 0
    if 'contains' in B.closures:
        for ty in B_TYPES:
            x = B.tuple([]) if ty == 'Tuple' else B.V(ty, 'x')
            ps = B.call('contains', B.tuple([B.V('Tuple', SYM('t')), x]))
            got = [fmt(p[0])[:110] for p in (ps or [])]
            n += 1
            if ty in PRIMS:
                good = ps is not None and len(ps) == 1 and is_adt(ps[0][0], 'result::Result', 'Ok') and is_adt(ps[0][0][4][0], 'value::Value', 'Boolean')
                if good:
                    m = ps[0][0][4][0][4][0]
                    good = m[0] == 'app' and m[1].endswith(SLICE_CONTAINS) and m[2] == (SYM('t'), x)
                ctx.check(good, 'R10.7', 'contains[Tuple,%s]' % ty, 'membership', 'contains(t, x) is the slice membership test of x in t (found %s)' % got)
            else:
                ctx.check(ps is not None and len(ps) >= 1 and all(is_err(p[0], 'TypeError') for p in ps), 'R10.7', 'contains[Tuple,%s]' % ty, 'type-error', 'a tuple or empty value to look for is a type error (found %s)' % got)
            if ty != 'Tuple':
                ps = B.call('contains', B.tuple([B.V(ty, 'a'), B.V('Int', 'x')]))
                n += 1
                ctx.check(ps is not None and len(ps) >= 1 and all(is_err(p[0], 'ExpectedTuple') and p[0][4][0][4] == (B.V(ty, 'a'),) for p in ps), 'R10.7', 'contains[%s,Int]' % ty, 'expected-tuple', 'a non-tuple first argument is ExpectedTuple carrying it (found %s)' % [fmt(p[0])[:110] for p in (ps or [])])
    else:
        ctx.violation('R10.7', 'contains', 'missing', 'contains has no arm')
    if 'contains_any' in B.closures:
        for ta, tb in (('Int', 'String'), ('Float', 'Boolean'), ('String', 'String')):
            ya, yb = B.V(ta, 'y1'), B.V(tb, 'y2')
            ps = B.call('contains_any', B.tuple([B.V('Tuple', SYM('t')), B.tuple([ya, yb])]))
            n += 1
            # the two membership tests are boolean atoms; for each of their four joint values exactly one path is consistent with it and
            # returns a boolean expression of the atoms (a constant on a branching path, `c1 | c2` on a straight-line one) whose value is
            # c1 or c2
            atoms = {(SYM('t'), ya): 0, (SYM('t'), yb): 1}

            class _Unk(Exception):
                pass

            def evalb(term, asg):
                if term[0] == 'c' and isinstance(term[1], (bool, int)):
                    return bool(term[1])
                if term[0] == 'app' and term[1].endswith(SLICE_CONTAINS) and tuple(term[2]) in atoms:
                    return asg[atoms[tuple(term[2])]]
                if term[0] == 'app' and term[1].startswith('binop:') and len(term[2]) == 2:
                    x, y = evalb(term[2][0], asg), evalb(term[2][1], asg)
                    op_ = term[1].split(':')[1]
                    if op_ in ('BitOr', 'BitAnd', 'BitXor', 'Eq', 'Ne'):
                        return {'BitOr': x or y, 'BitAnd': x and y, 'BitXor': x != y, 'Eq': x == y, 'Ne': x != y}[op_]
                if term[0] == 'app' and term[1].startswith('unop:Not') and len(term[2]) == 1:
                    return not evalb(term[2][0], asg)
                raise _Unk(fmt(term)[:80])
            good = ps is not None and len(ps) >= 1
            seen = set()
            for c1 in (False, True):
                for c2 in (False, True):
                    asg = (c1, c2)
                    cons = []
                    for ret, eff in (ps or []):
                        okp = True
                        for v, tk in branches_of(eff):
                            if v[0] == 'app' and v[1].endswith(SLICE_CONTAINS):
                                if tuple(v[2]) not in atoms:
                                    good = False
                                elif (tk != C(0)) != asg[atoms[tuple(v[2])]]:
                                    okp = False
                        if okp:
                            cons.append(ret)
                    if len(cons) != 1 or not is_adt(cons[0], 'result::Result', 'Ok'):
                        good = False
                        continue
                    val = cons[0][4][0]
                    try:
                        got_b = evalb(val[4][0], asg) if (val[0] == 'adt' and val[3] == 'Boolean' and val[4]) else None
                    except _Unk:
                        got_b = None
                    good = good and got_b is not None and got_b == (c1 or c2)
                    seen.add(c1 or c2)
            ctx.check(good and seen == {True, False}, 'R10.7', 'contains_any[Tuple,(%s,%s)]' % (ta, tb), 'any', 'contains_any(t, (y1, y2)) is true exactly when some t.contains(yi) is true, testing the elements in order (found %s)' % sorted({fmt(p[0])[:80] for p in (ps or [])}))
        for bad_ty in ('Tuple', 'Empty'):
            for pos in (0, 1):
                for other in PRIMS:
                    elems = [B.V(other, 'y'), B.V(other, 'y')]
                    elems[pos] = B.tuple([]) if bad_ty == 'Tuple' else B.V('Empty', 'e')
                    ps = B.call('contains_any', B.tuple([B.V('Tuple', SYM('t')), B.tuple(elems)]))
                    n += 1
                    inst = 'contains_any[Tuple,(%s)]' % ','.join(bad_ty if i == pos else other for i in (0, 1))
                    ctx.check(ps is not None and len(ps) >= 1 and all(is_err(p[0], 'TypeError') for p in ps), 'R10.7', inst, 'type-error',
                              'a tuple or empty element to look for is a type error on every path, wherever it stands and whatever the other elements match (found %s)' % sorted({fmt(p[0])[:80] for p in (ps or [])}))
        for ty in B_TYPES:
            if ty == 'Tuple':
                continue
            ps = B.call('contains_any', B.tuple([B.V(ty, 'a'), B.tuple([B.V('Int', 'y')])]))
            ps2 = B.call('contains_any', B.tuple([B.V('Tuple', SYM('t')), B.V(ty, 'b')]))
            n += 2
            ctx.check(ps is not None and len(ps) >= 1 and all(is_err(p[0], 'ExpectedTuple') and p[0][4][0][4] == (B.V(ty, 'a'),) for p in ps), 'R10.7', 'contains_any[%s,Tuple]' % ty, 'expected-tuple', 'a non-tuple first argument is ExpectedTuple carrying it (found %s)' % [fmt(p[0])[:110] for p in (ps or [])])
            ctx.check(ps2 is not None and len(ps2) >= 1 and all(is_err(p[0], 'ExpectedTuple') and p[0][4][0][4] == (B.V(ty, 'b'),) for p in ps2), 'R10.7', 'contains_any[Tuple,%s]' % ty, 'expected-tuple', 'a non-tuple second argument is ExpectedTuple carrying it (found %s)' % [fmt(p[0])[:110] for p in (ps2 or [])])
    else:
        ctx.violation('R10.7', 'contains_any', 'missing', 'contains_any has no arm')
    ctx.floor('R10.7', 'membership_cases', n, 40)


def r108(ctx, prog, B):
    n = 0

    def unwrap_conv(x):
        while x[0] == 'app' and len(x[2]) == 1 and x[1].split('::')[-1].split('<')[0] in ('to_string', 'to_owned', 'into', 'from', 'clone'):
            x = x[2][0]
        return x
    for name, meth in (('str::to_lowercase', 'to_lowercase'), ('str::to_uppercase', 'to_uppercase'), ('str::trim', 'trim')):
        if name not in B.closures:
            ctx.violation('R10.8', name, 'missing', '%s has no arm' % name)
            continue
        for ty in B_TYPES:
            arg = B.tuple([]) if ty == 'Tuple' else B.V(ty, 's')
            ps = B.call(name, arg)
            got = [fmt(p[0])[:110] for p in (ps or [])]
            n += 1
            if ty == 'String':
                good = ps is not None and len(ps) == 1 and is_adt(ps[0][0], 'result::Result', 'Ok') and is_adt(ps[0][0][4][0], 'value::Value', 'String')
                if good:
                    core = unwrap_conv(ps[0][0][4][0][4][0])
                    good = core[0] == 'app' and core[1].endswith('str>::' + meth) and core[2] == (SYM('s'),)
                ctx.check(good, 'R10.8', '%s[String]' % name, 'method', '%s(s) is str::%s(s) as a String (found %s)' % (name, meth, got))
            else:
                ctx.check(ps is not None and len(ps) >= 1 and all(is_err(p[0], 'ExpectedString') and p[0][4][0][4] == (arg,) for p in ps), 'R10.8', '%s[%s]' % (name, ty), 'type-error', '%s rejects a non-string with ExpectedString carrying it (found %s)' % (name, got))
    if 'str::from' in B.closures:
        for ty in B_TYPES:
            arg = B.tuple([B.V('Int', 'e')]) if ty == 'Tuple' else B.V(ty, 's')
            ps = B.call('str::from', arg)
            got = [fmt(p[0])[:110] for p in (ps or [])]
            n += 1
            good = ps is not None and len(ps) == 1 and is_adt(ps[0][0], 'result::Result', 'Ok') and is_adt(ps[0][0][4][0], 'value::Value', 'String')
            if good:
                sv = ps[0][0][4][0][4][0]
                if ty == 'String':
                    good = unwrap_conv(sv) == SYM('s')
                elif ty in ('Int', 'Float', 'Boolean'):
                    good = sv[0] == 'app' and sv[1].split('::')[-1].split('<')[0] == 'to_string' and sv[2] in ((SYM('s'),), (arg,))
                elif ty == 'Tuple':
                    good = sv[0] == 'app' and sv[1].split('::')[-1].split('<')[0] == 'to_string' and sv[2] == (arg,)
                else:
                    good = (sv[0] == 'c' and sv[1] == '()') or (sv[0] == 'app' and sv[2] in ((arg,), (C('()'),)))
            ctx.check(good, 'R10.8', 'str::from[%s]' % ty, 'to-string', 'str::from yields the string itself for a String, the std to_string of the payload / value otherwise, "()" for the empty value (found %s)' % got)
    else:
        ctx.violation('R10.8', 'str::from', 'missing', 'str::from has no arm')
    ctx.floor('R10.8', 'string_function_cases', n, 24)


def r109(ctx, prog, B):
    """min/max on mixed int/float pairs decide in the float domain (seed c10c compared the integer with the truncated float)"""
    n = 0
    for name in ('min', 'max'):
        if name not in B.closures:
            continue
        for order in (('Int', 'Float'), ('Float', 'Int')):
            args = [B.V(order[0], 'p0'), B.V(order[1], 'p1')]
            ps = B.call(name, B.tuple(args))
            n += 1
            isym = SYM('p0') if order[0] == 'Int' else SYM('p1')
            fsym = SYM('p1') if order[0] == 'Int' else SYM('p0')
            fa = ('app', 'int_as_float', (isym,))
            good = ps is not None and len(ps) >= 2
            detail = []
            seen = set()
            for ret, eff in (ps or []):
                if not (is_adt(ret, 'result::Result', 'Ok') and is_adt(ret[4][0], 'value::Value')):
                    good = False
                    detail.append(fmt(ret)[:60])
                    continue
                v = ret[4][0]
                int_won = v[3] == 'Int' and v[4] == (isym,)
                flt_won = v[3] == 'Float' and v[4] == (fsym,)
                if not (int_won or flt_won):
                    good = False
                    detail.append('returns %s' % fmt(v)[:60])
                    continue
                seen.add('int' if int_won else 'float')
                # the decisive test: a PartialOrd comparison between int_as_float(int) and the float
                tests = [(t_v, tk) for t_v, tk in branches_of(eff) if t_v[0] == 'app' and 'PartialOrd' in t_v[1] and len(t_v[2]) == 2 and set(t_v[2]) == {fa, fsym}]
                if len(tests) != 1:
                    good = False
                    detail.append('%s after tests %s' % ('Int' if int_won else 'Float', [fmt(t_v)[:80] for t_v, _ in branches_of(eff) if t_v[0] == 'app'][:3]))
                    continue
                t_v, tk = tests[0]
                meth = t_v[1].split('::')[-1]
                held = tk != C(0)
                left_is_int = t_v[2][0] == fa
                # relation established between I (= int as float) and F: one of '<', '<=', '>', '>='
                rel = {'lt': '<', 'le': '<=', 'gt': '>', 'ge': '>='}.get(meth)
                if rel is None:
                    good = False
                    continue
                if not held:
                    rel = {'<': '>=', '<=': '>', '>': '<=', '>=': '<'}[rel]
                if not left_is_int:
                    rel = {'<': '>', '<=': '>=', '>': '<', '>=': '<='}[rel]
                # rel now reads: I rel F
                int_smaller_or_equal = rel in ('<', '<=')
                int_larger_or_equal = rel in ('>', '>=')
                ok_ = (int_won and (int_smaller_or_equal if name == 'min' else int_larger_or_equal)) or (flt_won and (int_larger_or_equal if name == 'min' else int_smaller_or_equal))
                if not ok_:
                    good = False
                    detail.append('%s returned although int %s float' % ('Int' if int_won else 'Float', rel))
            ctx.check(good and seen == {'int', 'float'}, 'R10.9', '%s[%s,%s]' % (name, order[0], order[1]), 'mixed', '%s of an integer and a float compares them in the float domain and returns the one that is numerically %s, keeping its type (%s)' % (name, 'smallest' if name == 'min' else 'largest', detail[:3]))
    ctx.floor('R10.9', 'mixed_minmax_cases', n, 4)
