"""Path enumeration of one iteration of the tokenizer loop (token::partial_tokens_to_tokens) by abstract interpretation.
Used by C01 (G-cutoff), C06 (R6.5 consume = match) and C07 (R7.3)."""
from absint import Interp, SYM, C, UNK, Stop, fmt, is_adt
from mirlib import callee_matches, op_place, resolve_place, path_endswith

TOK = SYM('tokens')


def _is_split_first(v):
    return v[0] == 'app' and v[1].split('::')[-1].split('#')[0] == 'split_first' and v[2] == (TOK,)


def _is_rest(v):
    """the tail of `tokens.split_first()`: (first, rest) = payload of the Some"""
    return v[0] == 'proj' and _is_split_first(v[1]) and tuple(v[2]) == ('as Some', '0', 1)


def _get_term(v):
    """v is app(cloned,(app(get,(tokens, C(k))),)) -> k; with `(first, rest) = tokens.split_first()`: rest.first() -> 1, rest.get(j) -> j + 1"""
    g = v[2][0] if (v[0] == 'app' and v[1].endswith('::cloned') and len(v[2]) == 1) else v
    if g[0] == 'app' and (g[1].endswith('::get') or '::get::' in g[1]) and len(g[2]) == 2 and g[2][1][0] == 'c' and isinstance(g[2][1][1], int):
        if g[2][0] == TOK:
            return g[2][1][1]
        if _is_rest(g[2][0]):
            return g[2][1][1] + 1
    if g[0] == 'app' and g[1].split('::')[-1].split('#')[0] == 'first' and len(g[2]) == 1:
        if g[2][0] == TOK:
            return 0
        if _is_rest(g[2][0]):
            return 1
    return None


def lookahead_index(v):
    """which look-ahead slot (1 = second, 2 = third) a value was read from, following projections"""
    if v[0] == 'proj':
        return lookahead_index(v[1])
    return _get_term(v)


def iteration_paths(prog, fn):
    """returns list of dicts: first (variant name or None), cutoff (int|None), proven_len, emitted (abstract Option<Token>),
    matched (list of (slot, variant idx) pattern tests that held), returns (abstract return value for paths that leave the function)"""
    # loop head: the block calling is_empty on the `tokens` parameter
    head = None
    for b, t in fn.calls():
        if t['callee']['name'] in ('is_empty', 'split_first', 'first') and not t['callee'].get('local') and head is None:
            a = resolve_place(fn, op_place(t['args'][0]))
            if a is not None and a['l'] == 1:
                head = b
    if head is None:
        raise ValueError('loop head (tokens.is_empty() / tokens.split_first()) not found')
    pt = prog.adt('token::PartialToken')
    pnames = {v['idx']: v['name'] for v in pt['variants']}

    def hook(it, f, t, args):
        c = t['callee']
        if f is fn and c['name'] == 'index' and 'RangeFrom' in ' '.join(c.get('args') or []):
            return Stop(tuple(args))
        if c.get('local') and c['name'] in ('unmatched_partial_token',):
            return ('app', c['def'], tuple(args))
        return None
    it = Interp(prog, hook=hook, max_steps=400000)
    out = []
    it._run(fn, head, {1: TOK}, 0, out, (), {})
    paths = []
    for ret, eff in out:
        if ret == ('diverge',):
            continue
        info = dict(cutoff=None, proven_len=0, emitted=None, matched=[], first=None, ret=None, tests=[])
        for e in eff:
            if e[0] == '<branch>':
                v, taken = e[2]
                if v[0] == 'app' and v[1].endswith('::is_empty') and v[2] == (TOK,):
                    if taken == C(0):
                        info['proven_len'] = max(info['proven_len'], 1)
                    continue
                if v[0] == 'app' and v[1] == 'discriminant':
                    inner = v[2][0]
                    if _is_split_first(inner):
                        if taken == C(1):
                            info['proven_len'] = max(info['proven_len'], 1)
                        continue
                    if inner == ('proj', ('app', inner[1][1], (TOK,)), ('as Some', '0', 0)) if (inner[0] == 'proj' and inner[1][0] == 'app') else False:
                        if _is_split_first(inner[1]):
                            info['first'] = pnames.get(taken[1]) if taken[0] == 'c' else None
                            continue
                    k = _get_term(inner)
                    if k is not None and taken == C(1):
                        info['proven_len'] = max(info['proven_len'], k + 1)
                        continue
                    if inner == ('proj', TOK, ('[0]',)):
                        info['first'] = pnames.get(taken[1]) if taken[0] == 'c' else None
                        continue
                    s = lookahead_index(inner)
                    if s is not None and taken[0] == 'c':
                        info['matched'].append((s, pnames.get(taken[1], taken[1])))
                        continue
                if v[0] == 'app' and v[1].split('::')[-1] in ('eq', 'ne') and len(v[2]) == 2:
                    # `second == Some(first)` held (or `!=` failed): the look-ahead slot compared with a Some value holds a token
                    held = (taken != C(0)) if v[1].split('::')[-1] == 'eq' else (taken == C(0))
                    for x, y in ((v[2][0], v[2][1]), (v[2][1], v[2][0])):
                        k = _get_term(x)
                        if k is not None and held and y[0] == 'adt' and y[3] == 'Some':
                            info['proven_len'] = max(info['proven_len'], k + 1)
                info['tests'].append((fmt(v), fmt(taken)))
            elif e[0].endswith('Extend::extend') or e[0].endswith('Extend<T>>::extend'):
                info['emitted'] = e[2][1] if len(e[2]) > 1 else None
            elif e[0].endswith('PartialEq>::eq') or ('PartialEq' in e[0] and e[0].endswith('::eq')):
                info['tests'].append(('eq', tuple(fmt(a) for a in e[2])))
        if isinstance(ret, tuple) and ret and ret[0] == 'stop':
            args = ret[1]
            if args[0] != TOK:
                info['cutoff'] = None
            else:
                r = args[1]
                if is_adt(r, 'ops::RangeFrom') and r[4][0][0] == 'c':
                    info['cutoff'] = r[4][0][1]
        else:
            info['ret'] = ret
            if info['proven_len'] == 0 and info['cutoff'] is None and info['emitted'] is None:
                # loop exit path / error return
                info['cutoff'] = 0
        info['effects'] = eff
        paths.append(info)
    return paths
