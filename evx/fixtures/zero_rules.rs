//! Positive control for the zero-count rules of C15: each construct below MUST be reported by the driver/rules.
use std::cell::Cell;
use std::rc::Rc;
use std::sync::atomic::{AtomicUsize, Ordering};

pub static COUNTER: AtomicUsize = AtomicUsize::new(0);

thread_local! {
    pub static LOCAL: Cell<u32> = Cell::new(0);
}

pub struct WithCell {
    pub hits: Cell<u32>,
}

pub struct WithRc {
    pub shared: Rc<String>,
}

pub fn bump() -> usize {
    LOCAL.with(|c| c.set(c.get() + 1));
    COUNTER.fetch_add(1, Ordering::SeqCst)
}

pub fn raw(p: *const u8) -> u8 {
    unsafe { *p }
}

pub fn now() -> std::time::Instant {
    std::time::Instant::now()
}

// ---- positive controls for the C01 site enumeration: each of these MUST be enumerated and stay undischarged
pub fn unguarded_index(v: &[u8]) -> u8 {
    v[3]
}

pub fn unguarded_unwrap(v: Option<u8>) -> u8 {
    v.unwrap()
}

pub fn unguarded_shift(a: i64, b: i64) -> i64 {
    a << b
}

pub fn unguarded_slice(s: &str, n: usize) -> &str {
    &s[n..]
}
