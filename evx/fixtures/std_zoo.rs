//! Negative / positive control for the C01 std classification.
//! a01..a48: total (never-panicking) uses of common std APIs on arbitrary inputs - MUST stay silent.
//! p_*: caller-contract APIs with unchecked arguments - MUST be reported.
use std::collections::HashMap;
pub fn a01(s: &str) -> usize { s.chars().count() }
pub fn a02(s: &str) -> String { s.chars().rev().collect() }
pub fn a03(v: &[i64]) -> Vec<i64> { v.iter().map(|x| x.wrapping_mul(2)).collect() }
pub fn a04(v: &[i64]) -> bool { v.iter().any(|x| *x == 3) }
pub fn a05(v: &[String], x: &String) -> bool { v.contains(x) }
pub fn a06(a: i64, s: &str) -> String { format!("{}-{}-{:?}", a, s, s) }
pub fn a07(v: &[String]) -> String { v.join(", ") }
pub fn a08(s: &str) -> Vec<String> { s.split(',').map(|x| x.to_string()).collect() }
pub fn a09(s: &str, p: &str) -> bool { s.starts_with(p) || s.ends_with(p) || s.contains(p) }
pub fn a10(v: &[u8]) -> Vec<u8> { v.to_vec() }
pub fn a11(v: &mut Vec<i64>, w: &[i64]) { v.extend_from_slice(w); v.extend(w.iter().cloned()); }
pub fn a12(v: &[i64]) -> Vec<(usize, i64)> { v.iter().cloned().enumerate().collect() }
pub fn a13(v: &[i64], w: &[i64]) -> Vec<(i64, i64)> { v.iter().cloned().zip(w.iter().cloned()).collect() }
pub fn a14(v: &[i64]) -> Option<i64> { v.iter().cloned().max() }
pub fn a15(v: &mut Vec<i64>) { v.sort(); v.dedup(); v.reverse(); }
pub fn a16(v: &[i64]) -> Option<&i64> { v.first().or(v.last()).or(v.get(3)) }
pub fn a17(s: &str) -> String { s.trim_start().trim_end().to_uppercase().replace("A", "b") }
pub fn a18(s: &str) -> Option<(&str, &str)> { s.split_once('=') }
pub fn a19(s: &str) -> Option<char> { s.chars().next() }
pub fn a20(s: &str) -> Vec<(usize, char)> { s.char_indices().collect() }
pub fn a21(m: &mut HashMap<String, i64>, k: &str) -> Option<i64> { m.remove(k); m.contains_key(k); m.entry(k.to_string()).or_insert(1); m.get(k).copied() }
pub fn a22(m: &HashMap<String, i64>) -> Vec<String> { let mut k: Vec<String> = m.keys().cloned().collect(); k.sort(); k }
pub fn a23(v: &mut Vec<i64>) -> Option<i64> { v.pop() }
pub fn a24(v: &[i64]) -> Vec<i64> { v.iter().filter(|x| **x > 0).cloned().collect() }
pub fn a25(v: &[i64]) -> usize { v.iter().filter(|x| **x > 0).count() }
pub fn a26(s: &str) -> Result<i64, std::num::ParseIntError> { s.parse::<i64>() }
pub fn a27(s: &str) -> Result<f64, std::num::ParseFloatError> { s.parse::<f64>() }
pub fn a28(a: i64, b: i64) -> Option<i64> { a.checked_add(b).and_then(|x| x.checked_mul(b)).and_then(|x| x.checked_div(b)).and_then(|x| x.checked_rem(a)).and_then(|x| x.checked_pow(3)) }
pub fn a29(a: i64, b: i64) -> i64 { a.wrapping_add(b).wrapping_sub(b).wrapping_mul(a).wrapping_neg().saturating_add(b).wrapping_shl(b as u32).wrapping_shr(b as u32).wrapping_abs() }
pub fn a30(a: f64, b: f64) -> f64 { a.abs().sqrt().powf(b).max(b).min(a).floor().ceil().round().trunc().fract().mul_add(a, b).rem_euclid(1.0) }
pub fn a31(s: &str) -> String { let mut t = String::with_capacity(s.len()); t.push_str(s); t.push('x'); t.extend(s.chars()); t }
pub fn a32(v: &[String]) -> Vec<String> { let mut w = v.to_vec(); w.truncate(2); w.clear(); w.retain(|x| !x.is_empty()); w }
pub fn a33(s: &str) -> Vec<&str> { s.split_whitespace().collect::<Vec<_>>() }
pub fn a34(s: &str) -> Vec<&str> { s.lines().collect() }
pub fn a35(s: &str) -> Option<usize> { s.find('x').or_else(|| s.rfind("yz")) }
pub fn a36(s: &str) -> Option<&str> { s.strip_suffix("abc").or_else(|| s.get(1..3)) }
pub fn a37(c: char) -> (bool, bool, bool, String) { (c.is_alphanumeric(), c.is_ascii_digit(), c.is_uppercase(), c.to_lowercase().collect()) }
pub fn a38(v: &[i64]) -> Option<i64> { v.iter().try_fold(0i64, |a, b| a.checked_add(*b)) }
pub fn a39(v: &[i64]) -> Vec<i64> { v.iter().skip(1).take(3).rev().cloned().collect() }
pub fn a40(v: &[i64]) -> Vec<Vec<i64>> { v.iter().map(|x| vec![*x; 2]).collect() }
pub fn a41(a: Option<i64>, b: Result<i64, String>) -> i64 { a.unwrap_or(0).wrapping_add(b.clone().unwrap_or_default()).wrapping_add(a.map(|x| x >> 1).unwrap_or_else(|| 1)).wrapping_add(b.ok().map_or(0, |x| x & 1)) }
pub fn a42(s: &str) -> bool { s.is_empty() || s.is_char_boundary(3) || s.eq_ignore_ascii_case("x") }
pub fn a43(v: &[f64]) -> Option<f64> { v.iter().cloned().fold(None, |m: Option<f64>, x| Some(m.map_or(x, |y| y.min(x)))) }
pub fn a44(v: Vec<i64>) -> Box<[i64]> { v.into_boxed_slice() }
pub fn a45(s: String) -> Vec<u8> { s.into_bytes() }
pub fn a46(v: &[u8]) -> String { String::from_utf8_lossy(v).into_owned() }
pub fn a47(v: &[i64]) -> Option<usize> { v.iter().position(|x| *x == 1) }
pub fn a48(v: &[i64]) -> bool { v.iter().all(|x| *x > 0) }

pub fn p_clamp(a: f64, lo: f64, hi: f64) -> f64 { a.clamp(lo, hi) }
pub fn p_windows(v: &[i64], n: usize) -> usize { v.windows(n).count() }
pub fn p_to_digit(c: char, radix: u32) -> Option<u32> { c.to_digit(radix) }
pub fn p_truncate(s: &mut String, n: usize) { s.truncate(n) }
pub fn p_remove(v: &mut Vec<i64>, i: usize) -> i64 { v.remove(i) }
pub fn p_div(a: i64, b: i64) -> i64 { a / b }
pub fn p_pow(a: i64, b: u32) -> i64 { a.pow(b) }
pub fn p_expect(a: Option<i64>) -> i64 { a.expect("present") }
pub fn p_wrapping_div(a: i64, b: i64) -> i64 { a.wrapping_div(b) }
