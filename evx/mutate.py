#!/usr/bin/env python3
"""Seeded-mutant self-test of the rules ("test the checker both ways").

mutate.py [--property CXX] [--id NAME] [--list] [--jobs N]
Each mutant is a small textual edit of a scratch copy of /repo (outside /repo and /verif, deleted afterwards);
the property's check is run against the copy (EVX_REPO) and must report a violation naming the expected rule.
A mutant whose patch no longer applies to the current tree is skipped and counted, never failed.
Negative controls (behaviour-preserving edits) must stay silent.
"""
import argparse
import concurrent.futures
import json
import os
import shutil
import subprocess
import sys
import tempfile

HERE = os.path.dirname(os.path.abspath(__file__))
sys.path.insert(0, HERE)
REPO = os.environ.get('EVX_REPO', '/repo')


def load_mutants():
    out = []
    d = os.path.join(HERE, 'mutants')
    for fn in sorted(os.listdir(d)):
        if fn.endswith('.json') and fn != 'test_survival.json':
            with open(os.path.join(d, fn)) as fh:
                for m in json.load(fh):
                    m['source'] = fn
                    out.append(m)
    # independently produced changes kept as diffs: seeded breaking changes (must be reported by their own property's check)
    # and behaviour-preserving refactorings (every check must stay silent)
    verif = os.path.dirname(HERE)
    for sub, expect in (('seeded', 'violation'), ('refactors', 'silent')):
        base = os.path.join(verif, sub)
        if not os.path.isdir(base):
            continue
        for name in sorted(os.listdir(base)):
            pp = os.path.join(base, name, 'patch.diff')
            mp = os.path.join(base, name, 'meta.json')
            if not (os.path.exists(pp) and os.path.exists(mp)):
                continue
            with open(mp) as fh:
                meta = json.load(fh)
            if sub == 'seeded':
                if not meta.get('confirmed'):
                    continue
                props = [meta['breaks_property']]
            else:
                if meta.get('known_false_alarm'):
                    continue  # documented limitation (DESIGN.md section 8): kept for the record, not a negative control
                props = ['C%02d' % i for i in range(1, 17)]
            out.append(dict(id='%s:%s' % (sub, name), properties=props, expect=expect, patch=pp, source=sub, anchored=meta.get('anchored_property'),
                            alarmed=sorted((meta.get('first_run_alarms') or {}).keys())))
    return out


def scratch_copy():
    d = tempfile.mkdtemp(prefix='evx-mut-')
    dst = os.path.join(d, 'repo')
    shutil.copytree(REPO, dst, ignore=shutil.ignore_patterns('target', '.git', 'benches'))
    return d, dst


def apply_edits(root, edits):
    for e in edits:
        p = os.path.join(root, e['file'])
        with open(p, encoding='utf-8') as fh:
            s = fh.read()
        if e['old'] not in s:
            return False
        s = s.replace(e['old'], e['new'], 1)
        with open(p, 'w', encoding='utf-8') as fh:
            fh.write(s)
    return True


def run_one(m, tier='quick', only=None):
    d, root = scratch_copy()
    try:
        if 'patch' in m:
            applied = subprocess.run(['git', 'apply', '--whitespace=nowarn', m['patch']], cwd=root, capture_output=True).returncode == 0
        else:
            applied = True
            if m.get('base_patch'):
                # a behaviour-preserving refactoring first (stored under /verif/refactors), then the breaking edit on top of it
                bp = os.path.join(os.path.dirname(HERE), m['base_patch'])
                applied = subprocess.run(['git', 'apply', '--whitespace=nowarn', bp], cwd=root, capture_output=True).returncode == 0
            applied = applied and apply_edits(root, m['edits'])
        if not applied:
            return dict(id=m['id'], status='skipped', reason='patch does not apply to the current tree')
        env = dict(os.environ, EVX_REPO=root, EVX_NO_EXTRAS='1')
        res = {}
        for pid in ([only] if only else m['properties']):
            r = subprocess.run([sys.executable, os.path.join(HERE, 'check.py'), pid, '--no-evidence', '--tier', tier], env=env, capture_output=True, text=True)
            res[pid] = (r.returncode, r.stdout, r.stderr)
        expect = m.get('expect', 'violation')
        ok = True
        detail = []
        for pid, (rc, out, err) in res.items():
            if expect == 'silent':
                good = rc == 0
            else:
                good = rc == 1 and 'VIOLATION property=%s' % pid in out
                rules = m.get('rules')
                if good and rules:
                    good = any(('rule=%s ' % r) in out for r in rules)
            ok = ok and good
            lines = [l for l in out.splitlines() if l.startswith('VIOLATION') or l.startswith('  rule=') or 'BROKEN' in l]
            detail.append('%s rc=%d %s' % (pid, rc, ' | '.join(lines[:6])))
            if rc == 2:
                detail.append(err[-500:])
        if any(rc == 2 for rc, _, _ in res.values()):
            return dict(id=m['id'], status='BROKEN-MUTANT', detail=detail)
        return dict(id=m['id'], status='caught' if (ok and expect != 'silent') else ('silent-ok' if ok else 'MISSED' if expect != 'silent' else 'FALSE-ALARM'), detail=detail)
    finally:
        shutil.rmtree(d, ignore_errors=True)


def main():
    ap = argparse.ArgumentParser()
    ap.add_argument('--property')
    ap.add_argument('--id')
    ap.add_argument('--list', action='store_true')
    ap.add_argument('--jobs', type=int, default=8)
    ap.add_argument('--no-controls', action='store_true', help='skip the refactoring controls (mutants and seeds only)')
    ap.add_argument('--controls-for', help='comma-separated property ids: run only the refactoring controls, and only these properties\' checks on them')
    ap.add_argument('--verbose', '-v', action='store_true')
    a = ap.parse_args()
    ms = load_mutants()
    if a.property:
        ms = [m for m in ms if a.property.upper() in m['properties']]
    if a.id:
        ms = [m for m in ms if a.id in m['id']]
    if a.no_controls:
        ms = [m for m in ms if m.get('source') != 'refactors']
    if a.controls_for:
        want = [x.strip().upper() for x in a.controls_for.split(',')]
        ms = [dict(m, properties=want) for m in ms if m.get('source') == 'refactors']
    if a.list:
        for m in ms:
            print(m['id'], m['properties'], m.get('expect', 'violation'), m.get('rules'))
        return
    bad = 0
    with concurrent.futures.ThreadPoolExecutor(max_workers=a.jobs) as ex:
        for r in ex.map(run_one, ms):
            print('%-48s %s' % (r['id'], r['status']))
            if a.verbose or r['status'] in ('MISSED', 'FALSE-ALARM', 'BROKEN-MUTANT'):
                for dline in r.get('detail', []):
                    print('     ', dline)
            if r['status'] in ('MISSED', 'FALSE-ALARM'):
                bad += 1
    sys.exit(1 if bad else 0)


if __name__ == '__main__':
    main()
