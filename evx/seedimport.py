#!/usr/bin/env python3
"""seedimport.py <SEED dir> <name> <property>: verify a seeded change with seedcheck and store it under /verif/seeded/<name>/"""
import json, os, shutil, subprocess, sys
HERE = os.path.dirname(os.path.abspath(__file__))
src, name, pid = sys.argv[1], sys.argv[2], sys.argv[3]
r = subprocess.run([sys.executable, os.path.join(HERE, 'seedcheck.py'), src, '--all'], capture_output=True, text=True)
print(r.stdout[-3000:], r.stderr[-500:])
rep = json.loads(r.stdout)
dst = os.path.join(os.path.dirname(HERE), 'seeded', name)
os.makedirs(dst, exist_ok=True)
for f in ('patch.diff', 'demo.rs', 'meta.md'):
    if os.path.exists(os.path.join(src, f)) and os.path.abspath(src) != os.path.abspath(dst):
        shutil.copy(os.path.join(src, f), os.path.join(dst, f if f != 'meta.md' else 'author_notes.md'))
confirmed = rep.get('patch_applies') and rep.get('demo_without_patch') == 'passes' and rep.get('demo_with_patch') == 'fails' and str(rep.get('baseline_with_patch', '')).startswith('passes')
old_history = None
if os.path.exists(os.path.join(dst, 'meta.json')):
    old_history = json.load(open(os.path.join(dst, 'meta.json'))).get('history')
meta = {
    'breaks_property': pid,
    'origin': 'independent sub-agent given only the property text and a scratch worktree of /repo (nothing from /verif)',
    'needs_to_manifest': 'see author_notes.md',
    'confirmed': bool(confirmed),
    'what_i_ran': ['git apply patch.diff on a scratch copy of /repo HEAD', 'cargo test --offline (baseline suite with the patch)', 'cargo test --offline --test seed_demo with and without the patch', 'python3 evx/check.py <ID> for all 16 properties with EVX_REPO=<scratch copy>'],
    'results': rep,
    'caught_by': sorted(rep.get('checks', {}).keys()),
    'caught_by_own_property_check': pid in rep.get('checks', {}),
}
if old_history:
    meta['history'] = old_history
json.dump(meta, open(os.path.join(dst, 'meta.json'), 'w'), indent=1)
print('stored', dst, 'confirmed', confirmed, 'caught_by', meta['caught_by'])
