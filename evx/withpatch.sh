#!/bin/sh
# withpatch.sh <patch.diff> <command...>: run a command with EVX_REPO pointing at a scratch copy of /repo with the patch applied
set -e
p=$(realpath "$1"); shift
d=$(mktemp -d /tmp/evx-wp-XXXXXX)
trap 'rm -rf "$d"' EXIT
rsync -a --exclude target --exclude .git --exclude benches /repo/ "$d/repo/"
(cd "$d/repo" && git apply --whitespace=nowarn "$p")
EVX_REPO="$d/repo" EVX_NO_EXTRAS=1 "$@"
