#!/bin/bash
# seedimport_onref.sh <worktree> <seed-name> <property> <refactor-name>
# imports a seeded change that an agent made ON TOP of a stored refactoring (committed in its worktree): the stored patch is the
# combined diff against /repo's HEAD (refactoring + breaking change), so that the usual confirmation applies
set -e
wt=$1; name=$2; pid=$3; ref=$4
tmp=$(mktemp -d /tmp/evx-onref-XXXXXX)
trap 'rm -rf "$tmp"' EXIT
cp -r "$wt/SEED/." "$tmp/"
base=$(git -C /repo rev-parse HEAD)
git -C "$wt" diff "$base" -- src > "$tmp/patch.diff"
cp "$wt/SEED/patch.diff" "$tmp/patch_on_refactoring.diff" 2>/dev/null || true
cd /verif
python3 evx/seedimport.py "$tmp" "$name" "$pid" | tail -1
python3 - "$name" "$ref" <<'PY'
import json,sys
p='/verif/seeded/%s/meta.json'%sys.argv[1]
m=json.load(open(p)); m['on_refactoring']=sys.argv[2]
m['origin']=m.get('origin','')+'; the change was made on top of the independent refactoring `%s` (patch.diff is the combined diff against HEAD, patch_on_refactoring.diff the breaking part alone)'%sys.argv[2]
json.dump(m,open(p,'w'),indent=1)
PY
cp "$tmp/patch_on_refactoring.diff" "/verif/seeded/$name/" 2>/dev/null || true
