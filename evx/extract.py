"""Runs the rustc_private driver on /repo's current working tree and loads the facts."""
import json
import os
import shutil
import subprocess
import sys
import tempfile
import tomllib

HERE = os.path.dirname(os.path.abspath(__file__))
REPO = os.environ.get('EVX_REPO', '/repo')
DRIVER_DIR = os.path.join(HERE, 'driver')
DRIVER = os.path.join(DRIVER_DIR, 'target', 'release', 'evx-driver')


class ExtractError(Exception):
    pass


def nightly_sysroot():
    r = subprocess.run(['rustc', '+nightly', '--print', 'sysroot'], capture_output=True, text=True)
    if r.returncode != 0:
        raise ExtractError('nightly toolchain not available: ' + r.stderr)
    return r.stdout.strip()


def ensure_driver():
    srcs = [os.path.join(DRIVER_DIR, 'src', f) for f in os.listdir(os.path.join(DRIVER_DIR, 'src'))]
    if os.path.exists(DRIVER) and all(os.path.getmtime(DRIVER) >= os.path.getmtime(s) for s in srcs):
        return
    env = dict(os.environ, CARGO_NET_OFFLINE='true')
    r = subprocess.run(['cargo', 'build', '--offline', '--release'], cwd=DRIVER_DIR, env=env, capture_output=True, text=True)
    if r.returncode != 0 or not os.path.exists(DRIVER):
        raise ExtractError('driver build failed:\n' + r.stderr[-4000:])


def repo_edition(repo=REPO):
    with open(os.path.join(repo, 'Cargo.toml'), 'rb') as fh:
        t = tomllib.load(fh)
    return t['package'].get('edition', '2015'), t


class Extraction:
    """One driver run = one configuration. Files live in a private temp dir removed by close()."""

    def __init__(self, features=(), overflow_checks=True, repo=REPO, reach=True):
        self.features = tuple(sorted(features))
        self.overflow_checks = overflow_checks
        self.repo = repo
        self.dir = tempfile.mkdtemp(prefix='evx-')
        self.want_reach = reach
        self.rmeta = None
        self.externs = []  # extra --extern args needed by witnesses (feature configs)
        self.lib_dirs = []

    def label(self):
        return 'features=[%s] overflow_checks=%s' % (','.join(self.features), 'on' if self.overflow_checks else 'off')

    def run(self):
        ensure_driver()
        if self.features:
            self._run_cargo()
        else:
            self._run_direct()
        fp = os.path.join(self.dir, 'facts.json')
        if not os.path.exists(fp):
            raise ExtractError('driver produced no facts.json for ' + self.label())
        return self

    def _env(self):
        sysroot = nightly_sysroot()
        env = dict(os.environ)
        env['LD_LIBRARY_PATH'] = os.path.join(sysroot, 'lib') + ':' + env.get('LD_LIBRARY_PATH', '')
        env['EVX_OUT'] = self.dir
        env['EVX_REPO_ROOT'] = self.repo
        env['CARGO_NET_OFFLINE'] = 'true'
        if not self.want_reach:
            env['EVX_NO_REACH'] = '1'
        return env, sysroot

    def _run_direct(self):
        env, sysroot = self._env()
        edition, _ = repo_edition(self.repo)
        self.rmeta = os.path.join(self.dir, 'libevalexpr.rmeta')
        cmd = [DRIVER, os.path.join(self.repo, 'src', 'lib.rs'), '--crate-type', 'lib', '--edition', edition,
               '--crate-name', 'evalexpr', '--sysroot', sysroot,
               '-C', 'overflow-checks=' + ('on' if self.overflow_checks else 'off'),
               '-C', 'debug-assertions=' + ('on' if self.overflow_checks else 'off'),
               '-Zmir-opt-level=0', '--emit=metadata', '-o', self.rmeta, '-Awarnings',
               '--error-format=short']
        r = subprocess.run(cmd, env=env, capture_output=True, text=True, cwd=self.dir)
        if r.returncode != 0:
            raise ExtractError('driver failed on %s (%s):\n%s' % (self.repo, self.label(), r.stderr[-4000:]))

    def _run_cargo(self):
        """feature configurations: /repo's own cargo (pinned toolchain) as front end, nightly rustc + driver as wrapper"""
        env, sysroot = self._env()
        nightly_rustc = subprocess.run(['rustup', 'which', '--toolchain', 'nightly', 'rustc'], capture_output=True, text=True).stdout.strip()
        env['RUSTC'] = nightly_rustc
        env['RUSTC_WORKSPACE_WRAPPER'] = DRIVER
        tgt = os.path.join(self.dir, 'target')
        env['CARGO_TARGET_DIR'] = tgt
        flags = '-Zmir-opt-level=0 -Awarnings -C overflow-checks=%s -C debug-assertions=%s' % (
            ('on' if self.overflow_checks else 'off'), ('on' if self.overflow_checks else 'off'))
        env['RUSTFLAGS'] = flags
        cmd = ['cargo', 'check', '--offline', '--lib', '--features', ','.join(self.features), '--message-format=json']
        r = subprocess.run(cmd, env=env, capture_output=True, text=True, cwd=self.repo)
        if r.returncode != 0:
            raise ExtractError('cargo check failed (%s):\n%s' % (self.label(), r.stderr[-4000:]))
        for line in r.stdout.splitlines():
            try:
                m = json.loads(line)
            except ValueError:
                continue
            if m.get('reason') == 'compiler-artifact':
                name = m['target']['name']
                for f in m.get('filenames', []):
                    if f.endswith('.rmeta') or f.endswith('.rlib'):
                        if name == 'evalexpr':
                            self.rmeta = f
                        elif 'lib' in m['target'].get('kind', []) or 'proc-macro' in m['target'].get('kind', []):
                            self.externs.append((name.replace('-', '_'), f))
        self.lib_dirs = [os.path.join(tgt, 'debug', 'deps')]

    def facts_path(self):
        return os.path.join(self.dir, 'facts.json')

    def reach_path(self):
        p = os.path.join(self.dir, 'reach.json')
        return p if os.path.exists(p) else None

    def close(self):
        shutil.rmtree(self.dir, ignore_errors=True)

    def __enter__(self):
        return self.run()

    def __exit__(self, *a):
        self.close()


if __name__ == '__main__':
    # debugging helper: extract.py <outdir> [features]
    out = sys.argv[1]
    feats = sys.argv[2].split(',') if len(sys.argv) > 2 and sys.argv[2] else []
    ex = Extraction(features=feats).run()
    os.makedirs(out, exist_ok=True)
    for f in os.listdir(ex.dir):
        if f.endswith('.json') or f.endswith('.rmeta'):
            shutil.copy(os.path.join(ex.dir, f), os.path.join(out, f))
    print('extracted', ex.label(), 'into', out, 'rmeta', ex.rmeta)
    ex.close()
