//! Minimal JSON value + writer (the driver has zero cargo dependencies).
use std::fmt::Write;

#[derive(Clone, Debug)]
pub enum J {
    Null,
    Bool(bool),
    Num(String),
    Str(String),
    Arr(Vec<J>),
    Obj(Vec<(String, J)>),
}

impl J {
    pub fn s<T: Into<String>>(s: T) -> J {
        J::Str(s.into())
    }
    pub fn n<T: std::fmt::Display>(n: T) -> J {
        J::Num(n.to_string())
    }
    pub fn obj(fields: Vec<(&str, J)>) -> J {
        J::Obj(fields.into_iter().map(|(k, v)| (k.to_string(), v)).collect())
    }
    pub fn arr<I: IntoIterator<Item = J>>(it: I) -> J {
        J::Arr(it.into_iter().collect())
    }
    pub fn opt(o: Option<J>) -> J {
        o.unwrap_or(J::Null)
    }
    pub fn write(&self, out: &mut String) {
        match self {
            J::Null => out.push_str("null"),
            J::Bool(b) => out.push_str(if *b { "true" } else { "false" }),
            J::Num(n) => out.push_str(n),
            J::Str(s) => write_str(s, out),
            J::Arr(v) => {
                out.push('[');
                for (i, x) in v.iter().enumerate() {
                    if i > 0 {
                        out.push(',');
                    }
                    x.write(out);
                }
                out.push(']');
            }
            J::Obj(v) => {
                out.push('{');
                for (i, (k, x)) in v.iter().enumerate() {
                    if i > 0 {
                        out.push(',');
                    }
                    write_str(k, out);
                    out.push(':');
                    x.write(out);
                }
                out.push('}');
            }
        }
    }
    pub fn to_string(&self) -> String {
        let mut s = String::new();
        self.write(&mut s);
        s
    }
}

fn write_str(s: &str, out: &mut String) {
    out.push('"');
    for c in s.chars() {
        match c {
            '"' => out.push_str("\\\""),
            '\\' => out.push_str("\\\\"),
            '\n' => out.push_str("\\n"),
            '\r' => out.push_str("\\r"),
            '\t' => out.push_str("\\t"),
            c if (c as u32) < 0x20 => {
                let _ = write!(out, "\\u{:04x}", c as u32);
            }
            c => out.push(c),
        }
    }
    out.push('"');
}
