//! Whole-program walks: unsafe sites, type walk (interior mutability / shared ownership), and the
//! monomorphic instantiation walk that enumerates panic leaves reachable from each local call edge.
use crate::facts::{def_path, span_str, ty_str};
use crate::json::J;
use rustc_hir::def::DefKind;
use rustc_hir::def_id::DefId;
use rustc_hir::intravisit::{self, Visitor};
use rustc_middle::mir::{AggregateKind, CastKind, Rvalue, StatementKind, TerminatorKind};
use rustc_middle::ty::adjustment::PointerCoercion;
use rustc_middle::ty::{self, EarlyBinder, GenericArgs, Instance, InstanceKind, Ty, TyCtxt, TypingEnv};
use std::collections::{BTreeMap, BTreeSet, HashMap, HashSet, VecDeque};

// ---------------------------------------------------------------- unsafe sites

struct UnsafeFinder<'tcx> {
    tcx: TyCtxt<'tcx>,
    found: Vec<J>,
}

impl<'tcx> Visitor<'tcx> for UnsafeFinder<'tcx> {
    fn visit_block(&mut self, b: &'tcx rustc_hir::Block<'tcx>) {
        if let rustc_hir::BlockCheckMode::UnsafeBlock(src) = b.rules {
            self.found.push(J::obj(vec![
                ("span", J::s(span_str(self.tcx, b.span))),
                ("source", J::s(format!("{:?}", src))),
                ("exp", J::Bool(b.span.from_expansion())),
            ]));
        }
        intravisit::walk_block(self, b);
    }
}

pub fn unsafe_sites<'tcx>(tcx: TyCtxt<'tcx>) -> J {
    let mut f = UnsafeFinder { tcx, found: vec![] };
    for owner in tcx.hir_body_owners() {
        let body = tcx.hir_body_owned_by(owner);
        f.visit_body(body);
    }
    J::Arr(f.found)
}

// ---------------------------------------------------------------- type walk

#[derive(Default)]
struct TW {
    reaches: BTreeSet<String>,
    unsafe_cell: Vec<String>,
    shared: Vec<String>,
    dyns: BTreeSet<String>,
    params: BTreeSet<String>,
    projections: BTreeSet<String>,
    fn_ptrs: BTreeSet<String>,
    refs: BTreeSet<String>,
    raw_ptr_in: BTreeSet<String>,
    other: BTreeSet<String>,
}

fn walk_ty<'tcx>(tcx: TyCtxt<'tcx>, t: Ty<'tcx>, seen: &mut HashSet<Ty<'tcx>>, chain: &mut Vec<String>, tw: &mut TW) {
    if !seen.insert(t) {
        return;
    }
    match t.kind() {
        ty::Adt(ad, args) => {
            let p = def_path(tcx, ad.did());
            tw.reaches.insert(p.clone());
            chain.push(ty_str(t));
            if ad.is_unsafe_cell() {
                tw.unsafe_cell.push(chain.join(" -> "));
            }
            if tcx.is_diagnostic_item(rustc_span::sym::Rc, ad.did()) || tcx.is_diagnostic_item(rustc_span::sym::Arc, ad.did()) {
                tw.shared.push(chain.join(" -> "));
            }
            if ad.is_phantom_data() {
                for a in args.types() {
                    walk_ty(tcx, a, seen, chain, tw);
                }
            }
            for v in ad.variants() {
                for f in v.fields.iter() {
                    let ft = f.ty(tcx, args);
                    if matches!(ft.kind(), ty::RawPtr(..)) {
                        tw.raw_ptr_in.insert(p.clone());
                    }
                    walk_ty(tcx, ft, seen, chain, tw);
                }
            }
            chain.pop();
        }
        ty::Ref(_, inner, m) => {
            tw.refs.insert(format!("{}{}", if m.is_mut() { "&mut " } else { "&" }, ty_str(*inner)));
            walk_ty(tcx, *inner, seen, chain, tw);
        }
        ty::RawPtr(inner, _) => walk_ty(tcx, *inner, seen, chain, tw),
        ty::Pat(inner, _) => walk_ty(tcx, *inner, seen, chain, tw),
        ty::Slice(inner) | ty::Array(inner, _) => walk_ty(tcx, *inner, seen, chain, tw),
        ty::Tuple(ts) => {
            for x in ts.iter() {
                walk_ty(tcx, x, seen, chain, tw);
            }
        }
        ty::Dynamic(..) => {
            tw.dyns.insert(ty_str(t));
        }
        ty::FnPtr(..) => {
            tw.fn_ptrs.insert(ty_str(t));
        }
        ty::Param(_) => {
            tw.params.insert(ty_str(t));
        }
        ty::Alias(..) => {
            tw.projections.insert(ty_str(t));
        }
        ty::Bool | ty::Char | ty::Int(_) | ty::Uint(_) | ty::Float(_) | ty::Str | ty::Never => {}
        _ => {
            tw.other.insert(ty_str(t));
        }
    }
}

fn strs(s: impl IntoIterator<Item = String>) -> J {
    J::arr(s.into_iter().map(J::s))
}

pub fn type_walk<'tcx>(tcx: TyCtxt<'tcx>) -> J {
    let mut out = vec![];
    for id in tcx.hir_crate_items(()).definitions() {
        let d = id.to_def_id();
        if !matches!(tcx.def_kind(d), DefKind::Struct | DefKind::Enum | DefKind::Union) {
            continue;
        }
        let t = tcx.type_of(d).instantiate_identity().skip_norm_wip();
        let mut tw = TW::default();
        let mut seen = HashSet::new();
        let mut chain = vec![];
        walk_ty(tcx, t, &mut seen, &mut chain, &mut tw);
        out.push(J::obj(vec![
            ("adt", J::s(def_path(tcx, d))),
            ("reaches", strs(tw.reaches)),
            ("unsafe_cell", strs(tw.unsafe_cell)),
            ("shared_ownership", strs(tw.shared)),
            ("dyn", strs(tw.dyns)),
            ("params", strs(tw.params)),
            ("projections", strs(tw.projections)),
            ("fn_ptrs", strs(tw.fn_ptrs)),
            ("refs", strs(tw.refs)),
            ("raw_ptr_in", strs(tw.raw_ptr_in)),
            ("other", strs(tw.other)),
        ]));
    }
    J::Arr(out)
}

// ---------------------------------------------------------------- monomorphic walk

#[derive(Clone, Debug, PartialEq, Eq, PartialOrd, Ord, Hash)]
struct Leaf {
    kind: String,      // assert:<Kind> | diverge:<callee> | opaque:<def> | unresolved:<..> | indirect | virtual:<def> | intrinsic:<name>
    container: String, // def path of the function holding the leaf
}

struct Edge<'tcx> {
    block: usize,
    span: String,
    what: &'static str, // call | drop | closure | reify
    callee: Option<Instance<'tcx>>,
}

struct NodeInfo<'tcx> {
    local: bool,
    leaves: Vec<(usize, Leaf)>, // (block, leaf) direct leaves in this body
    edges: Vec<Edge<'tcx>>,
    tls: bool,
}

struct Walk<'tcx> {
    tcx: TyCtxt<'tcx>,
    nodes: HashMap<Instance<'tcx>, NodeInfo<'tcx>>,
    queue: VecDeque<Instance<'tcx>>,
}

fn inst_name<'tcx>(tcx: TyCtxt<'tcx>, i: Instance<'tcx>) -> String {
    ty::print::with_no_trimmed_paths!(format!("{}", i))
        .replace("DefaultNumericTypes", "DNT")
        .chars()
        .take(400)
        .collect::<String>()
        + match i.def {
            InstanceKind::Item(_) => "",
            _ => " [shim]",
        }
        + if false { tcx.sess.opts.unstable_opts.mir_opt_level.map(|_| "").unwrap_or("") } else { "" }
}

impl<'tcx> Walk<'tcx> {
    fn enqueue(&mut self, i: Instance<'tcx>) {
        if !self.nodes.contains_key(&i) {
            // placeholder so it is queued once
            self.nodes.insert(i, NodeInfo { local: i.def_id().is_local(), leaves: vec![], edges: vec![], tls: false });
            self.queue.push_back(i);
        }
    }

    fn visit(&mut self, inst: Instance<'tcx>) {
        let tcx = self.tcx;
        let did = inst.def_id();
        let dpath = def_path(tcx, did);
        let tenv = TypingEnv::fully_monomorphized();
        let mut leaves = vec![];
        let mut edges: Vec<Edge<'tcx>> = vec![];
        let mut tls = false;
        let avail = match inst.def {
            InstanceKind::Item(_) => tcx.is_mir_available(did),
            InstanceKind::Intrinsic(_) => false,
            InstanceKind::Virtual(..) => false,
            _ => true,
        };
        let krate = tcx.crate_name(did.krate).to_string();
        let std_like = matches!(krate.as_str(), "core" | "alloc" | "std" | "hashbrown" | "compiler_builtins" | "std_detect" | "rustc_demangle" | "libc" | "unwind" | "cfg_if" | "memchr_std" | "addr2line" | "gimli" | "object" | "miniz_oxide" | "adler2" | "panic_unwind" | "panic_abort" | "proc_macro" | "test");
        if !did.is_local() && !std_like {
            // a dependency of evalexpr (optional features): boundary, classified per crate by the rules
            leaves.push((0usize, Leaf { kind: format!("foreign:{}", krate), container: dpath.clone() }));
        } else if dpath.contains("::precondition_check") || dpath.starts_with("core::ub_checks::") || dpath.starts_with("std::ub_checks::") {
            // library UB checks (debug-assertion builds of std only): a boundary, reported as one class
            leaves.push((0usize, Leaf { kind: "ubcheck".to_string(), container: dpath.clone() }));
        } else if !avail {
            let kind = match inst.def {
                InstanceKind::Intrinsic(_) => format!("intrinsic:{}", tcx.item_name(did)),
                InstanceKind::Virtual(..) => format!("virtual:{}", dpath),
                _ => format!("opaque:{}", dpath),
            };
            leaves.push((0usize, Leaf { kind, container: dpath.clone() }));
        } else {
            let body = tcx.instance_mir(inst.def);
            for (bb, data) in body.basic_blocks.iter_enumerated() {
                if data.is_cleanup {
                    continue;
                }
                for st in data.statements.iter() {
                    if let StatementKind::Assign(b) = &st.kind {
                        match &b.1 {
                            Rvalue::Aggregate(k, _) => {
                                if let AggregateKind::Closure(cdid, cargs) = &**k {
                                    let cargs = inst.instantiate_mir_and_normalize_erasing_regions(tcx, tenv, EarlyBinder::bind(*cargs));
                                    let ci = Instance::resolve_closure(tcx, *cdid, cargs, ty::ClosureKind::FnOnce);
                                    edges.push(Edge { block: bb.index(), span: span_str(tcx, st.source_info.span), what: "closure", callee: Some(ci) });
                                    // also the by-ref entry (Fn/FnMut call goes to the closure body itself)
                                    let ci2 = Instance::new_raw(*cdid, cargs);
                                    edges.push(Edge { block: bb.index(), span: span_str(tcx, st.source_info.span), what: "closure", callee: Some(ci2) });
                                }
                            }
                            Rvalue::Cast(CastKind::PointerCoercion(PointerCoercion::ReifyFnPointer(_), _), op, _) => {
                                let oty = op.ty(body, tcx);
                                let oty = inst.instantiate_mir_and_normalize_erasing_regions(tcx, tenv, EarlyBinder::bind(oty));
                                if let ty::FnDef(cd, ca) = oty.kind() {
                                    match Instance::try_resolve(tcx, tenv, *cd, ca) {
                                        Ok(Some(ci)) => edges.push(Edge { block: bb.index(), span: span_str(tcx, st.source_info.span), what: "reify", callee: Some(ci) }),
                                        _ => leaves.push((bb.index(), Leaf { kind: format!("unresolved:{}", def_path(tcx, *cd)), container: dpath.clone() })),
                                    }
                                }
                            }
                            Rvalue::Cast(CastKind::PointerCoercion(PointerCoercion::Unsize, _), op, target_ty) => {
                                let sty = inst.instantiate_mir_and_normalize_erasing_regions(tcx, tenv, EarlyBinder::bind(op.ty(body, tcx)));
                                let tty = inst.instantiate_mir_and_normalize_erasing_regions(tcx, tenv, EarlyBinder::bind(*target_ty));
                                let pointees = match (sty.kind(), tty.kind()) {
                                    (&ty::Ref(_, a, _), &ty::Ref(_, b, _)) | (&ty::Ref(_, a, _), &ty::RawPtr(b, _)) | (&ty::RawPtr(a, _), &ty::RawPtr(b, _)) => Some((a, b)),
                                    _ => match (sty.boxed_ty(), tty.boxed_ty()) {
                                        (Some(a), Some(b)) => Some((a, b)),
                                        _ => None,
                                    },
                                };
                                match pointees {
                                    Some((a, b)) => {
                                        let (st, tt) = tcx.struct_lockstep_tails_for_codegen(a, b, tenv);
                                        if std::env::var("EVX_DEBUG").is_ok() && matches!(st.kind(), ty::Dynamic(..)) {
                                            eprintln!("DYN-SOURCE in {} : {} -> {} (a={}, b={})", inst_name(tcx, inst), ty_str(sty), ty_str(tty), ty_str(a), ty_str(b));
                                        }
                                        if matches!(st.kind(), ty::Dynamic(..)) {
                                            // dyn -> dyn (lifetime / upcast coercion): no new concrete type enters a vtable here
                                        } else if let ty::Dynamic(preds, ..) = tt.kind() {
                                            if let Some(principal) = preds.principal() {
                                                let tr = tcx.instantiate_bound_regions_with_erased(principal.with_self_ty(tcx, st));
                                                for ent in tcx.vtable_entries(tr) {
                                                    if let ty::VtblEntry::Method(mi) = ent {
                                                        edges.push(Edge { block: bb.index(), span: String::new(), what: "vtable", callee: Some(*mi) });
                                                    }
                                                }
                                            }
                                            if st.needs_drop(tcx, tenv) {
                                                edges.push(Edge { block: bb.index(), span: String::new(), what: "vtable", callee: Some(Instance::resolve_drop_in_place(tcx, st)) });
                                            }
                                        }
                                    }
                                    None => leaves.push((bb.index(), Leaf { kind: format!("unsize-unhandled:{}", ty_str(tty)), container: dpath.clone() })),
                                }
                            }
                            Rvalue::ThreadLocalRef(_) => tls = true,
                            _ => {}
                        }
                    }
                }
                let term = data.terminator();
                let sp = span_str(tcx, term.source_info.span);
                match &term.kind {
                    TerminatorKind::Assert { msg, .. } => {
                        let k = format!("{:?}", msg);
                        let k = k.split(|c: char| c == '(' || c == '{' || c == ' ').next().unwrap_or("").to_string();
                        leaves.push((bb.index(), Leaf { kind: format!("assert:{}", k), container: dpath.clone() }));
                    }
                    TerminatorKind::Call { func, .. } => {
                        let fty = func.ty(body, tcx);
                        let fty = inst.instantiate_mir_and_normalize_erasing_regions(tcx, tenv, EarlyBinder::bind(fty));
                        if let ty::FnDef(cd, ca) = fty.kind() {
                            let never = tcx.fn_sig(*cd).instantiate_identity().skip_norm_wip().skip_binder().output().is_never();
                            if never {
                                leaves.push((bb.index(), Leaf { kind: format!("diverge:{}", def_path(tcx, *cd)), container: dpath.clone() }));
                                continue;
                            }
                            match Instance::try_resolve(tcx, tenv, *cd, ca) {
                                Ok(Some(ci)) => edges.push(Edge { block: bb.index(), span: sp, what: "call", callee: Some(ci) }),
                                _ => leaves.push((bb.index(), Leaf { kind: format!("unresolved:{}", def_path(tcx, *cd)), container: dpath.clone() })),
                            }
                        } else {
                            leaves.push((bb.index(), Leaf { kind: "indirect".to_string(), container: dpath.clone() }));
                        }
                    }
                    TerminatorKind::Drop { place, .. } => {
                        let pty = place.ty(body, tcx).ty;
                        let pty = inst.instantiate_mir_and_normalize_erasing_regions(tcx, tenv, EarlyBinder::bind(pty));
                        if pty.needs_drop(tcx, tenv) {
                            let di = Instance::resolve_drop_in_place(tcx, pty);
                            edges.push(Edge { block: bb.index(), span: sp, what: "drop", callee: Some(di) });
                        }
                    }
                    TerminatorKind::InlineAsm { .. } => {
                        leaves.push((bb.index(), Leaf { kind: "inline_asm".to_string(), container: dpath.clone() }));
                    }
                    _ => {}
                }
            }
        }
        for e in &edges {
            if let Some(c) = e.callee {
                self.enqueue(c);
            }
        }
        let n = self.nodes.get_mut(&inst).unwrap();
        n.leaves = leaves;
        n.edges = edges;
        n.tls = tls;
    }

    /// leaves reachable from `start` through non-local code (local nodes are reported on their own)
    fn reach_leaves(&self, start: Instance<'tcx>, memo: &mut HashMap<Instance<'tcx>, BTreeMap<Leaf, Vec<String>>>) -> BTreeMap<Leaf, Vec<String>> {
        if let Some(m) = memo.get(&start) {
            return m.clone();
        }
        let tcx = self.tcx;
        let mut out: BTreeMap<Leaf, Vec<String>> = BTreeMap::new();
        let mut seen: HashSet<Instance<'tcx>> = HashSet::new();
        let mut parent: HashMap<Instance<'tcx>, Instance<'tcx>> = HashMap::new();
        let mut q = VecDeque::new();
        seen.insert(start);
        q.push_back(start);
        while let Some(i) = q.pop_front() {
            let n = match self.nodes.get(&i) {
                Some(n) => n,
                None => continue,
            };
            if n.local {
                continue;
            }
            for (_, l) in &n.leaves {
                out.entry(l.clone()).or_insert_with(|| {
                    let mut chain = vec![];
                    let mut cur = i;
                    chain.push(def_path(tcx, cur.def_id()));
                    while let Some(p) = parent.get(&cur) {
                        cur = *p;
                        chain.push(def_path(tcx, cur.def_id()));
                    }
                    chain.reverse();
                    chain
                });
            }
            if n.tls {
                out.entry(Leaf { kind: "thread_local".into(), container: def_path(tcx, i.def_id()) }).or_insert_with(Vec::new);
            }
            for e in &n.edges {
                if let Some(c) = e.callee {
                    if seen.insert(c) {
                        parent.insert(c, i);
                        q.push_back(c);
                    }
                }
            }
        }
        memo.insert(start, out.clone());
        out
    }
}

fn find_adt<'tcx>(tcx: TyCtxt<'tcx>, name: &str) -> Option<DefId> {
    for id in tcx.hir_crate_items(()).definitions() {
        let d = id.to_def_id();
        if matches!(tcx.def_kind(d), DefKind::Struct) && tcx.item_name(d).as_str() == name {
            return Some(d);
        }
    }
    None
}

pub fn monowalk<'tcx>(tcx: TyCtxt<'tcx>) -> J {
    // crates without the marker type (the fixture crate): only non-generic functions are rooted
    let dnt_ty = match find_adt(tcx, "DefaultNumericTypes") {
        Some(dnt) => Ty::new_adt(tcx, tcx.adt_def(dnt), GenericArgs::empty()),
        None => tcx.types.unit,
    };
    let has_dnt = find_adt(tcx, "DefaultNumericTypes").is_some();
    let mut ctxs: Vec<(String, Ty<'tcx>)> = vec![];
    for name in ["HashMapContext", "EmptyContext", "EmptyContextWithBuiltinFunctions"] {
        if let Some(d) = find_adt(tcx, name) {
            ctxs.push((name.to_string(), Ty::new_adt(tcx, tcx.adt_def(d), tcx.mk_args(&[dnt_ty.into()]))));
        }
    }
    let mut w = Walk { tcx, nodes: HashMap::new(), queue: VecDeque::new() };
    let mut roots = vec![];
    let mut unrooted = vec![];
    let mut all_bodies: Vec<DefId> = vec![];
    for ldid in tcx.mir_keys(()) {
        let did = ldid.to_def_id();
        let k = tcx.def_kind(did);
        if matches!(k, DefKind::Fn | DefKind::AssocFn | DefKind::Closure) {
            all_bodies.push(did);
        }
        if !matches!(k, DefKind::Fn | DefKind::AssocFn) {
            continue;
        }
        // choices for C: each context; all other type params must be NumericTypes
        let generics = tcx.generics_of(did);
        let mut has_c = false;
        let mut bad: Option<String> = None;
        let mut g = Some(generics);
        while let Some(gg) = g {
            for p in gg.own_params.iter() {
                if let ty::GenericParamDefKind::Type { .. } = p.kind {
                    match p.name.as_str() {
                        "NumericTypes" | "Self" if has_dnt => {}
                        "C" if has_dnt => has_c = true,
                        other => bad = Some(other.to_string()),
                    }
                } else if let ty::GenericParamDefKind::Const { .. } = p.kind {
                    bad = Some(p.name.to_string());
                }
            }
            g = gg.parent.map(|p| tcx.generics_of(p));
        }
        if let Some(b) = bad {
            unrooted.push(J::obj(vec![("path", J::s(def_path(tcx, did))), ("reason", J::s(format!("generic over caller-supplied type parameter `{}`; entered from its callers", b)))]));
            continue;
        }
        let choices: Vec<Option<&(String, Ty<'tcx>)>> = if has_c { ctxs.iter().map(Some).collect() } else { vec![None] };
        let mut any = false;
        for ch in choices {
            let args = GenericArgs::for_item(tcx, did, |param, _| match param.kind {
                ty::GenericParamDefKind::Lifetime => tcx.lifetimes.re_erased.into(),
                ty::GenericParamDefKind::Type { .. } => match param.name.as_str() {
                    "C" => ch.map(|c| c.1).unwrap_or(dnt_ty).into(),
                    "Self" => ctxs[0].1.into(),
                    _ => dnt_ty.into(),
                },
                ty::GenericParamDefKind::Const { .. } => unreachable!(),
            });
            if tcx.instantiate_and_check_impossible_predicates((did, args)) {
                continue;
            }
            let inst = Instance::new_raw(did, args);
            any = true;
            roots.push(J::obj(vec![("path", J::s(def_path(tcx, did))), ("inst", J::s(inst_name(tcx, inst)))]));
            w.enqueue(inst);
        }
        if !any {
            unrooted.push(J::obj(vec![("path", J::s(def_path(tcx, did))), ("reason", J::s("no instantiation over the default numeric types and the provided contexts satisfies its predicates"))]));
        }
    }
    // phase 2: a method of an impl for a generic local type that the crate itself instantiates (a private generic iterator handed out
    // as `impl Iterator`) is entered by API users through that instantiation although no local body calls it: root it at the
    // instantiations of the type the walk has met as the Self type of a visited method
    loop {
        while let Some(i) = w.queue.pop_front() {
            w.visit(i);
        }
        let mut self_tys: Vec<Ty<'tcx>> = vec![];
        for i in w.nodes.keys() {
            let d = i.def_id();
            if !d.is_local() || !matches!(tcx.def_kind(d), DefKind::AssocFn) {
                continue;
            }
            if let Some(imp) = tcx.impl_of_assoc(d) {
                let n = tcx.generics_of(imp).count();
                if i.args.len() < n {
                    continue;
                }
                let impl_args = tcx.mk_args(&i.args[..n]);
                let st = tcx.type_of(imp).instantiate(tcx, impl_args).skip_norm_wip();
                if let ty::Adt(ad, _) = st.kind() {
                    if ad.did().is_local() && !self_tys.contains(&st) {
                        self_tys.push(st);
                    }
                }
            }
        }
        let mut added = false;
        for id in tcx.hir_crate_items(()).definitions() {
            let imp = id.to_def_id();
            if !matches!(tcx.def_kind(imp), DefKind::Impl { .. }) {
                continue;
            }
            let ist = tcx.type_of(imp).instantiate_identity().skip_norm_wip();
            let (idef, iargs) = match ist.kind() {
                ty::Adt(a, ga) => (a.did(), *ga),
                _ => continue,
            };
            for st in &self_tys {
                let (cdef, cargs) = match st.kind() {
                    ty::Adt(a, ga) => (a.did(), *ga),
                    _ => continue,
                };
                if cdef != idef || cargs.len() != iargs.len() {
                    continue;
                }
                let mut bind: HashMap<u32, ty::GenericArg<'tcx>> = HashMap::new();
                let mut ok = true;
                for (ia, ca) in iargs.iter().zip(cargs.iter()) {
                    if let Some(t) = ia.as_type() {
                        if let ty::Param(p) = t.kind() {
                            bind.insert(p.index, ca);
                        } else if ia != ca {
                            ok = false;
                        }
                    } else if ia.as_const().is_some() && ia != ca {
                        ok = false;
                    }
                }
                if !ok {
                    continue;
                }
                for item in tcx.associated_items(imp).in_definition_order() {
                    if !item.is_fn() {
                        continue;
                    }
                    let fd = item.def_id;
                    if !fd.is_local() {
                        continue;
                    }
                    let fg = tcx.generics_of(fd);
                    if fg.own_params.iter().any(|p| !matches!(p.kind, ty::GenericParamDefKind::Lifetime)) {
                        continue;
                    }
                    let mut complete = true;
                    let args = GenericArgs::for_item(tcx, fd, |param, _| match param.kind {
                        ty::GenericParamDefKind::Lifetime => tcx.lifetimes.re_erased.into(),
                        _ => match bind.get(&param.index) {
                            Some(a) => *a,
                            None => {
                                complete = false;
                                dnt_ty.into()
                            }
                        },
                    });
                    if !complete || tcx.instantiate_and_check_impossible_predicates((fd, args)) {
                        continue;
                    }
                    let inst = Instance::new_raw(fd, args);
                    if !w.nodes.contains_key(&inst) {
                        roots.push(J::obj(vec![("path", J::s(def_path(tcx, fd))), ("inst", J::s(inst_name(tcx, inst))), ("via", J::s("impl of a generic type the crate instantiates"))]));
                        w.enqueue(inst);
                        added = true;
                    }
                }
            }
        }
        if !added {
            break;
        }
    }
    // per local site: union over instantiations
    let mut memo = HashMap::new();
    // key: (caller path, block)
    struct Site {
        span: String,
        what: String,
        callees: BTreeSet<String>,
        callee_defs: BTreeSet<String>,
        leaves: BTreeMap<Leaf, Vec<String>>,
        insts: usize,
        callee_local: bool,
    }
    let mut sites: BTreeMap<(String, usize, String, String), Site> = BTreeMap::new();
    let mut local_direct: BTreeMap<(String, usize), BTreeSet<String>> = BTreeMap::new();
    let mut visited_local: BTreeSet<String> = BTreeSet::new();
    let mut n_local = 0usize;
    let mut local_tls: BTreeSet<String> = BTreeSet::new();
    let insts: Vec<Instance<'tcx>> = w.nodes.keys().copied().collect();
    for i in &insts {
        let n = &w.nodes[i];
        if !n.local {
            continue;
        }
        n_local += 1;
        let cpath = def_path(tcx, i.def_id());
        if matches!(i.def, InstanceKind::Item(_)) {
            visited_local.insert(cpath.clone());
        }
        if n.tls {
            local_tls.insert(cpath.clone());
        }
        for (b, l) in &n.leaves {
            local_direct.entry((cpath.clone(), *b)).or_default().insert(l.kind.clone());
        }
        for e in &n.edges {
            let c = match e.callee {
                Some(c) => c,
                None => continue,
            };
            let cn = &w.nodes[&c];
            let key = (cpath.clone(), e.block, e.what.to_string(), def_path(tcx, c.def_id()));
            let s = sites.entry(key).or_insert_with(|| Site { span: e.span.clone(), what: e.what.to_string(), callees: BTreeSet::new(), callee_defs: BTreeSet::new(), leaves: BTreeMap::new(), insts: 0, callee_local: cn.local });
            s.insts += 1;
            s.callees.insert(inst_name(tcx, c));
            s.callee_defs.insert(def_path(tcx, c.def_id()));
            if !cn.local {
                for (l, ch) in w.reach_leaves(c, &mut memo) {
                    s.leaves.entry(l).or_insert(ch);
                }
            }
        }
    }
    let sites_j: Vec<J> = sites
        .into_iter()
        .map(|((caller, block, _, _), s)| {
            J::obj(vec![
                ("caller", J::s(caller)),
                ("block", J::n(block)),
                ("what", J::s(s.what)),
                ("span", J::s(s.span)),
                ("callee_defs", strs(s.callee_defs)),
                ("callee_local", J::Bool(s.callee_local)),
                ("callee_insts", strs(s.callees.into_iter().take(6))),
                ("n_insts", J::n(s.insts)),
                (
                    "leaves",
                    J::arr(s.leaves.into_iter().map(|(l, ch)| J::obj(vec![("kind", J::s(l.kind)), ("container", J::s(l.container)), ("chain", strs(ch))]))),
                ),
            ])
        })
        .collect();
    let direct_j: Vec<J> = local_direct
        .into_iter()
        .map(|((caller, block), kinds)| J::obj(vec![("caller", J::s(caller)), ("block", J::n(block)), ("kinds", strs(kinds))]))
        .collect();
    let mut unvisited = vec![];
    for d in &all_bodies {
        let p = def_path(tcx, *d);
        if !visited_local.contains(&p) {
            unvisited.push(J::s(p));
        }
    }
    J::obj(vec![
        ("roots", J::Arr(roots)),
        ("unrooted", J::Arr(unrooted)),
        ("n_instances", J::n(w.nodes.len())),
        ("n_local_instances", J::n(n_local)),
        ("visited_local_bodies", strs(visited_local)),
        ("unvisited_local_bodies", J::Arr(unvisited)),
        ("local_thread_local_refs", strs(local_tls)),
        ("sites", J::Arr(sites_j)),
        ("local_direct", J::Arr(direct_j)),
    ])
}
