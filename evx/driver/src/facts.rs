//! facts.json: a faithful export of the resolved program (ADTs, impls, consts, MIR bodies).
use crate::json::J;
use rustc_hir::def::DefKind;
use rustc_hir::def_id::{DefId, LocalDefId};
use rustc_middle::mir::{
    self, AggregateKind, BasicBlockData, Body, Const, ConstValue, Operand, Place, ProjectionElem,
    Rvalue, StatementKind, TerminatorKind,
};
use rustc_middle::ty::{self, GenericArgsRef, Instance, Ty, TyCtxt, TypingEnv};
use rustc_span::Span;

pub fn span_str(tcx: TyCtxt<'_>, sp: Span) -> String {
    let sm = tcx.sess.source_map();
    let sp = sp.source_callsite();
    let lo = sm.lookup_char_pos(sp.lo());
    let name = format!("{}", lo.file.name.prefer_local_unconditionally());
    let root = std::env::var("EVX_REPO_ROOT").unwrap_or_default();
    let name = if !root.is_empty() && name.starts_with(&root) {
        name[root.len()..].trim_start_matches('/').to_string()
    } else {
        name
    };
    format!("{}:{}:{}", name, lo.line, lo.col.0 + 1)
}

pub fn def_path(tcx: TyCtxt<'_>, d: DefId) -> String {
    ty::print::with_no_trimmed_paths!(tcx.def_path_str(d))
}

pub fn ty_str<'tcx>(t: Ty<'tcx>) -> String {
    ty::print::with_no_trimmed_paths!(format!("{}", t))
}

fn scalar_int_json(si: ty::ScalarInt, t: Ty<'_>) -> J {
    let size = si.size();
    let bits = si.to_bits(size);
    match t.kind() {
        ty::Bool => J::obj(vec![("k", J::s("bool")), ("v", J::Bool(bits != 0))]),
        ty::Char => {
            let c = char::from_u32(bits as u32).unwrap_or('\u{fffd}');
            J::obj(vec![("k", J::s("char")), ("v", J::s(c.to_string())), ("u", J::n(bits))])
        }
        ty::Int(_) => {
            let v = size.sign_extend(bits) as i128;
            J::obj(vec![("k", J::s("int")), ("v", J::n(v)), ("ty", J::s(ty_str(t)))])
        }
        ty::Uint(_) => J::obj(vec![("k", J::s("int")), ("v", J::n(bits)), ("ty", J::s(ty_str(t)))]),
        ty::Float(_) => J::obj(vec![
            ("k", J::s("float")),
            ("bits", J::s(format!("0x{:x}", bits))),
            ("ty", J::s(ty_str(t))),
        ]),
        _ => J::obj(vec![
            ("k", J::s("scalar")),
            ("bits", J::s(format!("0x{:x}", bits))),
            ("ty", J::s(ty_str(t))),
        ]),
    }
}

pub fn const_json<'tcx>(tcx: TyCtxt<'tcx>, c: &Const<'tcx>, owner: DefId) -> J {
    let t = c.ty();
    if let ty::FnDef(d, args) = t.kind() {
        // a trait method named as a function item (`.map(Value::from)`): the impl it resolves to, as for a direct call
        let tenv = TypingEnv::post_analysis(tcx, owner);
        let resolved = match Instance::try_resolve(tcx, tenv, *d, args) {
            Ok(Some(inst)) if inst.def_id() != *d => J::s(def_path(tcx, inst.def_id())),
            _ => J::Null,
        };
        return J::obj(vec![
            ("k", J::s("fn")),
            ("def", J::s(def_path(tcx, *d))),
            ("args", J::arr(args.iter().map(|a| J::s(ty::print::with_no_trimmed_paths!(format!("{}", a)))))),
            ("local", J::Bool(d.is_local())),
            ("resolved", resolved),
        ]);
    }
    match c {
        Const::Val(cv, t) => match cv {
            ConstValue::Slice { .. } => {
                if let Some(bytes) = cv.try_get_slice_bytes_for_diagnostics(tcx) {
                    J::obj(vec![("k", J::s("str")), ("v", J::s(String::from_utf8_lossy(bytes).to_string()))])
                } else {
                    J::obj(vec![("k", J::s("other")), ("ty", J::s(ty_str(*t)))])
                }
            }
            ConstValue::Scalar(mir::interpret::Scalar::Int(si)) => scalar_int_json(*si, *t),
            ConstValue::ZeroSized => J::obj(vec![("k", J::s("zst")), ("ty", J::s(ty_str(*t)))]),
            _ => J::obj(vec![("k", J::s("other")), ("ty", J::s(ty_str(*t))), ("dbg", J::s(format!("{:?}", cv)))]),
        },
        Const::Unevaluated(u, t) => {
            // try to evaluate (succeeds for non-generic consts); otherwise name the item
            let mut fields = vec![
                ("k", J::s("unevaluated")),
                ("def", J::s(def_path(tcx, u.def))),
                ("args", J::arr(u.args.iter().map(|a| J::s(ty::print::with_no_trimmed_paths!(format!("{}", a)))))),
                ("promoted", J::opt(u.promoted.map(|p| J::n(p.index())))),
                ("ty", J::s(ty_str(*t))),
            ];
            let tenv = TypingEnv::post_analysis(tcx, owner);
            if u.promoted.is_some() {
                // promoted bodies are exported with the function ("promoted"); rules evaluate them symbolically
            } else if let Ok(v) = tcx.const_eval_resolve(tenv, *u, rustc_span::DUMMY_SP) {
                let inner = const_json(tcx, &Const::Val(v, *t), owner);
                fields.push(("value", inner));
            }
            J::obj(fields)
        }
        Const::Ty(t, cc) => {
            if let Some(v) = cc.try_to_value() {
                if matches!(t.kind(), ty::Ref(_, inner, _) if inner.is_str()) {
                    if let Some(bytes) = v.try_to_raw_bytes(tcx) {
                        return J::obj(vec![("k", J::s("str")), ("v", J::s(String::from_utf8_lossy(bytes).to_string()))]);
                    }
                }
                if let Some(si) = v.try_to_leaf() {
                    return scalar_int_json(si, *t);
                }
            }
            J::obj(vec![("k", J::s("tyconst")), ("ty", J::s(ty_str(*t))), ("dbg", J::s(format!("{:?}", cc)))])
        }
    }
}

fn place_json<'tcx>(tcx: TyCtxt<'tcx>, body: &Body<'tcx>, p: &Place<'tcx>) -> J {
    let mut proj = vec![];
    let mut pty = mir::PlaceTy::from_ty(body.local_decls[p.local].ty);
    for e in p.projection.iter() {
        let j = match e {
            ProjectionElem::Deref => J::s("deref"),
            ProjectionElem::Field(f, t) => {
                // name of the field when the base is an ADT
                let mut name = J::Null;
                if let ty::Adt(ad, _) = pty.ty.kind() {
                    let v = match pty.variant_index {
                        Some(v) => Some(v),
                        None if ad.is_struct() => Some(rustc_abi::FIRST_VARIANT),
                        None => None,
                    };
                    if let Some(v) = v {
                        if let Some(fd) = ad.variant(v).fields.get(f) {
                            name = J::s(fd.name.to_string());
                        }
                    }
                }
                J::obj(vec![("f", J::n(f.index())), ("name", name), ("ty", J::s(ty_str(t)))])
            }
            ProjectionElem::Downcast(name, v) => {
                let mut n = name.map(|s| s.to_string());
                if n.is_none() {
                    if let ty::Adt(ad, _) = pty.ty.kind() {
                        n = Some(ad.variant(v).name.to_string());
                    }
                }
                J::obj(vec![("dc", J::n(v.index())), ("name", J::opt(n.map(J::s)))])
            }
            ProjectionElem::Index(l) => J::obj(vec![("index", J::n(l.index()))]),
            ProjectionElem::ConstantIndex { offset, min_length, from_end } => J::obj(vec![
                ("cidx", J::n(offset)),
                ("min_len", J::n(min_length)),
                ("from_end", J::Bool(from_end)),
            ]),
            ProjectionElem::Subslice { from, to, from_end } => {
                J::obj(vec![("sub_from", J::n(from)), ("sub_to", J::n(to)), ("from_end", J::Bool(from_end))])
            }
            ProjectionElem::OpaqueCast(_) => J::s("opaque_cast"),
            ProjectionElem::UnwrapUnsafeBinder(_) => J::s("unwrap_binder"),
        };
        proj.push(j);
        pty = pty.projection_ty(tcx, e);
    }
    J::obj(vec![("l", J::n(p.local.index())), ("p", J::Arr(proj))])
}

fn operand_json<'tcx>(tcx: TyCtxt<'tcx>, body: &Body<'tcx>, o: &Operand<'tcx>, owner: DefId) -> J {
    match o {
        Operand::Copy(p) => J::obj(vec![("k", J::s("copy")), ("pl", place_json(tcx, body, p))]),
        Operand::Move(p) => J::obj(vec![("k", J::s("move")), ("pl", place_json(tcx, body, p))]),
        Operand::Constant(c) => {
            J::obj(vec![("k", J::s("const")), ("ty", J::s(ty_str(c.const_.ty()))), ("c", const_json(tcx, &c.const_, owner))])
        }
        #[allow(unreachable_patterns)]
        _ => J::obj(vec![("k", J::s("other")), ("dbg", J::s(format!("{:?}", o)))]),
    }
}

fn adt_variant_json<'tcx>(tcx: TyCtxt<'tcx>, adt: DefId, vidx: rustc_abi::VariantIdx) -> Vec<(&'static str, J)> {
    let ad = tcx.adt_def(adt);
    vec![
        ("adt", J::s(def_path(tcx, adt))),
        ("variant", J::n(vidx.index())),
        ("vname", J::s(ad.variant(vidx).name.to_string())),
        ("fields", J::arr(ad.variant(vidx).fields.iter().map(|f| J::s(f.name.to_string())))),
    ]
}

fn rvalue_json<'tcx>(tcx: TyCtxt<'tcx>, body: &Body<'tcx>, rv: &Rvalue<'tcx>, owner: DefId) -> J {
    match rv {
        Rvalue::Use(o, ..) => J::obj(vec![("k", J::s("use")), ("op", operand_json(tcx, body, o, owner))]),
        Rvalue::Ref(_, bk, p) => J::obj(vec![
            ("k", J::s("ref")),
            ("mut", J::Bool(matches!(bk, mir::BorrowKind::Mut { .. }))),
            ("bk", J::s(format!("{:?}", bk))),
            ("pl", place_json(tcx, body, p)),
        ]),
        Rvalue::RawPtr(k, p) => {
            J::obj(vec![("k", J::s("rawptr")), ("kind", J::s(format!("{:?}", k))), ("pl", place_json(tcx, body, p))])
        }
        Rvalue::Discriminant(p) => J::obj(vec![("k", J::s("discriminant")), ("pl", place_json(tcx, body, p))]),
        Rvalue::Aggregate(k, ops) => {
            let mut f: Vec<(&str, J)> = vec![("k", J::s("aggregate"))];
            match &**k {
                AggregateKind::Adt(adt, vidx, _, _, active) => {
                    f.push(("agg", J::s("adt")));
                    f.extend(adt_variant_json(tcx, *adt, *vidx));
                    if active.is_some() {
                        f.push(("union", J::Bool(true)));
                    }
                }
                AggregateKind::Tuple => f.push(("agg", J::s("tuple"))),
                AggregateKind::Array(t) => {
                    f.push(("agg", J::s("array")));
                    f.push(("elem_ty", J::s(ty_str(*t))));
                }
                AggregateKind::Closure(d, args) => {
                    f.push(("agg", J::s("closure")));
                    f.push(("def", J::s(def_path(tcx, *d))));
                    f.push(("args", J::arr(args.iter().map(|a| J::s(ty::print::with_no_trimmed_paths!(format!("{}", a)))))));
                }
                other => {
                    f.push(("agg", J::s("other")));
                    f.push(("dbg", J::s(format!("{:?}", other))));
                }
            }
            f.push(("ops", J::arr(ops.iter().map(|o| operand_json(tcx, body, o, owner)))));
            J::obj(f)
        }
        Rvalue::BinaryOp(op, b) => J::obj(vec![
            ("k", J::s("binop")),
            ("op", J::s(format!("{:?}", op))),
            ("a", operand_json(tcx, body, &b.0, owner)),
            ("b", operand_json(tcx, body, &b.1, owner)),
        ]),
        Rvalue::UnaryOp(op, o) => J::obj(vec![
            ("k", J::s("unop")),
            ("op", J::s(format!("{:?}", op))),
            ("a", operand_json(tcx, body, o, owner)),
        ]),
        Rvalue::Cast(kind, o, t) => J::obj(vec![
            ("k", J::s("cast")),
            ("kind", J::s(format!("{:?}", kind))),
            ("op", operand_json(tcx, body, o, owner)),
            ("ty", J::s(ty_str(*t))),
        ]),
        Rvalue::Repeat(o, n) => J::obj(vec![
            ("k", J::s("repeat")),
            ("op", operand_json(tcx, body, o, owner)),
            ("n", J::s(format!("{:?}", n))),
        ]),
        Rvalue::ThreadLocalRef(d) => J::obj(vec![("k", J::s("thread_local_ref")), ("def", J::s(def_path(tcx, *d)))]),
        Rvalue::CopyForDeref(p) => J::obj(vec![("k", J::s("use")), ("op", J::obj(vec![("k", J::s("copy")), ("pl", place_json(tcx, body, p))])), ("deref_copy", J::Bool(true))]),
        other => J::obj(vec![("k", J::s("other")), ("dbg", J::s(format!("{:?}", other)))]),
    }
}

fn callee_json<'tcx>(tcx: TyCtxt<'tcx>, caller: DefId, d: DefId, args: GenericArgsRef<'tcx>) -> J {
    let mut f: Vec<(&str, J)> = vec![
        ("def", J::s(def_path(tcx, d))),
        ("name", J::s(tcx.item_name(d).to_string())),
        ("crate", J::s(tcx.crate_name(d.krate).to_string())),
        ("local", J::Bool(d.is_local())),
        ("args", J::arr(args.iter().map(|a| J::s(ty::print::with_no_trimmed_paths!(format!("{}", a)))))),
        ("full", J::s(ty::print::with_no_trimmed_paths!(tcx.def_path_str_with_args(d, args)))),
    ];
    // trait method?
    if let Some(tr) = tcx.trait_of_assoc(d) {
        f.push(("trait", J::s(def_path(tcx, tr))));
        if let Some(st) = args.types().next() {
            f.push(("self_ty", J::s(ty_str(st))));
        }
    } else if let Some(imp) = tcx.impl_of_assoc(d) {
        let st = tcx.type_of(imp).instantiate_identity().skip_norm_wip();
        f.push(("impl_self_ty", J::s(ty_str(st))));
        if let Some(tr) = tcx.impl_opt_trait_ref(imp) {
            f.push(("impl_trait", J::s(def_path(tcx, tr.skip_binder().def_id))));
        }
    }
    let diverges = tcx.fn_sig(d).instantiate_identity().skip_norm_wip().skip_binder().output().is_never();
    f.push(("diverges", J::Bool(diverges)));
    let tenv = TypingEnv::post_analysis(tcx, caller);
    let resolved = match Instance::try_resolve(tcx, tenv, d, args) {
        Ok(Some(inst)) => {
            let rd = inst.def_id();
            let mut rf: Vec<(&str, J)> = vec![
                ("def", J::s(def_path(tcx, rd))),
                ("local", J::Bool(rd.is_local())),
                ("kind", J::s(format!("{:?}", inst.def).split('(').next().unwrap_or("").to_string())),
            ];
            if let Some(imp) = tcx.impl_of_assoc(rd) {
                let st = tcx.type_of(imp).instantiate_identity().skip_norm_wip();
                rf.push(("impl_self_ty", J::s(ty_str(st))));
            }
            J::obj(rf)
        }
        _ => J::Null,
    };
    f.push(("resolved", resolved));
    J::obj(f)
}

fn block_json<'tcx>(tcx: TyCtxt<'tcx>, body: &Body<'tcx>, bb: mir::BasicBlock, data: &BasicBlockData<'tcx>, owner: DefId) -> J {
    let mut stmts = vec![];
    for st in &data.statements {
        let sp = st.source_info.span;
        match &st.kind {
            StatementKind::Assign(b) => {
                stmts.push(J::obj(vec![
                    ("k", J::s("assign")),
                    ("pl", place_json(tcx, body, &b.0)),
                    ("rv", rvalue_json(tcx, body, &b.1, owner)),
                    ("span", J::s(span_str(tcx, sp))),
                    ("exp", J::Bool(sp.from_expansion())),
                ]));
            }
            StatementKind::SetDiscriminant { place, variant_index } => {
                stmts.push(J::obj(vec![
                    ("k", J::s("set_discriminant")),
                    ("pl", place_json(tcx, body, place)),
                    ("variant", J::n(variant_index.index())),
                ]));
            }
            StatementKind::StorageLive(_)
            | StatementKind::StorageDead(_)
            | StatementKind::Nop
            | StatementKind::FakeRead(..)
            | StatementKind::PlaceMention(..)
            | StatementKind::AscribeUserType(..)
            | StatementKind::Coverage(..)
            | StatementKind::ConstEvalCounter
            | StatementKind::BackwardIncompatibleDropHint { .. } => {}
            StatementKind::Intrinsic(i) => {
                stmts.push(J::obj(vec![("k", J::s("intrinsic")), ("dbg", J::s(format!("{:?}", i)))]));
            }
            other => {
                stmts.push(J::obj(vec![("k", J::s("other")), ("dbg", J::s(format!("{:?}", other)))]));
            }
        }
    }
    let term = data.terminator();
    let sp = term.source_info.span;
    let mut t: Vec<(&str, J)> = vec![];
    match &term.kind {
        TerminatorKind::Goto { target } => {
            t.push(("k", J::s("goto")));
            t.push(("target", J::n(target.index())));
        }
        TerminatorKind::SwitchInt { discr, targets } => {
            t.push(("k", J::s("switch")));
            t.push(("discr", operand_json(tcx, body, discr, owner)));
            t.push(("discr_ty", J::s(ty_str(discr.ty(body, tcx)))));
            t.push(("targets", J::arr(targets.iter().map(|(v, b)| J::arr(vec![J::n(v), J::n(b.index())])))));
            t.push(("otherwise", J::n(targets.otherwise().index())));
        }
        TerminatorKind::Return => t.push(("k", J::s("return"))),
        TerminatorKind::Unreachable => t.push(("k", J::s("unreachable"))),
        TerminatorKind::UnwindResume => t.push(("k", J::s("resume"))),
        TerminatorKind::UnwindTerminate(_) => t.push(("k", J::s("terminate"))),
        TerminatorKind::Drop { place, target, unwind, .. } => {
            t.push(("k", J::s("drop")));
            t.push(("pl", place_json(tcx, body, place)));
            t.push(("target", J::n(target.index())));
            if let mir::UnwindAction::Cleanup(c) = unwind {
                t.push(("unwind", J::n(c.index())));
            }
        }
        TerminatorKind::Call { func, args, destination, target, unwind, .. } => {
            let fty = func.ty(body, tcx);
            if let ty::FnDef(d, ga) = fty.kind() {
                t.push(("k", J::s("call")));
                t.push(("callee", callee_json(tcx, owner, *d, ga)));
            } else {
                t.push(("k", J::s("call_indirect")));
                t.push(("fn_operand", operand_json(tcx, body, func, owner)));
                t.push(("fn_ty", J::s(ty_str(fty))));
            }
            t.push(("args", J::arr(args.iter().map(|a| operand_json(tcx, body, &a.node, owner)))));
            t.push(("dest", place_json(tcx, body, destination)));
            t.push(("target", J::opt(target.map(|b| J::n(b.index())))));
            if let mir::UnwindAction::Cleanup(c) = unwind {
                t.push(("unwind", J::n(c.index())));
            }
        }
        TerminatorKind::Assert { cond, expected, msg, target, unwind } => {
            t.push(("k", J::s("assert")));
            let k = format!("{:?}", msg);
            let kind = k.split(|c: char| c == '(' || c == '{' || c == ' ').next().unwrap_or("").to_string();
            t.push(("kind", J::s(kind)));
            t.push(("cond", operand_json(tcx, body, cond, owner)));
            t.push(("expected", J::Bool(*expected)));
            t.push(("target", J::n(target.index())));
            if let mir::UnwindAction::Cleanup(c) = unwind {
                t.push(("unwind", J::n(c.index())));
            }
            if let mir::AssertKind::BoundsCheck { len, index } = &**msg {
                t.push(("len", operand_json(tcx, body, len, owner)));
                t.push(("index", operand_json(tcx, body, index, owner)));
            }
        }
        TerminatorKind::FalseEdge { real_target, .. } => {
            t.push(("k", J::s("goto")));
            t.push(("target", J::n(real_target.index())));
        }
        TerminatorKind::FalseUnwind { real_target, .. } => {
            t.push(("k", J::s("goto")));
            t.push(("target", J::n(real_target.index())));
        }
        other => {
            t.push(("k", J::s("other")));
            t.push(("dbg", J::s(format!("{:?}", other))));
        }
    }
    t.push(("span", J::s(span_str(tcx, sp))));
    t.push(("exp", J::Bool(sp.from_expansion())));
    J::obj(vec![
        ("id", J::n(bb.index())),
        ("cleanup", J::Bool(data.is_cleanup)),
        ("stmts", J::Arr(stmts)),
        ("term", J::obj(t)),
    ])
}

pub fn fn_json<'tcx>(tcx: TyCtxt<'tcx>, ldid: LocalDefId, eff_pub: bool) -> J {
    let did = ldid.to_def_id();
    let kind = tcx.def_kind(did);
    let body = tcx.optimized_mir(did);
    let mut f: Vec<(&str, J)> = vec![
        ("path", J::s(def_path(tcx, did))),
        ("kind", J::s(format!("{:?}", kind))),
        ("span", J::s(span_str(tcx, tcx.def_span(did)))),
        ("effective_pub", J::Bool(eff_pub)),
    ];
    if matches!(kind, DefKind::Closure) {
        f.push(("parent", J::s(def_path(tcx, tcx.typeck_root_def_id(did)))));
    }
    if matches!(kind, DefKind::Fn | DefKind::AssocFn) {
        f.push(("vis", J::s(format!("{:?}", tcx.visibility(did)))));
        f.push(("name", J::s(tcx.item_name(did).to_string())));
        let sig = tcx.fn_sig(did).instantiate_identity().skip_norm_wip().skip_binder();
        f.push(("inputs", J::arr(sig.inputs().iter().map(|t| J::s(ty_str(*t))))));
        f.push(("output", J::s(ty_str(sig.output()))));
        f.push(("unsafe", J::Bool(!sig.safety().is_safe())));
        let generics = tcx.generics_of(did);
        let mut gs = vec![];
        let mut g = Some(generics);
        while let Some(gg) = g {
            for p in gg.own_params.iter().rev() {
                gs.push(J::s(p.name.to_string()));
            }
            g = gg.parent.map(|p| tcx.generics_of(p));
        }
        gs.reverse();
        f.push(("generics", J::Arr(gs)));
        if let Some(imp) = tcx.impl_of_assoc(did) {
            let st = tcx.type_of(imp).instantiate_identity().skip_norm_wip();
            f.push(("impl_self_ty", J::s(ty_str(st))));
            if let Some(tr) = tcx.impl_opt_trait_ref(imp) {
                let tr = tr.skip_binder();
                f.push(("impl_trait", J::s(def_path(tcx, tr.def_id))));
                f.push(("impl_trait_full", J::s(ty::print::with_no_trimmed_paths!(format!("{}", tr)))));
            }
            f.push(("derived", J::Bool(tcx.is_automatically_derived(imp))));
        } else if let Some(tr) = tcx.trait_of_assoc(did) {
            f.push(("trait_default_of", J::s(def_path(tcx, tr))));
        }
    }
    f.push(("arg_count", J::n(body.arg_count)));
    let mut names: std::collections::HashMap<usize, String> = Default::default();
    for vdi in &body.var_debug_info {
        if let mir::VarDebugInfoContents::Place(p) = &vdi.value {
            if p.projection.is_empty() {
                names.entry(p.local.index()).or_insert(vdi.name.to_string());
            }
        }
    }
    f.push((
        "locals",
        J::arr(body.local_decls.iter_enumerated().map(|(l, d)| {
            J::obj(vec![
                ("id", J::n(l.index())),
                ("ty", J::s(ty_str(d.ty))),
                ("name", J::opt(names.get(&l.index()).map(|s| J::s(s.clone())))),
                ("arg", J::Bool(l.index() >= 1 && l.index() <= body.arg_count)),
                ("mut", J::Bool(d.mutability.is_mut())),
            ])
        })),
    ));
    f.push(("blocks", J::arr(body.basic_blocks.iter_enumerated().map(|(bb, data)| block_json(tcx, body, bb, data, did)))));
    let promoted = tcx.promoted_mir(did);
    f.push((
        "promoted",
        J::arr(promoted.iter_enumerated().map(|(pi, pb)| {
            J::obj(vec![
                ("idx", J::n(pi.index())),
                (
                    "locals",
                    J::arr(pb.local_decls.iter_enumerated().map(|(l, d)| J::obj(vec![("id", J::n(l.index())), ("ty", J::s(ty_str(d.ty)))]))),
                ),
                ("blocks", J::arr(pb.basic_blocks.iter_enumerated().map(|(bb, data)| block_json(tcx, pb, bb, data, did)))),
            ])
        })),
    ));
    J::obj(f)
}

pub fn adts_json<'tcx>(tcx: TyCtxt<'tcx>) -> J {
    let mut out = vec![];
    for id in tcx.hir_crate_items(()).definitions() {
        let d = id.to_def_id();
        if !matches!(tcx.def_kind(d), DefKind::Struct | DefKind::Enum | DefKind::Union) {
            continue;
        }
        let ad = tcx.adt_def(d);
        let generics = tcx.generics_of(d);
        out.push(J::obj(vec![
            ("path", J::s(def_path(tcx, d))),
            ("kind", J::s(format!("{:?}", tcx.def_kind(d)))),
            ("span", J::s(span_str(tcx, tcx.def_span(d)))),
            ("vis", J::s(format!("{:?}", tcx.visibility(d)))),
            ("generics", J::arr(generics.own_params.iter().map(|p| J::s(p.name.to_string())))),
            (
                "variants",
                J::arr(ad.variants().iter_enumerated().map(|(vi, v)| {
                    J::obj(vec![
                        ("idx", J::n(vi.index())),
                        ("name", J::s(v.name.to_string())),
                        (
                            "fields",
                            J::arr(v.fields.iter().map(|fd| {
                                J::obj(vec![
                                    ("name", J::s(fd.name.to_string())),
                                    ("ty", J::s(ty_str(tcx.type_of(fd.did).instantiate_identity().skip_norm_wip()))),
                                ])
                            })),
                        ),
                    ])
                })),
            ),
        ]));
    }
    J::Arr(out)
}

pub fn impls_json<'tcx>(tcx: TyCtxt<'tcx>) -> J {
    let mut out = vec![];
    for id in tcx.hir_crate_items(()).definitions() {
        let d = id.to_def_id();
        if let DefKind::Impl { of_trait } = tcx.def_kind(d) {
            let st = tcx.type_of(d).instantiate_identity().skip_norm_wip();
            let mut f: Vec<(&str, J)> = vec![
                ("self_ty", J::s(ty_str(st))),
                ("span", J::s(span_str(tcx, tcx.def_span(d)))),
                ("derived", J::Bool(tcx.is_automatically_derived(d))),
                ("of_trait", J::Bool(of_trait)),
            ];
            if let Some(tr) = tcx.impl_opt_trait_ref(d) {
                let tr = tr.skip_binder();
                f.push(("trait", J::s(def_path(tcx, tr.def_id))));
                f.push(("trait_full", J::s(ty::print::with_no_trimmed_paths!(format!("{}", tr)))));
            }
            let preds = tcx.predicates_of(d);
            f.push((
                "predicates",
                J::arr(preds.predicates.iter().map(|(p, _)| J::s(ty::print::with_no_trimmed_paths!(format!("{}", p))))),
            ));
            f.push((
                "items",
                J::arr(tcx.associated_item_def_ids(d).iter().map(|i| J::s(tcx.item_name(*i).to_string()))),
            ));
            out.push(J::obj(f));
        }
    }
    J::Arr(out)
}

pub fn traits_json<'tcx>(tcx: TyCtxt<'tcx>) -> J {
    let mut out = vec![];
    for id in tcx.hir_crate_items(()).definitions() {
        let d = id.to_def_id();
        if matches!(tcx.def_kind(d), DefKind::Trait) {
            let preds = tcx.explicit_super_predicates_of(d);
            let mut items = vec![];
            for i in tcx.associated_item_def_ids(d) {
                let mut bounds = vec![];
                if matches!(tcx.def_kind(*i), DefKind::AssocTy) {
                    for (c, _) in tcx.explicit_item_bounds(*i).skip_binder() {
                        bounds.push(J::s(ty::print::with_no_trimmed_paths!(format!("{}", c))));
                    }
                }
                items.push(J::obj(vec![
                    ("name", J::s(tcx.item_name(*i).to_string())),
                    ("kind", J::s(format!("{:?}", tcx.def_kind(*i)))),
                    ("has_default", J::Bool(tcx.defaultness(*i).has_value())),
                    ("bounds", J::Arr(bounds)),
                ]));
            }
            out.push(J::obj(vec![
                ("path", J::s(def_path(tcx, d))),
                ("vis", J::s(format!("{:?}", tcx.visibility(d)))),
                (
                    "super_predicates",
                    J::arr(preds.skip_binder().iter().map(|(p, _)| J::s(ty::print::with_no_trimmed_paths!(format!("{}", p))))),
                ),
                ("items", J::Arr(items)),
            ]));
        }
    }
    J::Arr(out)
}

pub fn statics_json<'tcx>(tcx: TyCtxt<'tcx>) -> J {
    let mut out = vec![];
    for id in tcx.hir_crate_items(()).definitions() {
        let d = id.to_def_id();
        if let DefKind::Static { mutability, .. } = tcx.def_kind(d) {
            out.push(J::obj(vec![
                ("path", J::s(def_path(tcx, d))),
                ("span", J::s(span_str(tcx, tcx.def_span(d)))),
                ("mut", J::Bool(mutability.is_mut())),
                ("thread_local", J::Bool(tcx.is_thread_local_static(d))),
                ("ty", J::s(ty_str(tcx.type_of(d).instantiate_identity().skip_norm_wip()))),
            ]));
        }
    }
    J::Arr(out)
}

pub fn consts_json<'tcx>(tcx: TyCtxt<'tcx>) -> J {
    let mut out = vec![];
    for id in tcx.hir_crate_items(()).definitions() {
        let d = id.to_def_id();
        let k = tcx.def_kind(d);
        let is_assoc_in_impl = matches!(k, DefKind::AssocConst { .. }) && matches!(tcx.def_kind(tcx.parent(d)), DefKind::Impl { .. });
        let is_free = matches!(k, DefKind::Const { .. });
        if !(is_assoc_in_impl || is_free) {
            continue;
        }
        if tcx.generics_of(d).requires_monomorphization(tcx) && !is_assoc_in_impl {
            continue;
        }
        let t = tcx.type_of(d).instantiate_identity().skip_norm_wip();
        let mut f: Vec<(&str, J)> = vec![("path", J::s(def_path(tcx, d))), ("ty", J::s(ty_str(t))), ("span", J::s(span_str(tcx, tcx.def_span(d))))];
        if is_assoc_in_impl {
            let imp = tcx.parent(d);
            f.push(("impl_self_ty", J::s(ty_str(tcx.type_of(imp).instantiate_identity().skip_norm_wip()))));
            if let Some(tr) = tcx.impl_opt_trait_ref(imp) {
                f.push(("impl_trait", J::s(def_path(tcx, tr.skip_binder().def_id))));
            }
            f.push(("name", J::s(tcx.item_name(d).to_string())));
        }
        match tcx.const_eval_poly(d) {
            Ok(v) => f.push(("value", const_json(tcx, &Const::Val(v, t), d))),
            Err(_) => f.push(("value", J::Null)),
        }
        // the initialiser's own MIR (and its promoted bodies), so that tables written as `const X: &[T] = &[..]` can be read
        if let Some(ld) = d.as_local() {
            if !tcx.generics_of(d).requires_monomorphization(tcx) {
                let body = tcx.mir_for_ctfe(ld);
                f.push((
                    "locals",
                    J::arr(body.local_decls.iter_enumerated().map(|(l, dd)| J::obj(vec![("id", J::n(l.index())), ("ty", J::s(ty_str(dd.ty))), ("name", J::Null), ("arg", J::Bool(false)), ("mut", J::Bool(dd.mutability.is_mut()))]))),
                ));
                f.push(("blocks", J::arr(body.basic_blocks.iter_enumerated().map(|(bb, data)| block_json(tcx, body, bb, data, d)))));
                let promoted = tcx.promoted_mir(d);
                f.push((
                    "promoted",
                    J::arr(promoted.iter_enumerated().map(|(pi, pb)| {
                        J::obj(vec![
                            ("idx", J::n(pi.index())),
                            ("locals", J::arr(pb.local_decls.iter_enumerated().map(|(l, dd)| J::obj(vec![("id", J::n(l.index())), ("ty", J::s(ty_str(dd.ty)))])))),
                            ("blocks", J::arr(pb.basic_blocks.iter_enumerated().map(|(bb, data)| block_json(tcx, pb, bb, data, d)))),
                        ])
                    })),
                ));
            }
        }
        out.push(J::obj(f));
    }
    J::Arr(out)
}
