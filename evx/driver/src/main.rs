#![feature(rustc_private)]
extern crate rustc_abi;
extern crate rustc_driver;
extern crate rustc_hir;
extern crate rustc_interface;
extern crate rustc_lint;
extern crate rustc_middle;
extern crate rustc_session;
extern crate rustc_span;

mod facts;
mod json;
mod walk;

use json::J;
use rustc_driver::{Callbacks, Compilation};
use rustc_hir::def::DefKind;
use rustc_middle::ty::TyCtxt;

struct Cb;

fn write_file(dir: &str, name: &str, j: &J) {
    let p = std::path::Path::new(dir).join(name);
    let s = j.to_string();
    std::fs::write(&p, s).unwrap_or_else(|e| panic!("cannot write {:?}: {}", p, e));
}

impl Callbacks for Cb {
    fn after_analysis<'tcx>(&mut self, _c: &rustc_interface::interface::Compiler, tcx: TyCtxt<'tcx>) -> Compilation {
        let out = match std::env::var("EVX_OUT") {
            Ok(o) => o,
            Err(_) => return Compilation::Continue,
        };
        // Only the crate under analysis (when run through cargo as a wrapper, dependencies are compiled by plain rustc).
        let want = std::env::var("EVX_CRATE").unwrap_or_else(|_| "evalexpr".to_string());
        let cname = tcx.crate_name(rustc_hir::def_id::LOCAL_CRATE).to_string();
        if cname != want {
            return Compilation::Continue;
        }
        if tcx.dcx().has_errors().is_some() {
            return Compilation::Continue;
        }
        let eff = tcx.effective_visibilities(());
        let mut fns = vec![];
        for ldid in tcx.mir_keys(()) {
            let did = ldid.to_def_id();
            if !matches!(tcx.def_kind(did), DefKind::Fn | DefKind::AssocFn | DefKind::Closure) {
                continue;
            }
            let eff_pub = eff.is_reachable(*ldid);
            fns.push(facts::fn_json(tcx, *ldid, eff_pub));
        }
        let unsafe_level = {
            let store = rustc_lint::unerased_lint_store(tcx.sess);
            match store.get_lints().iter().find(|l| l.name_lower() == "unsafe_code") {
                Some(l) => format!("{:?}", tcx.lint_level_at_node(l, rustc_hir::CRATE_HIR_ID).level),
                None => "lint-not-found".to_string(),
            }
        };
        let facts = J::obj(vec![
            ("rustc", J::s(option_env!("CFG_VERSION").unwrap_or("nightly").to_string())),
            ("crate", J::obj(vec![("name", J::s(cname.clone())), ("unsafe_code_lint_level", J::s(unsafe_level)), ("unsafe_sites", walk::unsafe_sites(tcx))])),
            ("overflow_checks", J::Bool(tcx.sess.overflow_checks())),
            ("debug_assertions", J::Bool(tcx.sess.opts.debug_assertions)),
            ("adts", facts::adts_json(tcx)),
            ("impls", facts::impls_json(tcx)),
            ("traits", facts::traits_json(tcx)),
            ("statics", facts::statics_json(tcx)),
            ("consts", facts::consts_json(tcx)),
            ("type_walk", walk::type_walk(tcx)),
            ("fns", J::Arr(fns)),
        ]);
        write_file(&out, "facts.json", &facts);
        if std::env::var("EVX_NO_REACH").is_err() {
            let reach = walk::monowalk(tcx);
            write_file(&out, "reach.json", &reach);
        }
        Compilation::Continue
    }
}

fn main() {
    let mut args: Vec<String> = std::env::args().collect();
    // RUSTC_WORKSPACE_WRAPPER passes the real rustc path as argv[1]
    if args.len() > 1 && (args[1].ends_with("rustc") || args[1].ends_with("rustc.exe")) {
        args.remove(1);
    }
    rustc_driver::run_compiler(&args, &mut Cb);
}
