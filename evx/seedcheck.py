#!/usr/bin/env python3
"""seedcheck.py <seed-dir> [--property CNN] [--all]

Confirms an independently produced seeded change (patch.diff + demo.rs) and runs the checks against it:
 1. the patch applies to a scratch copy of /repo's HEAD and the crate compiles;
 2. the repository's own test suite still passes with the patch;
 3. the demonstration fails with the patch and passes without it;
 4. which of the registered checks report a violation on the patched copy (quick tier).
Scratch copies live in a temp dir outside /repo and /verif and are removed."""
import argparse
import json
import os
import re
import shutil
import subprocess
import sys
import tempfile

HERE = os.path.dirname(os.path.abspath(__file__))
ALL = ['C%02d' % i for i in range(1, 17)]


def run(cmd, cwd, env=None):
    r = subprocess.run(cmd, cwd=cwd, env=env, capture_output=True, text=True)
    return r.returncode, r.stdout + r.stderr


def tests_summary(out):
    res = re.findall(r'test result: \w+\. (\d+) passed; (\d+) failed', out)
    return sum(int(a) for a, b in res), sum(int(b) for a, b in res)


def main():
    ap = argparse.ArgumentParser()
    ap.add_argument('seed')
    ap.add_argument('--property')
    ap.add_argument('--all', action='store_true')
    a = ap.parse_args()
    seed = os.path.abspath(a.seed)
    patch = os.path.join(seed, 'patch.diff')
    demo = os.path.join(seed, 'demo.rs')
    d = tempfile.mkdtemp(prefix='evx-seed-')
    root = os.path.join(d, 'repo')
    report = {'seed': os.path.basename(seed)}
    try:
        shutil.copytree('/repo', root, ignore=shutil.ignore_patterns('target', 'benches'))
        run(['git', 'checkout', '-q', '--', '.'], root)
        env = dict(os.environ, CARGO_NET_OFFLINE='true', CARGO_TARGET_DIR=os.path.join(d, 'target'))
        feat = ['--features', 'serde'] if 'feature = "serde"' in open(demo).read() else []
        report['demo_features'] = feat
        # demo without the patch
        shutil.copy(demo, os.path.join(root, 'tests', 'seed_demo.rs'))
        rc, out = run(['cargo', 'test', '--offline', '--test', 'seed_demo'] + feat, root, env)
        report['demo_without_patch'] = 'passes' if rc == 0 else 'FAILS'
        rc, out = run(['git', 'apply', '--whitespace=nowarn', patch], root)
        report['patch_applies'] = rc == 0
        if rc != 0:
            report['apply_error'] = out[-400:]
            print(json.dumps(report, indent=1))
            return 1
        rc, out = run(['cargo', 'test', '--offline', '--test', 'seed_demo'] + feat, root, env)
        report['demo_with_patch'] = 'fails' if rc != 0 else 'PASSES'
        os.remove(os.path.join(root, 'tests', 'seed_demo.rs'))
        rc, out = run(['cargo', 'test', '--offline'] + feat, root, env)
        p, f = tests_summary(out)
        report['baseline_with_patch'] = 'passes (%d passed, %d failed)' % (p, f) if rc == 0 and f == 0 else 'FAILS (%d passed, %d failed)' % (p, f)
        shutil.rmtree(os.path.join(d, 'target'), ignore_errors=True)
        # checks
        pids = ALL if a.all or not a.property else [a.property.upper()]
        env2 = dict(os.environ, EVX_REPO=root, EVX_NO_EXTRAS='1')
        caught = {}
        for pid in pids:
            r = subprocess.run([sys.executable, os.path.join(HERE, 'check.py'), pid, '--no-evidence'], env=env2, capture_output=True, text=True)
            rules = sorted(set(re.findall(r'rule=(\S+) instance=(.+?) kind=', r.stdout)))
            caught[pid] = dict(rc=r.returncode, reports=['%s %s' % x for x in rules][:8])
        report['checks'] = {k: v for k, v in caught.items() if v['rc'] != 0}
        report['silent'] = [k for k, v in caught.items() if v['rc'] == 0]
        print(json.dumps(report, indent=1))
        return 0
    finally:
        shutil.rmtree(d, ignore_errors=True)


if __name__ == '__main__':
    sys.exit(main())
