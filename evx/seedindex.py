#!/usr/bin/env python3
"""writes /verif/seeded/README.md from the meta.json files"""
import glob, json, os
root = os.path.join(os.path.dirname(os.path.dirname(os.path.abspath(__file__))), 'seeded')
rows = []
for m in sorted(glob.glob(os.path.join(root, '*', 'meta.json'))):
    j = json.load(open(m))
    name = os.path.basename(os.path.dirname(m))
    checks = j['results'].get('checks', {})
    rep = '; '.join('%s: %s' % (k, ', '.join(sorted({r.split(' ')[0] for r in v['reports']}))) for k, v in sorted(checks.items())) or '**none**'
    rows.append((name, j['breaks_property'], 'yes' if j['confirmed'] else 'NO', rep, j.get('history', '')))
with open(os.path.join(root, 'README.md'), 'w') as fh:
    fh.write('# Independently seeded changes\n\nEach directory holds `patch.diff` (apply with `git -C /repo apply <file>`, undo with `git -C /repo checkout -- .`), `demo.rs` '
             '(copy to `tests/seed_demo.rs`), `author_notes.md` and `meta.json` (what was run, results of every check on the patched tree).\n'
             'Produced by sub-agents that saw only the property text and a scratch worktree of /repo. Confirmed = patch applies to HEAD, the repository test suite passes with it, '
             'the demonstration fails with it and passes without it (`evx/seedcheck.py`).\n\n| seed | breaks | confirmed | reported by (check: rules) | history |\n|---|---|---|---|---|\n')
    for r in rows:
        fh.write('| `%s` | %s | %s | %s | %s |\n' % r)
print(open(os.path.join(root, 'README.md')).read())
