#!/usr/bin/env python3
"""writes /verif/seeded/README.md from the meta.json files"""
import glob, json, os
root = os.path.join(os.path.dirname(os.path.dirname(os.path.abspath(__file__))), 'seeded')
rows = []
for m in sorted(glob.glob(os.path.join(root, '*', 'meta.json'))):
    j = json.load(open(m))
    name = os.path.basename(os.path.dirname(m))
    checks = j['results'].get('checks', {})
    rep = '; '.join('%s: %s' % (k, ', '.join(sorted({r.split(' ')[0] for r in v['reports']}))) for k, v in sorted(checks.items())) or '**none**'
    rows.append((name, j['breaks_property'], 'yes' if j['confirmed'] else 'NO', rep, j.get('history', '')))
with open(os.path.join(root, 'README.md'), 'w') as fh:
    fh.write('# Independently seeded changes\n\nEach directory holds `patch.diff` (apply with `git -C /repo apply <file>`, undo with `git -C /repo checkout -- .`), `demo.rs` '
             '(copy to `tests/seed_demo.rs`), `author_notes.md` and `meta.json` (what was run, results of every check on the patched tree).\n'
             'Produced by sub-agents that saw only the property text and a scratch worktree of /repo. Confirmed = patch applies to HEAD, the repository test suite passes with it, '
             'the demonstration fails with it and passes without it (`evx/seedcheck.py`).\n\n| seed | breaks | confirmed | reported by (check: rules) | history |\n|---|---|---|---|---|\n')
    for r in rows:
        fh.write('| `%s` | %s | %s | %s | %s |\n' % r)
print(open(os.path.join(root, 'README.md')).read())

# ---- behaviour-preserving refactorings (negative controls)
rroot = os.path.join(os.path.dirname(root), 'refactors')
if os.path.isdir(rroot):
    import re
    rrows = []
    for m in sorted(glob.glob(os.path.join(rroot, '*', 'meta.json'))):
        j = json.load(open(m))
        name = os.path.basename(os.path.dirname(m))
        diff = open(os.path.join(os.path.dirname(m), 'patch.diff')).read()
        files = sorted(set(re.findall(r'^\+\+\+ b/(\S+)', diff, re.M)))
        fa = j.get('first_run_alarms') or {}
        rep = '; '.join('%s: %s' % (k, ', '.join(sorted({r.split(' ')[0] for r in v}))) for k, v in sorted(fa.items())) or 'none'
        rrows.append((name, j.get('anchored_property', ''), ', '.join(f.replace('src/', '') for f in files), rep, j.get('history', '')))
    with open(os.path.join(rroot, 'README.md'), 'w') as fh:
        fh.write('# Independent behaviour-preserving refactorings (negative controls)\n\nEach directory holds `patch.diff`, the author\'s `author_notes.md` (why behaviour is unchanged) and `meta.json`. '
                 'Produced by sub-agents that saw only a property\'s text and a scratch worktree of /repo; each builds and passes `cargo test` with and without `--features serde` (`evx/refcheck.py`). '
                 'Every registered check must stay silent on every one of them; they are part of the mutant self-test (`evx/mutate.py`, thorough tier). '
                 'The column "first run" lists the checks that raised a false alarm when the refactoring was first tried, "history" what was changed in the rule.\n\n'
                 '| refactoring | anchors of | files | false alarms on first run | history |\n|---|---|---|---|---|\n')
        for r in rrows:
            fh.write('| `%s` | %s | %s | %s | %s |\n' % r)
