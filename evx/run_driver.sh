#!/bin/sh
# usage: run_driver.sh <outdir> [extra rustc args]   -- default feature set, direct rustc invocation
set -e
OUT=$1; shift
SYS=$(rustc +nightly --print sysroot)
LD_LIBRARY_PATH=$SYS/lib EVX_OUT=$OUT EVX_REPO_ROOT=/repo /verif/evx/driver/target/release/evx-driver /repo/src/lib.rs --crate-type lib --edition 2021 --crate-name evalexpr --sysroot $SYS -C overflow-checks=on -C debug-assertions=on -Zmir-opt-level=0 --emit=metadata -o $OUT/libevalexpr.rmeta -Awarnings "$@"
