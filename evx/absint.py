"""A small path-sensitive abstract interpreter over exported MIR.

Domain: known constant / known aggregate (enum variant, tuple) / symbolic token / application term / unknown.
It is used (a) to *tabulate* total functions of an enum kind (precedence, arity, predicates, Display symbols)
for every variant, and (b) to compute the abstract result of small wrapper functions for each case of a
case-split on their callee's result (wrapper matrix, context methods).  It follows the code's own control
flow (switchInt on known discriminants/constants; unknown conditions fork) and never executes anything.

Values:
  ('c', v)                      constant (int/bool/str/char or ('float', bits))
  ('adt', path, idx, name, fs)  enum/struct value with abstract fields
  ('tuple', fs)
  ('sym', name)                 opaque token (a parameter, a payload)
  ('app', callee, args)         result of an uninterpreted call
  ('proj', base, projs)         projection out of an opaque value
  ('fn', def) / ('assoc', def)  function item / associated constant
  ('unk',)
"""
from mirlib import op_place, op_const, path_endswith, callee_resolved, resolve_place, short

UNK = ('unk',)


def C(v):
    return ('c', v)


def SYM(n):
    return ('sym', n)


def ADT(adt, idx, vname, fields):
    return ('adt', adt, idx, vname, tuple(fields))


def is_const(v):
    return v[0] == 'c'


def is_adt(v, suffix=None, vname=None):
    return v[0] == 'adt' and (suffix is None or path_endswith(v[1], suffix)) and (vname is None or v[3] == vname)


def join(a, b):
    return a if a == b else UNK


def OK(x):
    return ADT('std::result::Result', 0, 'Ok', [x])


def ERR(x):
    return ADT('std::result::Result', 1, 'Err', [x])


def SOME(x):
    return ADT('std::option::Option', 1, 'Some', [x])


NONE = ADT('std::option::Option', 0, 'None', [])


# std functions whose meaning is selected by a type parameter: the parameter is kept in the application term
TYPE_DIRECTED = {'parse', 'into', 'from', 'try_into', 'try_from', 'default', 'collect', 'sum', 'product', 'from_str'}


class Budget(Exception):
    pass


SPLIT_COMBINATORS = {'map', 'and_then', 'map_err', 'or_else', 'unwrap_or', 'unwrap_or_else', 'ok_or', 'ok_or_else', 'map_or', 'map_or_else', 'is_some_and', 'is_ok_and', 'is_none_or', 'ok', 'err'}


class Fork:
    def __init__(self, values, alts=None):
        """values: alternative results; alts (optional, parallel to values): (extra effect, (decided key, decision)) per alternative;
        a value may itself be ('paths', [...])"""
        self.values = list(values)
        self.alts = alts


class Stop:
    """returned by a hook to end the current path at this call (recorded as (('stop', value), effects))"""
    def __init__(self, value=None):
        self.value = value


def definitely_different(a, b):
    """two abstract values that cannot be equal under derived structural equality: different variants of one enum, different constants,
    or the same variant / tuple shape with some pair of components that cannot be equal"""
    if a[0] == 'c' and b[0] == 'c':
        return a[1] != b[1]
    if a[0] == 'adt' and b[0] == 'adt' and a[1] == b[1]:
        if a[2] != b[2]:
            return True
        return len(a[4]) == len(b[4]) and any(definitely_different(x, y) for x, y in zip(a[4], b[4]))
    if a[0] == 'tuple' and b[0] == 'tuple' and len(a[1]) == len(b[1]):
        return any(definitely_different(x, y) for x, y in zip(a[1], b[1]))
    return False


def fully_known(v):
    if v[0] == 'c':
        return True
    if v[0] == 'adt':
        return all(fully_known(x) for x in v[4])
    if v[0] == 'tuple':
        return all(fully_known(x) for x in v[1])
    return False


def fmt(v, depth=0):
    k = v[0]
    if k == 'c':
        return repr(v[1])
    if k == 'adt':
        short = v[1].split('::')[-1]
        if not v[4]:
            return '%s::%s' % (short, v[3])
        return '%s::%s(%s)' % (short, v[3], ', '.join(fmt(x, depth + 1) for x in v[4]))
    if k == 'tuple':
        return '(%s)' % ', '.join(fmt(x, depth + 1) for x in v[1])
    if k == 'sym':
        return '$' + v[1]
    if k == 'app':
        return '%s(%s)' % (v[1], ', '.join(fmt(x, depth + 1) for x in v[2]))
    if k == 'proj':
        return '%s.%s' % (fmt(v[1], depth + 1), '.'.join(str(p) for p in v[2]))
    if k == 'fn':
        return 'fn:' + v[1]
    if k == 'assoc':
        return 'assoc:' + v[1]
    return '?'


def _pj(a, path):
    return ('proj', a[1], a[2] + path) if a[0] == 'proj' else ('proj', a, path)


def P_OK(a):
    """payload of an opaque Result `a` on its Ok side (the term a `match` / `?` / combinator produces)"""
    return _pj(a, ('as Ok', '0'))


def P_ERR(a):
    return _pj(a, ('as Err', '0'))


def P_SOME(a):
    return _pj(a, ('as Some', '0'))


def expand_results(rets):
    """canonical form of a set of returned Result values: an opaque Result x is the pair Ok(P_OK(x)) / Err(P_ERR(x)), so that
    `f(x)` in tail position, `Ok(f(x)?)` and `match f(x) { Ok(v) => Ok(v), Err(e) => Err(e) }` compare equal"""
    out = []
    for r in rets:
        if r[0] in ('app', 'proj', 'sym'):
            out += [OK(P_OK(r)), ERR(P_ERR(r))]
        else:
            out.append(r)
    return out


class Otherwise(tuple):
    """the `otherwise` edge of a switch: equal to SYM('otherwise'), and remembers the values the edge excludes"""
    def __new__(cls, excluded=()):
        o = tuple.__new__(cls, ('sym', 'otherwise'))
        o.excluded = frozenset(excluded)
        return o

    def __reduce__(self):
        return (Otherwise, (tuple(self.excluded),))


def apps(v, out=None):
    """all application terms inside an abstract value: list of (name, args)"""
    if out is None:
        out = []
    if v[0] == 'app':
        out.append((v[1], v[2]))
        for x in v[2]:
            if isinstance(x, tuple):
                apps(x, out)
    elif v[0] == 'adt':
        for x in v[4]:
            apps(x, out)
    elif v[0] == 'tuple':
        for x in v[1]:
            apps(x, out)
    elif v[0] == 'proj':
        apps(v[1], out)
    return out


def subst(v, old, new):
    """replace every occurrence of the abstract value `old` in `v` by `new` (used to apply an equality a path established)"""
    if v == old:
        return new
    k = v[0]
    if k == 'adt':
        return (v[0], v[1], v[2], v[3], tuple(subst(x, old, new) for x in v[4]))
    if k == 'tuple':
        return ('tuple', tuple(subst(x, old, new) for x in v[1]))
    if k == 'app':
        return ('app', v[1], tuple(subst(x, old, new) if isinstance(x, tuple) else x for x in v[2]))
    if k == 'proj':
        return ('proj', subst(v[1], old, new), v[2])
    return v


def has_subterm(v, sub):
    """structural containment of the abstract value `sub` in `v` (never compare formatted strings for this)"""
    if v == sub:
        return True
    k = v[0]
    if k == 'adt':
        return any(has_subterm(x, sub) for x in v[4])
    if k == 'tuple':
        return any(has_subterm(x, sub) for x in v[1])
    if k == 'app':
        return any(has_subterm(x, sub) for x in v[2] if isinstance(x, tuple))
    if k == 'proj':
        # a projection path contains every object along the way: x.a.b contains x.a
        if sub[0] == 'proj' and sub[1] == v[1] and v[2][:len(sub[2])] == sub[2]:
            return True
        return has_subterm(v[1], sub)
    return False


class Interp:
    def __init__(self, prog, hook=None, max_steps=200000, max_depth=6, loop_bound=2, opaque=None, record_backedge=False, split_opaque=True, vec_model=False, const_chars=False):
        """hook(interp, fn, term, args) -> None | value | Fork([...]); opaque: predicate on callee Fn -> do not descend"""
        self.prog = prog
        self.hook = hook
        self.opaque = opaque
        self.max_steps = max_steps
        self.max_depth = max_depth
        self.loop_bound = loop_bound
        self.steps = 0
        self.serial = 0
        self.record_backedge = record_backedge
        self.split_opaque = split_opaque
        self.vec_model = vec_model
        self.const_chars = const_chars
        # generic parameter name -> concrete type (as printed by rustc) of the instantiation currently being interpreted; one frame
        # per local callee entered with known generic arguments. Used to dispatch a trait method called on a type parameter.
        self.tyenv = [{}]

    # -- type-directed dispatch inside generic bodies
    @staticmethod
    def _norm_ty(s):
        import re
        return re.sub(r"\s+", ' ', re.sub(r"'\w+\s*", '', s)).strip()

    def _subst_ty(self, s):
        import re
        env = self.tyenv[-1]
        if not env or not s:
            return s
        return re.sub(r"(?<![\w:])(%s)(?![\w])" % '|'.join(re.escape(k) for k in sorted(env, key=len, reverse=True)), lambda m: env[m.group(1)], s)

    def _unify_ty(self, pattern, concrete, params):
        """bindings of the generic `params` that make the printed type `pattern` equal to `concrete` (lifetimes ignored), or None"""
        import re
        pat, con = self._norm_ty(pattern), self._norm_ty(concrete)
        params = [p_ for p_ in params if not p_.startswith("'")]
        if not params:
            return {} if pat == con else None
        rx, pos, seen = '', 0, []
        for m in re.finditer(r"(?<![\w:])(%s)(?![\w])" % '|'.join(re.escape(k) for k in sorted(params, key=len, reverse=True)), pat):
            rx += re.escape(pat[pos:m.start()])
            nm = m.group(1)
            if nm in seen:
                rx += '(?P=g%d)' % seen.index(nm)
            else:
                rx += '(?P<g%d>.+)' % len(seen)
                seen.append(nm)
            pos = m.end()
        rx += re.escape(pat[pos:])
        m = re.fullmatch(rx, con)
        if m is None:
            return None
        out = {nm: m.group('g%d' % i) for i, nm in enumerate(seen)}
        # a binding must be a balanced type expression
        for v_ in out.values():
            if v_.count('<') != v_.count('>') or v_.count('(') != v_.count(')'):
                return None
        return out

    def _callee_tyenv(self, c, target):
        """the generic arguments `target` is entered with at this call, when they can be read off the call"""
        ga = [self._subst_ty(a) for a in (c.get('args') or [])]
        gens = [g_ for g_ in (target.j.get('generics') or [])]
        if not gens:
            return {}
        if target.j.get('impl_trait') and c.get('trait') and ga and target.j.get('impl_self_ty'):
            b = self._unify_ty(target.j['impl_self_ty'], ga[0], gens)
            return b or {}
        if len(ga) == len(gens):
            return {g_: a for g_, a in zip(gens, ga) if not g_.startswith("'")}
        return {}

    # -- values of places / operands
    def place_val(self, env, pl):
        v = env.get(pl['l'], UNK)
        return self.project(v, pl['p'], env)

    def project(self, v, projs, env=None):
        for p in projs:
            if p == 'deref':
                continue
            if isinstance(p, dict) and 'dc' in p:
                if v[0] in ('sym', 'app', 'proj'):
                    v = ('proj', v[1], v[2] + ('as ' + str(p.get('name') or p['dc']),)) if v[0] == 'proj' else ('proj', v, ('as ' + str(p.get('name') or p['dc']),))
                continue
            if isinstance(p, dict) and 'f' in p:
                if v[0] == 'adt' and p['f'] < len(v[4]):
                    v = v[4][p['f']]
                elif v[0] == 'tuple' and p['f'] < len(v[1]):
                    v = v[1][p['f']]
                elif v[0] in ('sym', 'app'):
                    v = ('proj', v, (p.get('name') or p['f'],))
                elif v[0] == 'proj':
                    v = ('proj', v[1], v[2] + (p.get('name') or p['f'],))
                else:
                    v = UNK
                continue
            if isinstance(p, dict) and 'cidx' in p:
                if v[0] == 'tuple' and not p['from_end'] and p['cidx'] < len(v[1]):
                    v = v[1][p['cidx']]
                elif v[0] in ('sym', 'app'):
                    v = ('proj', v, ('[%d]' % p['cidx'],))
                else:
                    v = UNK
                continue
            if isinstance(p, dict) and 'index' in p:
                iv = env.get(p['index'], UNK) if env is not None else UNK
                tag = '[%s]' % (iv[1],) if iv[0] == 'c' else '[_]'
                if v[0] == 'tuple' and iv[0] == 'c' and isinstance(iv[1], int) and iv[1] < len(v[1]):
                    v = v[1][iv[1]]
                elif v[0] in ('sym', 'app'):
                    v = ('proj', v, (tag,))
                elif v[0] == 'proj':
                    v = ('proj', v[1], v[2] + (tag,))
                else:
                    v = UNK
                continue
            v = UNK
        return v

    def op_val(self, fn, env, op):
        pl = op_place(op)
        if pl is not None:
            return self.place_val(env, pl)
        c = op_const(op)
        if c is None:
            return UNK
        if c['k'] == 'other' and op.get('k') == 'const' and op['c'].get('k') == 'unevaluated' and op['c'].get('def') and op['c'].get('promoted') is None:
            # a named constant whose evaluated value the exporter could not decode (a slice/array table): read its initialiser
            v = self.named_const(op['c']['def'])
            if v is not None:
                return v
        if c['k'] in ('int', 'bool', 'char', 'str'):
            return C(c['v'])
        if c['k'] == 'float':
            return ('c', ('float', c['bits']))
        if c['k'] == 'zst':
            return ('tuple', ())
        if c['k'] == 'fn':
            r_ = c.get('resolved')
            if r_ and self.prog.by_path.get(c['def']) is None and self.prog.by_path.get(r_) is not None:
                # a trait method named as a function item resolves to a crate impl: the same function a direct call reaches
                return ('fn', r_)
            return ('fn', c['def'])
        if c['k'] == 'unevaluated' and c.get('promoted') is not None:
            return self.promoted(fn, c['promoted'])
        if c['k'] == 'unevaluated':
            v = self.named_const(c['def'])
            return v if v is not None else ('assoc', c['def'])
        return UNK

    def named_const(self, path):
        """value of a crate constant whose initialiser's MIR was exported (tables such as `const ROLES: &[Role] = &[..]`), by
        interpreting that initialiser; None when it is not available or not a single value"""
        cache = self.prog.__dict__.setdefault('_const_vals', {})
        if path in cache:
            return cache[path]
        cache[path] = None
        from mirlib import Fn
        for cj in self.prog.facts.get('consts') or []:
            if cj.get('path') == path and cj.get('blocks'):
                if cj.get('impl_self_ty'):
                    break  # associated constants are read through their evaluated value by the rules that need them
                j = dict(path='const ' + path, kind='Const', span=cj.get('span'), blocks=cj['blocks'], locals=cj['locals'], arg_count=0, name=None, promoted=cj.get('promoted') or [])
                try:
                    ps = Interp(self.prog, max_steps=20000).paths(Fn(j), [])
                except Exception:
                    ps = []
                vals = [p[0] for p in ps if p[0] != ('diverge',)]
                if len(vals) == 1 and fully_known(vals[0]):
                    cache[path] = vals[0]
                break
        return cache[path]

    def promoted(self, fn, idx):
        for p in fn.j.get('promoted', []):
            if p['idx'] == idx:
                env = {}
                for blk in p['blocks']:
                    for st in blk['stmts']:
                        if st['k'] == 'assign' and not st['pl']['p']:
                            env[st['pl']['l']] = self.rvalue(fn, env, st['rv'])
                return env.get(0, UNK)
        return UNK

    def rvalue(self, fn, env, rv):
        k = rv['k']
        if k == 'use':
            return self.op_val(fn, env, rv['op'])
        if k == 'ref':
            return self.place_val(env, rv['pl'])
        if k == 'discriminant':
            v = self.place_val(env, rv['pl'])
            if v[0] == 'adt':
                return C(v[2])
            if v[0] in ('sym', 'app', 'proj'):
                return ('app', 'discriminant', (v,))
            return UNK
        if k == 'aggregate':
            ops = [self.op_val(fn, env, o) for o in rv['ops']]
            if rv['agg'] == 'adt':
                return ADT(rv['adt'], rv['variant'], rv['vname'], ops)
            if rv['agg'] in ('tuple', 'array'):
                return ('tuple', tuple(ops))
            if rv['agg'] == 'closure':
                return ('closure', rv['def'], tuple(ops))
            return UNK
        if k == 'binop':
            a = self.op_val(fn, env, rv['a'])
            b = self.op_val(fn, env, rv['b'])
            op = rv['op']
            if is_const(a) and is_const(b):
                x, y = a[1], b[1]
                try:
                    if op == 'Eq':
                        return C(x == y)
                    if op == 'Ne':
                        return C(x != y)
                    if op == 'Lt':
                        return C(x < y)
                    if op == 'Le':
                        return C(x <= y)
                    if op == 'Gt':
                        return C(x > y)
                    if op == 'Ge':
                        return C(x >= y)
                    if op in ('Add', 'Sub', 'Mul', 'AddWithOverflow', 'SubWithOverflow', 'MulWithOverflow') and isinstance(x, (int, bool)) and isinstance(y, (int, bool)):
                        xi, yi = int(x), int(y)
                        r = xi + yi if op.startswith('Add') else (xi - yi if op.startswith('Sub') else xi * yi)
                        if op.endswith('WithOverflow'):
                            return ('tuple', (C(r), C(not (-2 ** 63 <= r < 2 ** 64))))
                        return C(r)
                    if op == 'BitAnd' and isinstance(x, bool):
                        return C(x and y)
                    if op == 'BitOr' and isinstance(x, bool):
                        return C(x or y)
                except TypeError:
                    return UNK
            return ('app', 'binop:' + op, (a, b))
        if k == 'unop':
            a = self.op_val(fn, env, rv['a'])
            if rv['op'] == 'Not' and is_const(a) and isinstance(a[1], bool):
                return C(not a[1])
            if rv['op'] == 'PtrMetadata' and a[0] == 'tuple':
                return C(len(a[1]))  # length of a slice whose elements are known (slice patterns `[a, b]`)
            return ('app', 'unop:' + rv['op'], (a,))
        if k == 'cast':
            return self.op_val(fn, env, rv['op'])
        if k == 'len':
            v = self.place_val(env, rv['pl'])
            return C(len(v[1])) if v[0] == 'tuple' else ('app', 'len', (v,))
        return UNK

    # -- calls: returns a value or Fork, or a list of (value, effects) paths from a local callee
    def call(self, fn, env, t, depth):
        c = t['callee']
        args = [self.op_val(fn, env, a) for a in t['args']]
        name = c['name']
        d = c['def']
        r = callee_resolved(t)
        if self.hook is not None:
            h = self.hook(self, fn, t, args)
            if h is not None:
                return h, args
        tr = c.get('trait') or ''
        # opt-in: growable vectors built in this body are concrete element lists (Vec::new / with_capacity, then push on the local)
        if self.vec_model and not c.get('local') and ('vec::Vec' in d or (name == 'extend' and path_endswith(tr, 'iter::Extend'))):
            if name in ('new', 'with_capacity') and len(args) <= 1:
                return ('tuple', ()), args
            if name in ('push', 'extend') and len(args) == 2 and args[0][0] == 'tuple' and (name == 'push' or is_adt(args[1], 'option::Option') or args[1][0] == 'tuple'):
                if name == 'extend':
                    add = ((args[1][4][0],) if args[1][3] == 'Some' else ()) if args[1][0] == 'adt' else args[1][1]
                else:
                    add = (args[1],)
                pl = op_place(t['args'][0])
                root = resolve_place(fn, pl) if pl is not None else None
                if root is not None and not root['p'] and env.get(root['l'], UNK) == args[0]:
                    env[root['l']] = ('tuple', args[0][1] + tuple(add))
                    # the `&mut` local that was passed sees the same vector
                    if pl is not None and not pl['p']:
                        env[pl['l']] = env[root['l']]
                    return ('tuple', ()), args
        # `v.extend([a, b])` on a vector that is not a concrete element list (a symbolic receiver, a field of one) is `v.push(a); v.push(b)`:
        # the call is followed by one synthesized push effect per element, in order, so that rules which look at what is pushed where see
        # the same thing for both spellings
        if not c.get('local') and name == 'extend' and path_endswith(tr, 'iter::Extend') and (c.get('self_ty') or '').startswith('std::vec::Vec<') \
                and len(args) == 2 and args[0][0] != 'tuple' and args[1][0] == 'tuple' and (c.get('args') or [''])[-1].startswith('['):
            pushes = []
            nv = dict(env.get('__vec_last') or {})
            for el in args[1][1]:
                pushes.append(('std::vec::Vec::<T, A>::push', 'std::vec::Vec::<T, A>::push', (args[0], el), t['span'], ('tuple', ())))
                nv[args[0]] = el
            env['__vec_last'] = nv
            return ('paths', [(('tuple', ()), tuple(pushes))]), args
        if self.vec_model and not c.get('local') and 'vec::Vec' in d and name in ('remove', 'swap_remove', 'pop') and args and args[0][0] == 'tuple' \
                and (name == 'pop' or (len(args) == 2 and args[1][0] == 'c' and isinstance(args[1][1], int))):
            el = list(args[0][1])
            pl = op_place(t['args'][0])
            root = resolve_place(fn, pl) if pl is not None else None
            if root is not None and not root['p'] and env.get(root['l'], UNK) == args[0]:
                if name == 'pop':
                    res_ = SOME(el.pop()) if el else NONE
                elif 0 <= args[1][1] < len(el):
                    k_ = args[1][1]
                    if name == 'swap_remove':
                        res_ = el[k_]
                        el[k_] = el[-1]
                        el.pop()
                    else:
                        res_ = el.pop(k_)
                else:
                    res_ = None
                if res_ is not None:
                    env[root['l']] = ('tuple', tuple(el))
                    if pl is not None and not pl['p']:
                        env[pl['l']] = env[root['l']]
                    return res_, args
        # `iter.map(f)` over a concrete element list, collected: f is applied to the elements in order; collecting into
        # Result<Vec<_>, _> / Option<Vec<_>> stops at the first Err / None and returns it (std: GenericShunt)
        if not c.get('local') and path_endswith(tr, 'iter::Iterator') and depth < self.max_depth:
            if name == 'map' and len(args) == 2 and args[0][0] == 'iter' and args[1][0] in ('closure', 'fn') and (env.get('__iter') or {}).get(args[0][1], 0) == 0:
                self.serial += 1
                return ('itermap', self.serial, args[0][2], args[1]), args
            if name == 'collect' and len(args) == 1 and args[0][0] == 'itermap':
                into = (c.get('args') or [''])[-1]
                mode = 'result' if into.startswith('std::result::Result<std::vec::Vec<') else ('vec' if into.startswith('std::vec::Vec<') else None)
                if mode is not None:
                    res = self._collect_map(args[0][2], 0, args[0][3], depth, mode, ())
                    if res is not None:
                        return ('paths', res), args
        # std Vec model (path-local, kept in env): the last element after push(v, x) is x until v is handed out mutably again
        if not c.get('local'):
            vl = env.get('__vec_last') or {}
            if name == 'push' and len(args) == 2 and 'vec::Vec' in d:
                nv = dict(vl)
                nv[args[0]] = args[1]
                env['__vec_last'] = nv
            elif name in ('last', 'last_mut') and len(args) == 1 and args[0] in vl:
                return SOME(vl[args[0]]), args
            elif vl and name not in ('len', 'is_empty', 'deref', 'deref_mut', 'iter', 'get', 'first', 'last', 'last_mut', 'as_slice', 'clone'):
                mut_args = set()
                for a, av in zip(t['args'], args):
                    pl = op_place(a)
                    if pl is not None and not pl['p'] and fn.locals[pl['l']]['ty'].startswith('&mut'):
                        mut_args.add(av)
                if any(k in mut_args for k in vl):
                    env['__vec_last'] = {k: v for k, v in vl.items() if k not in mut_args}
            if name in ('unwrap', 'expect') and args and is_adt(args[0], 'option::Option', 'Some') and 'option::Option' in d:
                return args[0][4][0], args
            if name in ('unwrap', 'expect') and args and args[0][0] in ('app', 'proj', 'sym') and 'option::Option' in d \
                    and (env.get('__decided') or {}).get(('app', 'discriminant', (args[0],))) == ('is', 1):
                # the path already established that this opaque Option is Some
                return P_SOME(args[0]), args
            # peek-then-pop: `v.last()` observed, then `v.pop()` with no mutation of v in between removes exactly the observed element
            pk = env.get('__vec_peek') or {}
            if name == 'last' and len(args) == 1 and ('slice' in d or 'vec::Vec' in d) and args[0][0] in ('sym', 'proj') and args[0] not in vl:
                self.serial += 1
                term = ('app', '%s#%d' % (r or d, self.serial), tuple(args))  # one term per observation: the vector may change between two
                np_ = dict(pk)
                np_[args[0]] = term
                env['__vec_peek'] = np_
                return term, args
            if name == 'pop' and len(args) == 1 and 'vec::Vec' in d and args[0] in pk:
                term = pk[args[0]]
                env['__vec_peek'] = {k: v for k, v in pk.items() if k != args[0]}
                return term, args
            if pk and name not in ('len', 'is_empty', 'deref', 'iter', 'get', 'first', 'last', 'as_slice', 'clone', 'unwrap', 'expect', 'branch', 'from_residual'):
                mut_args = set()
                for a, av in zip(t['args'], args):
                    pl = op_place(a)
                    if pl is not None and not pl['p'] and fn.locals[pl['l']]['ty'].startswith('&mut'):
                        mut_args.add(av)
                if any(k in mut_args for k in pk):
                    env['__vec_peek'] = {k: v for k, v in pk.items() if k not in mut_args}
            # std slice / Vec facts on a concrete element list
            if args and args[0][0] == 'tuple' and ('slice' in d or 'vec::Vec' in d or path_endswith(tr, 'convert::Into') or path_endswith(tr, 'convert::From') or path_endswith(tr, 'ops::Index')):
                el = args[0][1]
                if len(args) == 2 and name == 'contains' and 'slice' in d and fully_known(args[1]) and all(fully_known(x_) for x_ in el):
                    return C(args[1] in el), args
                if len(args) == 1:
                    if name == 'len':
                        return C(len(el)), args
                    if name == 'is_empty':
                        return C(len(el) == 0), args
                    if name in ('first', 'first_mut'):
                        return (SOME(el[0]) if el else NONE), args
                    if name in ('last', 'last_mut'):
                        return (SOME(el[-1]) if el else NONE), args
                    if name in ('to_vec', 'into_vec', 'into', 'from', 'as_slice', 'as_mut_slice'):
                        return args[0], args
                    if name in ('split_first', 'split_first_mut') and 'slice' in d:
                        return (SOME(('tuple', (el[0], ('tuple', tuple(el[1:]))))) if el else NONE), args
                    if name in ('split_last', 'split_last_mut') and 'slice' in d:
                        return (SOME(('tuple', (el[-1], ('tuple', tuple(el[:-1]))))) if el else NONE), args
                if len(args) == 2 and name in ('index', 'get') and args[1][0] == 'adt' and args[1][1].split('::')[-1] in ('RangeFrom', 'RangeTo', 'Range', 'RangeFull') \
                        and all(x[0] == 'c' and isinstance(x[1], int) for x in args[1][4]):
                    # sub-slice with constant bounds
                    kind = args[1][1].split('::')[-1]
                    b = [x[1] for x in args[1][4]]
                    lo, hi = {'RangeFrom': (b[0], len(el)) if b else (0, 0), 'RangeTo': (0, b[0]) if b else (0, 0), 'Range': (b[0], b[1]) if len(b) == 2 else (0, 0), 'RangeFull': (0, len(el))}[kind]
                    if 0 <= lo <= hi <= len(el):
                        sub = ('tuple', tuple(el[lo:hi]))
                        return (sub if name == 'index' else SOME(sub)), args
                    if name == 'get':
                        return NONE, args
                if len(args) == 2 and args[1][0] == 'c' and isinstance(args[1][1], int) and not isinstance(args[1][1], bool):
                    i = args[1][1]
                    if name in ('get', 'get_mut'):
                        return (SOME(el[i]) if 0 <= i < len(el) else NONE), args
                    if name in ('index', 'index_mut') and 0 <= i < len(el):
                        return el[i], args
            # iteration over a concrete element list (vec/slice of known elements): exact, path-local cursor
            if name in ('into_iter', 'iter') and len(args) == 1 and args[0][0] == 'tuple':
                self.serial += 1
                return ('iter', self.serial, args[0][1]), args
            if name == 'into_iter' and len(args) == 1 and args[0][0] == 'iter':
                return args[0], args
            # Peekable / Enumerate over a concrete element list
            if name == 'peekable' and len(args) == 1 and args[0][0] == 'iter' and path_endswith(tr, 'iter::Iterator'):
                return args[0], args
            if name in ('peek', 'peek_mut') and len(args) == 1 and args[0][0] == 'iter' and 'Peekable' in d:
                i = (env.get('__iter') or {}).get(args[0][1], 0)
                return (SOME(args[0][2][i]) if i < len(args[0][2]) else NONE), args
            if name == 'enumerate' and len(args) == 1 and args[0][0] == 'iter' and path_endswith(tr, 'iter::Iterator') and (env.get('__iter') or {}).get(args[0][1], 0) == 0:
                self.serial += 1
                return ('iter', self.serial, tuple(('tuple', (C(i), e)) for i, e in enumerate(args[0][2]))), args
            if name in ('find', 'any', 'all', 'position') and len(args) == 2 and args[0][0] == 'iter' and args[1][0] in ('closure', 'fn') \
                    and path_endswith(tr, 'iter::Iterator') and depth < self.max_depth:
                cur = dict(env.get('__iter') or {})
                start = cur.get(args[0][1], 0)
                res = self._iter_search(name, args[0][2], start, args[1], depth, t['span'])
                if res is not None:
                    cur[args[0][1]] = len(args[0][2])
                    env['__iter'] = cur
                    return ('paths', res), args
            if name in ('fold', 'try_fold') and len(args) == 3 and args[0][0] == 'iter' and args[2][0] in ('closure', 'fn') \
                    and path_endswith(tr, 'iter::Iterator') and depth < self.max_depth:
                cur = dict(env.get('__iter') or {})
                start = cur.get(args[0][1], 0)
                wrap = None
                if name == 'try_fold':
                    ga = [g_.split('<')[0] for g_ in (c.get('args') or [])]
                    if any(g_.endswith('result::Result') for g_ in ga):
                        wrap = 'res'
                    elif any(g_.endswith('option::Option') for g_ in ga):
                        wrap = 'opt'
                res = self._iter_fold(wrap, args[0][2], start, args[1], args[2], depth) if (name == 'fold' or wrap) else None
                if res is not None:
                    cur[args[0][1]] = len(args[0][2])
                    env['__iter'] = cur
                    return ('paths', res), args
            if name == 'next' and len(args) == 1 and args[0][0] == 'iter':
                cur = dict(env.get('__iter') or {})
                i = cur.get(args[0][1], 0)
                if i < len(args[0][2]):
                    cur[args[0][1]] = i + 1
                    env['__iter'] = cur
                    return SOME(args[0][2][i]), args
                return NONE, args
        # std str facts on constant strings (name tables keyed by string constants: `identifier.strip_prefix("math::")`)
        if not c.get('local') and 'str' in d and args and args[0][0] == 'c' and isinstance(args[0][1], str) and all(a[0] == 'c' and isinstance(a[1], str) for a in args[1:2]):
            s0 = args[0][1]
            if name == 'strip_prefix' and len(args) == 2:
                return (SOME(C(s0[len(args[1][1]):])) if s0.startswith(args[1][1]) else NONE), args
            if name == 'strip_suffix' and len(args) == 2:
                return (SOME(C(s0[:len(s0) - len(args[1][1])])) if s0.endswith(args[1][1]) else NONE), args
            if name == 'starts_with' and len(args) == 2:
                return C(s0.startswith(args[1][1])), args
            if name == 'ends_with' and len(args) == 2:
                return C(s0.endswith(args[1][1])), args
            if name == 'split_once' and len(args) == 2 and args[1][1]:
                i = s0.find(args[1][1])
                return (SOME(('tuple', (C(s0[:i]), C(s0[i + len(args[1][1]):])))) if i >= 0 else NONE), args
            if name == 'is_empty' and len(args) == 1:
                return C(len(s0) == 0), args
        # predicates of a known character (std char methods; Python's str methods agree with them on the characters rules use)
        if self.const_chars and not c.get('local') and len(args) == 1 and args[0][0] == 'c' and isinstance(args[0][1], str) and len(args[0][1]) == 1 and 'char' in d:
            ch = args[0][1]
            table = {'is_whitespace': ch.isspace(), 'is_ascii_whitespace': ch in ' \t\n\x0c\r', 'is_alphabetic': ch.isalpha(), 'is_numeric': ch.isnumeric(),
                     'is_alphanumeric': ch.isalnum(), 'is_ascii_digit': ch in '0123456789', 'is_ascii': ord(ch) < 128, 'is_ascii_alphabetic': ch.isascii() and ch.isalpha(),
                     'is_ascii_alphanumeric': ch.isascii() and ch.isalnum(), 'is_ascii_punctuation': ch.isascii() and not ch.isalnum() and not ch.isspace() and ch.isprintable()}
            if name in table:
                return C(bool(table[name])), args
        # a known character written as text: `c.encode_utf8(&mut buf)` is the one-character string (the buffer's contents are not modelled)
        if not c.get('local') and name == 'encode_utf8' and 'char' in d and len(args) == 2 and args[0][0] == 'c' and isinstance(args[0][1], str) and len(args[0][1]) == 1:
            return C(args[0][1]), args
        # `f(args)` where f: impl Fn* and its value is known on this path
        if name in ('call', 'call_mut', 'call_once') and path_endswith(tr, ('ops::Fn', 'ops::FnMut', 'ops::FnOnce')[('call', 'call_mut', 'call_once').index(name)]) \
                and len(args) == 2 and args[0][0] in ('fn', 'closure') and args[1][0] == 'tuple' and depth < self.max_depth:
            r_ = self.apply_callable(args[0], list(args[1][1]), depth)
            if r_ is not None:
                return r_, args
        if not c.get('local') and name == 'unwrap_or_default' and len(args) == 1 and args[0][0] == 'adt' and ('option::Option' in d or 'result::Result' in d):
            if args[0][3] in ('Some', 'Ok'):
                return args[0][4][0], args
            ty = (c.get('args') or ['?'])[0]
            dflt = {'&str': C(''), 'std::string::String': C(''), 'bool': C(False), 'usize': C(0), 'i64': C(0), 'u32': C(0), 'i32': C(0)}.get(ty.replace("&'static str", '&str'))
            if dflt is not None:
                return dflt, args
        # Option / Result combinators on known values, applying closures / constructor fn items abstractly
        if not c.get('local') and ('option::Option' in d or 'result::Result' in d) and args and args[0][0] == 'adt' and depth < self.max_depth:
            r_ = self._combinator(fn, name, args, depth)
            if r_ is not None:
                return r_, args
        if not c.get('local') and ('option::Option' in d or 'result::Result' in d) and len(args) == 1 and name in ('cloned', 'copied', 'as_ref', 'as_mut', 'as_deref', 'as_deref_mut'):
            return args[0], args
        # ... and on opaque values: case split on the receiver's variant, exactly as the equivalent `match` would do, so that
        # `x.ok_or_else(f)` / `x.map(g)` and the hand-written match give the same set of paths
        if not c.get('local') and ('option::Option' in d or 'result::Result' in d) and args and args[0][0] in ('sym', 'app', 'proj') \
                and name in SPLIT_COMBINATORS and depth < self.max_depth and self.split_opaque:
            v = args[0]
            is_opt = 'option::Option' in d
            dkey = ('app', 'discriminant', (v,))
            decided = env.get('__decided') or {}
            prev = decided.get(dkey)

            def pr(vn):
                return self.project(v, [dict(dc=vn, name=vn), dict(f=0, name='0')])
            variants = [(0, NONE), (1, SOME(pr('Some')))] if is_opt else [(0, OK(pr('Ok'))), (1, ERR(pr('Err')))]
            vals, alts = [], []
            for idx, known in variants:
                if prev is not None and ((prev[0] == 'is' and prev[1] != idx) or (prev[0] == 'not' and idx in prev[1])):
                    continue
                r_ = self._combinator(fn, name, [known] + list(args[1:]), depth)
                if r_ is None:
                    vals = None
                    break
                vals.append(r_)
                alts.append((('<branch>', None, (dkey, C(idx)), t['span']), (dkey, ('is', idx))))
            if vals:
                return Fork(vals, alts), args
        # structural equality
        if path_endswith(tr, 'cmp::PartialEq') and name in ('eq', 'ne') and len(args) == 2:
            a, b = args
            if fully_known(a) and fully_known(b):
                return C((a == b) if name == 'eq' else (a != b)), args
            if a[0] == 'adt' and b[0] == 'adt' and a[1] == b[1] and a[2] != b[2]:
                return C(name == 'ne'), args
            if definitely_different(a, b):
                # same variant, but some field is a different variant / a different constant (`Some(Literal(w)) != Some(Ampersand)`)
                return C(name == 'ne'), args
            if a == b and a[0] in ('sym',):
                return C(name == 'eq'), args
            return ('app', d, tuple(args)), args
        if path_endswith(tr, 'ops::Try') and name == 'branch' and len(args) == 1:
            a = args[0]
            if is_adt(a, 'result::Result'):
                if a[3] == 'Ok':
                    return ADT('std::ops::ControlFlow', 0, 'Continue', [a[4][0]]), args
                return ADT('std::ops::ControlFlow', 1, 'Break', [ERR(a[4][0])]), args
            if is_adt(a, 'option::Option'):
                if a[3] == 'Some':
                    return ADT('std::ops::ControlFlow', 0, 'Continue', [a[4][0]]), args
                return ADT('std::ops::ControlFlow', 1, 'Break', [NONE]), args
            # opaque Result / Option: case split (consistent with earlier decisions on the same value), remembering where the
            # payloads came from; the payload terms are those a `match` on the value would produce
            ga = c.get('args') or []
            is_opt = bool(ga) and 'option::Option<' in ga[0].split('<')[0] + '<'
            dkey = ('app', 'discriminant', (a,))
            prev = (env.get('__decided') or {}).get(dkey)
            if is_opt:
                variants = [(1, ADT('std::ops::ControlFlow', 0, 'Continue', [P_SOME(a)])), (0, ADT('std::ops::ControlFlow', 1, 'Break', [NONE]))]
            else:
                variants = [(0, ADT('std::ops::ControlFlow', 0, 'Continue', [P_OK(a)])), (1, ADT('std::ops::ControlFlow', 1, 'Break', [ERR(P_ERR(a))]))]
            vals, alts = [], []
            for idx, val in variants:
                if prev is not None and ((prev[0] == 'is' and prev[1] != idx) or (prev[0] == 'not' and idx in prev[1])):
                    continue
                vals.append(val)
                alts.append((('<branch>', None, (dkey, C(idx)), t['span']), (dkey, ('is', idx))))
            return Fork(vals, alts), args
        if path_endswith(tr, 'ops::FromResidual') and name == 'from_residual' and len(args) == 1:
            return args[0], args
        if (path_endswith(tr, 'convert::Into') and name == 'into' or path_endswith(tr, 'convert::From') and name == 'from') and len(args) == 1:
            ga = c.get('args') or []
            if len(ga) >= 2 and ga[0] == ga[1]:
                return args[0], args
            # text to owned text: `String::from(c)` / `String::from("..")` / `"..".into()` is the same text as `to_string()` / `to_owned()`
            if len(ga) >= 2:
                dst, src = (ga[0], ga[1]) if name == 'from' else (ga[1], ga[0])
                if dst == 'std::string::String' and src.replace("'static ", '').replace("'_ ", '') in ('char', '&str', '&std::string::String', '&mut str'):
                    return args[0], args
        # value-preserving std conversions are transparent (refs are transparent in this domain)
        if len(args) == 1 and not c.get('local'):
            if (path_endswith(tr, 'clone::Clone') and name == 'clone' and not (r and self.prog.by_path.get(r))) or \
               (path_endswith(tr, 'string::ToString') and name == 'to_string' and args[0][0] in ('sym', 'c') and ((c.get('args') or ['?'])[0].lstrip('&') in ('str', 'std::string::String', '?') or args[0][0] == 'c' and isinstance(args[0][1], str))) or \
               (path_endswith(tr, 'borrow::ToOwned') and name == 'to_owned') or \
               (path_endswith(tr, 'ops::Deref') and name == 'deref') or (path_endswith(tr, 'ops::DerefMut') and name == 'deref_mut') or \
               (path_endswith(tr, 'convert::AsRef') and name == 'as_ref') or (path_endswith(tr, 'borrow::Borrow') and name == 'borrow'):
                return args[0], args
        target = None
        if r is not None:
            target = self.prog.by_path.get(r)
        if target is None and c.get('local') and tr and args and args[0][0] == 'adt' and self.prog.by_path.get(d) is None:
            # a method of a crate trait called on a generic parameter whose value is known here: dispatch on the receiver's type
            for cand in self.prog.fns:
                if cand.name == name and path_endswith(cand.j.get('impl_trait') or '', short(tr).split('<')[0]) and short(cand.j.get('impl_self_ty') or '').split('<')[0].lstrip('&') == short(args[0][1]).split('<')[0]:
                    target = cand
                    break
        if target is None and c.get('local') and tr and c.get('self_ty') and self.prog.by_path.get(d) is None and len(self.tyenv) > 1:
            # a method of a crate trait called on a type parameter inside a generic body entered with known generic arguments:
            # the impl for the concrete type, as monomorphisation selects it
            st = self._subst_ty(c['self_ty'])
            if st != c['self_ty']:
                cands = [cand for cand in self.prog.fns if cand.name == name and cand.j.get('impl_self_ty') and path_endswith(cand.j.get('impl_trait') or '', short(tr).split('<')[0])
                         and self._unify_ty(cand.j['impl_self_ty'], st, cand.j.get('generics') or []) is not None]
                if len(cands) == 1:
                    target = cands[0]
        if target is None and path_endswith(tr, 'convert::TryInto') and name == 'try_into' and len(args) == 1 and len(c.get('args') or []) >= 2:
            # blanket `impl<T, U: TryFrom<T>> TryInto<U> for T`: try_into(x) is U::try_from(x); follow a local TryFrom impl
            src_ty, dst_ty = c['args'][0], c['args'][1]
            for cand in self.prog.fns:
                if cand.name == 'try_from' and cand.j.get('impl_self_ty') == dst_ty and path_endswith(cand.j.get('impl_trait') or '', 'convert::TryFrom') and (cand.j.get('inputs') or [None])[0] == src_ty:
                    target = cand
                    break
        if target is None and path_endswith(tr, 'convert::Into') and name == 'into' and len(args) == 1 and len(c.get('args') or []) >= 2:
            # blanket `impl<T, U: From<T>> Into<U> for T`: into(x) is U::from(x); follow a local From impl
            src_ty, dst_ty = c['args'][0], c['args'][1]
            for cand in self.prog.fns:
                if cand.name == 'from' and cand.j.get('impl_self_ty') == dst_ty and path_endswith(cand.j.get('impl_trait') or '', 'convert::From') and (cand.j.get('inputs') or [None])[0] == src_ty:
                    target = cand
                    break
        if target is None and c.get('local'):
            target = self.prog.by_path.get(d)
        if target is not None and target.j.get('derived') and path_endswith(target.j.get('impl_trait') or '', 'clone::Clone') and len(args) == 1:
            # derived Clone is a structural copy
            return args[0], args
        if target is not None and depth < self.max_depth and target.kind != 'Closure' and not (self.opaque and self.opaque(target)):
            self.tyenv.append(self._callee_tyenv(c, target))
            try:
                return ('paths', self.paths(target, args, depth + 1)), args
            finally:
                self.tyenv.pop()
        nm = r or d
        if r and not self.prog.by_path.get(r) and (path_endswith(tr, 'cmp::PartialOrd') or path_endswith(tr, 'cmp::PartialEq')) and r.startswith(('std::', 'core::', 'alloc::')):
            # std's comparison impls (for references, for primitive types) are named by the trait method: `a > b` and `&a > &b` are one term
            nm = d
        if name in TYPE_DIRECTED and c.get('args'):
            nm = '%s::<%s>' % (nm, c['args'][-1])
        if name == 'new' and 'fmt::Arguments' in d and c.get('args'):
            # format_args!: the const generics are (bytes of the encoded template, number of arguments); a template that is nothing but
            # `{}` placeholders has one byte per argument plus the terminator
            consts = [a for a in c['args'] if a.strip().isdigit()]
            if len(consts) == 2:
                nm = '%s::<%s,%s>' % (nm, consts[0].strip(), consts[1].strip())
        # calls through a mutable reference are not pure: each call instance gets its own term
        for a in t['args']:
            pl = op_place(a)
            if pl is not None and not pl['p'] and fn.locals[pl['l']]['ty'].startswith('&mut'):
                self.serial += 1
                nm = '%s#%d' % (nm, self.serial)
                break
        return ('app', nm, tuple(args)), args

    def _collect_map(self, elems, i, f, depth, mode, acc):
        """[(value, effects)] of collecting map(f) over elems[i:] given the already collected values `acc`"""
        if i >= len(elems):
            v = ('tuple', acc)
            return [(OK(v) if mode == 'result' else v, ())]
        r = self.apply_callable(f, [elems[i]], depth)
        if r is None:
            return None
        outcomes = r[1] if (isinstance(r, tuple) and r and r[0] == 'paths') else [(r, ())]
        out = []
        for val, eff in outcomes:
            if val == ('diverge',):
                out.append((val, eff))
                continue
            if mode == 'result':
                if is_adt(val, 'result::Result', 'Err'):
                    out.append((val, eff))
                    continue
                if is_adt(val, 'result::Result', 'Ok'):
                    item = val[4][0]
                else:
                    # opaque Result: both outcomes
                    out.append((ERR(P_ERR(val)), eff + (('<branch>', None, (('app', 'discriminant', (val,)), C(1)), None),)))
                    item = P_OK(val)
                    eff = eff + (('<branch>', None, (('app', 'discriminant', (val,)), C(0)), None),)
            else:
                item = val
            rest = self._collect_map(elems, i + 1, f, depth, mode, acc + (item,))
            if rest is None:
                return None
            out += [(v2, eff + e2) for v2, e2 in rest]
        return out

    def _iter_search(self, kind, elems, i, pred, depth, span):
        """Iterator::find / any / all / position over a concrete element list: the predicate is applied to the elements in order;
        an undecided predicate value forks (recorded as a branch on that value). Returns [(value, effects)] or None."""
        if i >= len(elems):
            end = {'find': NONE, 'position': NONE, 'any': C(False), 'all': C(True)}[kind]
            return [(end, ())]
        r = self.apply_callable(pred, [elems[i]], depth)
        if r is None:
            return None
        outcomes = r[1] if (isinstance(r, tuple) and r and r[0] == 'paths') else [(r, ())]
        out = []
        for val, eff in outcomes:
            if val == ('diverge',):
                out.append((val, eff))
                continue
            if val[0] == 'c' and isinstance(val[1], (bool, int)):
                cases = [(bool(val[1]), eff)]
            else:
                cases = [(True, eff + (('<branch>', None, (val, C(1)), span),)), (False, eff + (('<branch>', None, (val, C(0)), span),))]
            for truth, e2 in cases:
                stop = truth if kind in ('find', 'any', 'position') else (not truth)
                if stop:
                    hit = {'find': SOME(elems[i]), 'position': SOME(C(i)), 'any': C(True), 'all': C(False)}[kind]
                    out.append((hit, e2))
                else:
                    rest = self._iter_search(kind, elems, i + 1, pred, depth, span)
                    if rest is None:
                        return None
                    out += [(v, e2 + e3) for v, e3 in rest]
        return out

    def _iter_fold(self, wrap, elems, i, acc, f, depth):
        """Iterator::fold (wrap None) / try_fold (wrap 'res' | 'opt') over a concrete element list, unrolled: the accumulator is
        threaded through the closure; try_fold stops at the first Err / None. Returns [(value, effects)] or None (not modelled)."""
        if i >= len(elems):
            return [((OK(acc) if wrap == 'res' else SOME(acc)) if wrap else acc, ())]
        r = self.apply_callable(f, [acc, elems[i]], depth)
        if r is None:
            return None
        outcomes = r[1] if (isinstance(r, tuple) and r and r[0] == 'paths') else [(r, ())]
        out = []
        for val, eff in outcomes:
            if val == ('diverge',):
                out.append((val, eff))
                continue
            if wrap:
                if not is_adt(val, 'result::Result' if wrap == 'res' else 'option::Option'):
                    return None
                if val[3] in ('Err', 'None'):
                    out.append((val, eff))
                    continue
                val = val[4][0]
            rest = self._iter_fold(wrap, elems, i + 1, val, f, depth)
            if rest is None:
                return None
            out += [(v, eff + e3) for v, e3 in rest]
        return out

    def apply_callable(self, f, argv, depth):
        """apply an abstract callable (closure value or fn item) to abstract arguments; returns a value, ('paths', ..) or None"""
        if f[0] == 'closure':
            body = self.prog.by_path.get(f[1])
            if body is None:
                return None
            packed = [('tuple', tuple(f[2]))] + list(argv)
            # closures take their arguments as individual MIR parameters after the environment
            return ('paths', self.paths(body, packed, depth + 1))
        if f[0] == 'fn':
            target = self.prog.by_path.get(f[1])
            if target is not None:
                if self.hook is not None:
                    # a function item applied through a combinator is the same call as writing it out: give the rule's hook its say
                    synth = dict(k='call', callee=dict(**{'def': f[1]}, name=target.name or f[1].split('::')[-1], local=True, trait=target.j.get('impl_trait'), args=[]), args=[], span=target.span, dest=dict(l=0, p=[]), target=0)
                    hv = self.hook(self, target, synth, list(argv))
                    if hv is not None and not isinstance(hv, (Fork, Stop)):
                        return hv
                if self.opaque and self.opaque(target):
                    return ('app', f[1], tuple(argv))
                return ('paths', self.paths(target, list(argv), depth + 1))
            # tuple-variant / tuple-struct constructor used as a function (`.map(Value::Int)`)
            parent, _, vname = f[1].rpartition('::')
            a = self.prog.adts.get(parent)
            if a is not None:
                for v in a['variants']:
                    if v['name'] == vname and len(v['fields']) == len(argv):
                        return ADT(a['path'], v['idx'], vname, list(argv))
            if f[1] in ('std::option::Option::Some',) and len(argv) == 1:
                return SOME(argv[0])
            if f[1] in ('std::result::Result::Ok',) and len(argv) == 1:
                return OK(argv[0])
            if f[1] in ('std::result::Result::Err',) and len(argv) == 1:
                return ERR(argv[0])
            # value-preserving std conversions passed as function items (`.map(str::to_owned)`, `.map(<[_]>::to_vec)`, `.map(Clone::clone)`)
            last = f[1].split('::')[-1].split('<')[0]
            if len(argv) == 1 and last in ('to_owned', 'to_vec', 'clone', 'cloned', 'as_ref', 'borrow', 'as_str', 'as_slice', 'deref') \
                    and any(k_ in f[1] for k_ in ('str', 'slice', 'ToOwned', 'Clone', 'String', 'Vec', 'convert', 'Borrow', 'Deref', 'AsRef')):
                return argv[0]
            # a function item the crate does not define (std function, method of a generic parameter): the same term a direct call gives
            return ('app', f[1], tuple(argv))
        return None

    def _combinator(self, fn, name, args, depth):
        v = args[0]
        is_opt = is_adt(v, 'option::Option')
        is_res = is_adt(v, 'result::Result')
        if not (is_opt or is_res):
            return None
        good = v[3] in ('Some', 'Ok')
        payload = v[4][0] if v[4] else None
        wrap = (lambda x: SOME(x)) if is_opt else (lambda x: OK(x))

        def lift(res, post):
            """post-process the outcome of applying a callable: res is a value or ('paths', [...])"""
            if res is None:
                return None
            if isinstance(res, tuple) and res and res[0] == 'paths':
                return ('paths', [(post(val) if val != ('diverge',) else val, eff) for val, eff in res[1]])
            return post(res)
        if name == 'map' and len(args) == 2:
            return lift(self.apply_callable(args[1], [payload], depth), wrap) if good else v
        if name == 'and_then' and len(args) == 2:
            return lift(self.apply_callable(args[1], [payload], depth), lambda x: x) if good else v
        if name == 'map_err' and is_res and len(args) == 2:
            return v if good else lift(self.apply_callable(args[1], [payload], depth), lambda x: ERR(x))
        if name == 'or_else' and len(args) == 2:
            return v if good else lift(self.apply_callable(args[1], [payload] if is_res else [], depth), lambda x: x)
        if name == 'unwrap_or' and len(args) == 2:
            return payload if good else args[1]
        if name == 'unwrap_or_else' and len(args) == 2:
            return payload if good else lift(self.apply_callable(args[1], [payload] if is_res else [], depth), lambda x: x)
        if name == 'ok' and is_res and len(args) == 1:
            return SOME(payload) if good else NONE
        if name == 'err' and is_res and len(args) == 1:
            return NONE if good else SOME(payload)
        if name == 'ok_or' and is_opt and len(args) == 2:
            return OK(payload) if good else ERR(args[1])
        if name == 'ok_or_else' and is_opt and len(args) == 2:
            return OK(payload) if good else lift(self.apply_callable(args[1], [], depth), lambda x: ERR(x))
        if name in ('is_some', 'is_ok') and len(args) == 1:
            return C(good)
        if name in ('is_none', 'is_err') and len(args) == 1:
            return C(not good)
        if name in ('cloned', 'copied', 'as_ref', 'as_mut', 'as_deref') and len(args) == 1:
            return v
        if name == 'map_or' and len(args) == 3:
            return lift(self.apply_callable(args[2], [payload], depth), lambda x: x) if good else args[1]
        if name == 'map_or_else' and len(args) == 3:
            if good:
                return lift(self.apply_callable(args[2], [payload], depth), lambda x: x)
            return lift(self.apply_callable(args[1], [payload] if is_res else [], depth), lambda x: x)
        if name in ('is_some_and', 'is_ok_and') and len(args) == 2:
            return lift(self.apply_callable(args[1], [payload], depth), lambda x: x) if good else C(False)
        if name == 'is_none_or' and is_opt and len(args) == 2:
            return lift(self.apply_callable(args[1], [payload], depth), lambda x: x) if good else C(True)
        return None

    # -- function evaluation: all paths
    def paths(self, fn, args, depth=0):
        """list of (return value, effects tuple) over all explored paths; effects = ((callee def, resolved, args, span), ...)"""
        env = {}
        for i, a in enumerate(args):
            env[i + 1] = a
        out = []
        self._run(fn, 0, env, depth, out, (), {})
        return out

    def eval_fn(self, fn, args, depth=0):
        """joined value + concatenated effects (for tabulation of total functions)"""
        ps = self.paths(fn, args, depth)
        rets = [p for p in ps if p[0] != ('diverge',)]
        if not rets:
            return UNK, [e for p in ps for e in p[1]]
        v = rets[0][0]
        for r in rets[1:]:
            v = join(v, r[0])
        return v, [e for p in ps for e in p[1]]

    def _write_back(self, fn, env, t, callee_effects):
        """out-parameters: a local callee stored through its k-th parameter (a `&mut` reference); when the argument is a reference to a
        whole local of this body, that local holds the stored value after the call (the last such store on the callee's path)"""
        for e in callee_effects:
            if e[0] == '<store>' and isinstance(e[1], tuple) and e[1] and e[1][0] == 'param':
                k_ = e[1][1] - 1
                if k_ >= len(t['args']):
                    continue
                pl = op_place(t['args'][k_])
                if pl is None or pl['p'] or not fn.locals[pl['l']]['ty'].startswith('&mut'):
                    continue
                root = pl['l']
                for _i in range(3):
                    sd_ = fn.single_def(root)
                    if sd_ is None or sd_[1] == 'term':
                        root = None
                        break
                    rv = sd_[2]
                    if rv['k'] == 'ref' and not rv['pl']['p']:
                        root = rv['pl']['l']
                        break
                    if rv['k'] == 'ref' and rv['pl']['p'] == ['deref']:
                        root = rv['pl']['l']
                        continue
                    if rv['k'] == 'use' and op_place(rv['op']) is not None and not op_place(rv['op'])['p']:
                        root = op_place(rv['op'])['l']
                        continue
                    root = None
                    break
                if root is not None and not fn.locals[root]['ty'].startswith('&'):
                    env[root] = e[2][1]
                    env[pl['l']] = e[2][1]

    def _run(self, fn, b, env, depth, out, effects, edges):
        while True:
            self.steps += 1
            if self.steps > self.max_steps:
                raise Budget()
            blk = fn.blocks[b]
            for st in blk['stmts']:
                if st['k'] == 'assign':
                    v = self.rvalue(fn, env, st['rv'])
                    if not st['pl']['p']:
                        env[st['pl']['l']] = v
                    elif st['pl']['p'] == ['deref'] or all(p == 'deref' for p in st['pl']['p']):
                        # store through a reference: refs are transparent, so this overwrites the referent's value
                        l_ = st['pl']['l']
                        old_ = env.get(l_, UNK)
                        # which parameter the reference is (an out-parameter written by a helper is written back at the call site)
                        tag = None
                        src_l = l_
                        for _i in range(3):
                            if 1 <= src_l <= fn.arg_count:
                                tag = ('param', src_l)
                                break
                            sd_ = fn.single_def(src_l)
                            if sd_ is None or sd_[1] == 'term' or sd_[2]['k'] not in ('use', 'ref') or (sd_[2]['k'] == 'ref' and sd_[2]['pl']['p'] not in ([], ['deref'])):
                                break
                            nx_ = op_place(sd_[2]['op']) if sd_[2]['k'] == 'use' else sd_[2]['pl']
                            if nx_ is None or [q for q in nx_['p'] if q != 'deref']:
                                break
                            src_l = nx_['l']
                        if old_[0] == 'proj' and old_[1][0] == 'sym' and all(isinstance(q, str) for q in old_[2]):
                            # the reference points at a field of a symbolic object (`let Self { flag, .. } = self; *flag = x`): a field store
                            effects = effects + (('<store-field>', tag, (old_[1], ('c', tuple(old_[2])), v), st.get('span')),)
                        else:
                            effects = effects + (('<store>', tag, (old_, v), st.get('span')),)
                        env[l_] = v
                        # the reference was taken to a whole local of this body (`let r = &mut x; *r = v`, also after inlining a helper
                        # with an out-parameter): the local holds the new value
                        sd_ = fn.single_def(l_)
                        if sd_ is not None and sd_[1] != 'term' and sd_[2]['k'] == 'ref' and not sd_[2]['pl']['p']:
                            env[sd_[2]['pl']['l']] = v
                    else:
                        path = tuple((p.get('name') if p.get('name') is not None else p.get('f')) for p in st['pl']['p'] if isinstance(p, dict) and 'f' in p)
                        effects = effects + (('<store-field>', None, (env.get(st['pl']['l'], UNK), ('c', path), v), st.get('span')),)
                        base = env.get(st['pl']['l'], UNK)
                        # keep the base symbolic (a field write does not change the identity of the object)
                        if base[0] not in ('sym', 'proj', 'app'):
                            env[st['pl']['l']] = UNK
            t = blk['term']
            k = t['k']
            if k == 'return':
                out.append((env.get(0, UNK), effects))
                return
            if k == 'goto':
                nb = t['target']
            elif k == 'call':
                res, args = self.call(fn, env, t, depth)
                c = t['callee']
                # (callee def, resolved callee, arguments, span, result term when the call yields one value)
                eff = (c['def'], callee_resolved(t), tuple(args), t['span'], res if (isinstance(res, tuple) and res and res[0] in ('app', 'adt', 'c', 'sym', 'proj', 'tuple')) else None)
                if t.get('target') is None:
                    out.append((('diverge',), effects + (eff,)))
                    return
                if isinstance(res, tuple) and res and res[0] == 'paths':
                    sub = res[1]
                    live = [p for p in sub if p[0] != ('diverge',)]
                    for p in sub:
                        if p[0] == ('diverge',):
                            out.append((('diverge',), effects + (eff,) + p[1]))
                    if not live:
                        return
                    if len(live) == 1:
                        effects = effects + (eff,) + live[0][1]
                        self._write_back(fn, env, t, live[0][1])
                        if not t['dest']['p']:
                            env[t['dest']['l']] = live[0][0]
                        nb = t['target']
                    else:
                        for val, e2 in live:
                            env2 = dict(env)
                            self._write_back(fn, env2, t, e2)
                            if not t['dest']['p']:
                                env2[t['dest']['l']] = val
                            self._run(fn, t['target'], env2, depth, out, effects + (eff,) + e2, dict(edges))
                        return
                elif isinstance(res, Stop):
                    out.append((('stop', res.value), effects + (eff,)))
                    return
                elif isinstance(res, Fork):
                    for i, val in enumerate(res.values):
                        env2 = dict(env)
                        effs = effects + (eff,)
                        if res.alts is not None:
                            beff, (dk, dec) = res.alts[i]
                            effs = effs + (beff,)
                            nd = dict(env2.get('__decided') or {})
                            nd[dk] = dec
                            env2['__decided'] = nd
                        subs = val[1] if (isinstance(val, tuple) and val and val[0] == 'paths') else [(val, ())]
                        for sval, seff in subs:
                            if sval == ('diverge',):
                                out.append((('diverge',), effs + seff))
                                continue
                            env3 = dict(env2)
                            if not t['dest']['p']:
                                env3[t['dest']['l']] = sval
                            self._run(fn, t['target'], env3, depth, out, effs + seff, dict(edges))
                    return
                else:
                    effects = effects + (eff,)
                    if not t['dest']['p']:
                        env[t['dest']['l']] = res
                    nb = t['target']
            elif k == 'call_indirect':
                args = tuple(self.op_val(fn, env, a) for a in t['args'])
                fv = self.op_val(fn, env, t['fn_operand'])
                effects = effects + (('<indirect>', None, (fv,) + args, t['span']),)
                if t.get('target') is None:
                    out.append((('diverge',), effects))
                    return
                res = None
                if fv[0] in ('fn', 'closure') and depth < self.max_depth:
                    # a call through a function pointer whose value is known on this path: the same as the direct call
                    res = self.apply_callable(fv, list(args), depth)
                if isinstance(res, tuple) and res and res[0] == 'paths':
                    live = [p_ for p_ in res[1] if p_[0] != ('diverge',)]
                    for p_ in res[1]:
                        if p_[0] == ('diverge',):
                            out.append((('diverge',), effects + p_[1]))
                    if not live:
                        return
                    if len(live) > 1:
                        for val, e2 in live:
                            env2 = dict(env)
                            if not t['dest']['p']:
                                env2[t['dest']['l']] = val
                            self._run(fn, t['target'], env2, depth, out, effects + e2, dict(edges))
                        return
                    effects = effects + live[0][1]
                    res = live[0][0]
                if not t['dest']['p']:
                    env[t['dest']['l']] = res if res is not None else ('app', '<indirect>', (fv,) + args)
                nb = t['target']
            elif k in ('drop', 'assert'):
                nb = t['target']
            elif k == 'switch':
                v = self.op_val(fn, env, t['discr'])
                if is_const(v) and not isinstance(v[1], tuple):
                    x = v[1]
                    if isinstance(x, bool):
                        x = 1 if x else 0
                    if isinstance(x, str) and len(x) == 1:
                        x = ord(x)
                    nb = t['otherwise']
                    for val, tg in t['targets']:
                        if val == x:
                            nb = tg
                else:
                    # path condition: a later switch on the same (pure) term must agree with the earlier decision
                    decided = env.get('__decided') or {}
                    prev = decided.get(v)
                    listed = [val for val, _ in t['targets']]
                    cands = []
                    if prev is not None and prev[0] == 'is':
                        tgt = t['otherwise']
                        for val, tg in t['targets']:
                            if val == prev[1]:
                                tgt = tg
                        cands = [(prev[1] if prev[1] in listed else None, tgt, prev)]
                    else:
                        excluded = prev[1] if prev is not None else frozenset()
                        for val, tg in t['targets']:
                            if val not in excluded:
                                cands.append((val, tg, ('is', val)))
                        cands.append((None, t['otherwise'], ('not', frozenset(excluded) | frozenset(listed))))
                    seen = []
                    for val, tg, dec in cands:
                        if (tg, dec[0] == 'is') in seen and dec[0] != 'is':
                            continue
                        seen.append((tg, dec[0] == 'is'))
                        key = (b, tg)
                        if edges.get(key, 0) >= self.loop_bound + 1:
                            continue
                        e2 = dict(edges)
                        e2[key] = e2.get(key, 0) + 1
                        env2 = dict(env)
                        if v != UNK:
                            nd = dict(decided)
                            nd[v] = dec
                            env2['__decided'] = nd
                        eff2 = effects + (('<branch>', None, (v, C(val) if val is not None else Otherwise(dec[1] if dec[0] == 'not' else listed)), t['span']),)
                        self._run(fn, tg, env2, depth, out, eff2, e2)
                    return
            elif k == 'unreachable':
                return
            else:
                out.append((UNK, effects))
                return
            key = (b, nb)
            if nb <= b and fn.dominates(nb, b):
                # back edge (target dominates source): bound iterations
                if edges.get(key, 0) >= self.loop_bound:
                    if self.record_backedge:
                        out.append((('backedge', nb), effects))
                    return
                edges = dict(edges)
                edges[key] = edges.get(key, 0) + 1
            b = nb


def tabulate(prog, fn, adt_path, make_arg=None, hook=None):
    """Evaluate `fn(self = each variant of adt_path)`; payload fields are symbolic.
    returns {variant_idx: (value, effects)}"""
    a = prog.adt(adt_path)
    out = {}
    for v in a['variants']:
        arg = ADT(a['path'], v['idx'], v['name'], [SYM('%s.%s' % (v['name'], f['name'])) for f in v['fields']])
        it = Interp(prog, hook=hook)
        args = [arg] if make_arg is None else make_arg(arg)
        try:
            out[v['idx']] = it.eval_fn(fn, args)
        except Budget:
            out[v['idx']] = (UNK, [])
    return out
