"""A small abstract interpreter over exported MIR, used to *tabulate* total functions of an enum kind
(precedence, arity, predicates, Display symbols, ...) for every variant, following the code's own
control flow instead of matching its text.  Domain: known constant / known aggregate / unknown.
Unknown branch conditions explore both successors and join (equal -> value, else unknown)."""
from mirlib import op_place, op_const, path_endswith, callee_resolved

UNK = ('unk',)


def C(v):
    return ('c', v)


def ADT(adt, idx, vname, fields):
    return ('adt', adt, idx, vname, tuple(fields))


def is_const(v):
    return v[0] == 'c'


def variant_of(v):
    return v[2] if v[0] == 'adt' else None


def join(a, b):
    return a if a == b else UNK


class Budget(Exception):
    pass


class Interp:
    def __init__(self, prog, max_steps=20000, max_depth=6):
        self.prog = prog
        self.max_steps = max_steps
        self.max_depth = max_depth
        self.steps = 0

    # -- values of places / operands
    def place_val(self, env, pl):
        v = env.get(pl['l'], UNK)
        for p in pl['p']:
            if p == 'deref':
                continue
            if isinstance(p, dict) and 'dc' in p:
                continue
            if isinstance(p, dict) and 'f' in p:
                if v[0] == 'adt' and p['f'] < len(v[4]):
                    v = v[4][p['f']]
                elif v[0] == 'tuple' and p['f'] < len(v[1]):
                    v = v[1][p['f']]
                else:
                    v = UNK
                continue
            v = UNK
        return v

    def op_val(self, fn, env, op):
        pl = op_place(op)
        if pl is not None:
            return self.place_val(env, pl)
        c = op_const(op)
        if c is None:
            return UNK
        if c['k'] in ('int', 'bool', 'char', 'str'):
            return C(c['v'])
        if c['k'] == 'float':
            return ('c', ('float', c['bits']))
        if c['k'] == 'zst':
            return ('tuple', ())
        if c['k'] == 'fn':
            return ('fn', c['def'])
        if c['k'] == 'unevaluated' and c.get('promoted') is not None:
            return self.promoted(fn, c['promoted'])
        if c['k'] == 'unevaluated':
            return ('assoc', c['def'])
        return UNK

    def promoted(self, fn, idx):
        for p in fn.j.get('promoted', []):
            if p['idx'] == idx:
                env = {}
                for blk in p['blocks']:
                    for st in blk['stmts']:
                        if st['k'] == 'assign' and not st['pl']['p']:
                            env[st['pl']['l']] = self.rvalue(fn, env, st['rv'])
                return env.get(0, UNK)
        return UNK

    def rvalue(self, fn, env, rv):
        k = rv['k']
        if k == 'use':
            return self.op_val(fn, env, rv['op'])
        if k == 'ref':
            return self.place_val(env, rv['pl'])
        if k == 'discriminant':
            v = self.place_val(env, rv['pl'])
            if v[0] == 'adt':
                return C(v[2])
            return UNK
        if k == 'aggregate':
            ops = [self.op_val(fn, env, o) for o in rv['ops']]
            if rv['agg'] == 'adt':
                return ADT(rv['adt'], rv['variant'], rv['vname'], ops)
            if rv['agg'] in ('tuple', 'array'):
                return ('tuple', tuple(ops))
            return UNK
        if k == 'binop':
            a = self.op_val(fn, env, rv['a'])
            b = self.op_val(fn, env, rv['b'])
            if is_const(a) and is_const(b):
                x, y = a[1], b[1]
                try:
                    op = rv['op']
                    if op == 'Eq':
                        return C(x == y)
                    if op == 'Ne':
                        return C(x != y)
                    if op == 'Lt':
                        return C(x < y)
                    if op == 'Le':
                        return C(x <= y)
                    if op == 'Gt':
                        return C(x > y)
                    if op == 'Ge':
                        return C(x >= y)
                    if op == 'BitAnd' and isinstance(x, bool):
                        return C(x and y)
                    if op == 'BitOr' and isinstance(x, bool):
                        return C(x or y)
                except TypeError:
                    return UNK
            return UNK
        if k == 'unop':
            a = self.op_val(fn, env, rv['a'])
            if rv['op'] == 'Not' and is_const(a) and isinstance(a[1], bool):
                return C(not a[1])
            return UNK
        if k == 'cast':
            return self.op_val(fn, env, rv['op'])
        return UNK

    # -- calls
    def call(self, fn, env, t, depth, effects):
        c = t['callee']
        args = [self.op_val(fn, env, a) for a in t['args']]
        name = c['name']
        d = c['def']
        r = callee_resolved(t)
        effects.append((d, r, tuple(args), t['span']))
        # structural equality
        if c.get('trait') and path_endswith(c['trait'], 'cmp::PartialEq') and name in ('eq', 'ne') and len(args) == 2:
            a, b = args
            if self._fully_known(a) and self._fully_known(b):
                return C((a == b) if name == 'eq' else (a != b))
            # differing variants decide inequality even with unknown payloads
            if a[0] == 'adt' and b[0] == 'adt' and a[1] == b[1] and a[2] != b[2]:
                return C(name == 'ne')
            return UNK
        target = None
        if r is not None:
            target = self.prog.by_path.get(r)
        if target is None and c.get('local'):
            target = self.prog.by_path.get(d)
        if target is not None and depth < self.max_depth and target.kind != 'Closure':
            val, eff = self.eval_fn(target, args, depth + 1)
            effects.extend(eff)
            return val
        # transparent std helpers
        if name in ('into', 'from', 'clone', 'borrow', 'as_ref', 'deref', 'to_owned', 'to_string') and len(args) == 1:
            return args[0]
        return UNK

    def _fully_known(self, v):
        if v[0] == 'c':
            return True
        if v[0] == 'adt':
            return all(self._fully_known(x) for x in v[4])
        if v[0] == 'tuple':
            return all(self._fully_known(x) for x in v[1])
        return False

    # -- function evaluation
    def eval_fn(self, fn, args, depth=0):
        """returns (value of _0 joined over all explored paths, effects list (first explored path order, joined paths concatenated))"""
        env = {}
        for i, a in enumerate(args):
            env[i + 1] = a
        results = []
        effects = []
        self._run(fn, 0, env, depth, results, effects, set())
        if not results:
            return UNK, effects
        v = results[0]
        for r in results[1:]:
            v = join(v, r)
        return v, effects

    def _run(self, fn, b, env, depth, results, effects, onpath):
        while True:
            self.steps += 1
            if self.steps > self.max_steps:
                raise Budget()
            if (b, ) in onpath and len(onpath) > 400:
                results.append(UNK)
                return
            blk = fn.blocks[b]
            for st in blk['stmts']:
                if st['k'] == 'assign':
                    v = self.rvalue(fn, env, st['rv'])
                    if not st['pl']['p']:
                        env[st['pl']['l']] = v
                    else:
                        env[st['pl']['l']] = UNK
            t = blk['term']
            k = t['k']
            if k == 'return':
                results.append(env.get(0, UNK))
                return
            if k == 'goto':
                b = t['target']
                continue
            if k == 'call':
                v = self.call(fn, env, t, depth, effects)
                if t.get('target') is None:
                    results.append(('diverge',))
                    return
                if not t['dest']['p']:
                    env[t['dest']['l']] = v
                b = t['target']
                continue
            if k == 'call_indirect':
                effects.append(('<indirect>', None, tuple(self.op_val(fn, env, a) for a in t['args']), t['span']))
                if t.get('target') is None:
                    return
                env[t['dest']['l']] = UNK
                b = t['target']
                continue
            if k in ('drop', 'assert'):
                b = t['target']
                continue
            if k == 'switch':
                v = self.op_val(fn, env, t['discr'])
                if is_const(v):
                    x = v[1]
                    if isinstance(x, bool):
                        x = 1 if x else 0
                    if isinstance(x, str) and len(x) == 1:
                        x = ord(x)
                    tgt = t['otherwise']
                    for val, tg in t['targets']:
                        if val == x:
                            tgt = tg
                    b = tgt
                    continue
                # unknown: explore all distinct successors
                seen = []
                for _, tg in t['targets'] + [[None, t['otherwise']]]:
                    if tg in seen:
                        continue
                    seen.append(tg)
                    key = (b, tg)
                    if key in onpath:
                        results.append(UNK)
                        continue
                    self._run(fn, tg, dict(env), depth, results, effects, onpath | {key})
                return
            if k == 'unreachable':
                return
            results.append(UNK)
            return


def tabulate(prog, fn, adt_path, make_arg=None):
    """Evaluate `fn(self = each variant of adt_path)`; payload fields unknown.
    returns {variant_idx: (value, effects)}"""
    a = prog.adt(adt_path)
    out = {}
    for v in a['variants']:
        arg = ADT(a['path'], v['idx'], v['name'], [UNK for _ in v['fields']])
        it = Interp(prog)
        args = [arg] if make_arg is None else make_arg(arg)
        try:
            out[v['idx']] = it.eval_fn(fn, args)
        except Budget:
            out[v['idx']] = (UNK, [])
    return out
