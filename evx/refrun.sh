#!/bin/bash
# refrun.sh [names...]: quick rerun (no cargo test) of the checks that alarmed on the stored refactorings; prints remaining alarms
cd /verif
names="$@"
[ -z "$names" ] && names=$(ls refactors)
for n in $names; do
  ( python3 evx/refcheck.py refactors/$n/patch.diff --no-tests > /tmp/refrun_$n.json 2>&1; python3 - $n <<'PY'
import json,sys
n=sys.argv[1]
try:
    r=json.load(open('/tmp/refrun_%s.json'%n))
    a={k:v['reports'][:4] or v['tail'][-200:] for k,v in r.get('alarms',{}).items()}
    print(n, 'OK' if not a and r.get('patch_applies') else a)
except Exception as e:
    print(n,'ERR',open('/tmp/refrun_%s.json'%n).read()[-300:])
PY
  rm -f /tmp/refrun_$n.json ) &
  while [ $(jobs -r | wc -l) -ge 6 ]; do sleep 0.3; done
done
wait
