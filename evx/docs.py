"""Reads the markdown tables of the crate documentation (`//!` block of src/lib.rs and README.md).
The documentation is the oracle the properties name ("the documented precedence table"); it is
re-read from /repo on every run, so a consistent change of docs and code is not an alarm."""
import os
import re


def _unescape(cell):
    c = cell.strip()
    c = c.replace('&#124;', '|').replace('\\>', '>').replace('\\<', '<').replace('\\|', '|')
    if len(c) >= 2 and c.startswith('`') and c.endswith('`'):
        c = c[1:-1]
    return c.strip()


def crate_doc_lines(repo):
    out = []
    with open(os.path.join(repo, 'src', 'lib.rs'), encoding='utf-8') as fh:
        for line in fh:
            if line.startswith('//!'):
                out.append(line[3:].rstrip('\n').lstrip(' ') if line.startswith('//! ') else line[3:].rstrip('\n'))
    return out


def readme_lines(repo):
    p = os.path.join(repo, 'README.md')
    if not os.path.exists(p):
        return []
    with open(p, encoding='utf-8') as fh:
        return [l.rstrip('\n') for l in fh]


def tables(lines):
    """yield (header_cells, rows) for each markdown table"""
    i = 0
    n = len(lines)
    while i < n:
        l = lines[i].strip()
        if l.startswith('|') and i + 1 < n and re.match(r'^\|[\s:|-]+\|\s*$', lines[i + 1].strip()):
            header = [_unescape(c) for c in _split_row(l)]
            rows = []
            j = i + 2
            while j < n and lines[j].strip().startswith('|'):
                rows.append([_unescape(c) for c in _split_row(lines[j].strip())])
                j += 1
            yield header, rows
            i = j
        else:
            i += 1


def _split_row(l):
    # split on unescaped pipes; `\|` and &#124; stay inside a cell
    l = l.strip()
    if l.startswith('|'):
        l = l[1:]
    if l.endswith('|'):
        l = l[:-1]
    cells = re.split(r'(?<!\\)\|', l)
    return cells


class Docs:
    def __init__(self, lines):
        self.tabs = list(tables(lines))

    def operator_tables(self):
        """returns (binary: {symbol: precedence}, unary: {symbol: precedence}) from the two `Operator | Precedence` tables"""
        found = [(h, r) for h, r in self.tabs if len(h) >= 2 and h[0] == 'Operator' and h[1] == 'Precedence']
        if len(found) < 2:
            return None, None
        def conv(rows):
            d = {}
            for r in rows:
                try:
                    d[r[0]] = int(r[1])
                except (ValueError, IndexError):
                    return None
            return d
        return conv(found[0][1]), conv(found[1][1])

    def builtin_table(self):
        """{identifier: (argument amount text, argument types, description)}"""
        for h, r in self.tabs:
            if len(h) >= 2 and h[0] == 'Identifier' and h[1].startswith('Argument Amount'):
                return {row[0]: (row[1], row[2] if len(row) > 2 else '', row[3] if len(row) > 3 else '') for row in r}
        return None

    def value_type_table(self):
        for h, r in self.tabs:
            if len(h) >= 2 and h[0] == 'Value type':
                return {row[0]: row[1] for row in r}
        return None


def load(repo):
    return Docs(crate_doc_lines(repo)), Docs(readme_lines(repo))


def arity_set(text):
    """documented 'Argument Amount' -> (min, max|None)"""
    t = text.strip()
    m = re.match(r'^>=\s*(\d+)$', t)
    if m:
        return int(m.group(1)), None
    m = re.match(r'^(\d+)$', t)
    if m:
        return int(m.group(1)), int(m.group(1))
    return None
