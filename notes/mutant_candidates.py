import subprocess, shutil, os, sys
BASE='/tmp/scratch/repo'
muts = {
 'C04_empty_retypes': ('src/context/mod.rs', "            if ValueType::from(&existing_value) == ValueType::from(&value) {", "            if ValueType::from(&existing_value) == ValueType::from(&value)\n                || existing_value.is_empty()\n            {"),
 'C04_clearvars_resets_flag': ('src/context/mod.rs', "        self.variables.clear()\n", "        self.without_builtin_functions = false;\n        self.variables.clear()\n"),
 'C04_tuple_len_checked': ('src/context/mod.rs', "            if ValueType::from(&existing_value) == ValueType::from(&value) {", "            if ValueType::from(&existing_value) == ValueType::from(&value)\n                && existing_value.as_tuple().map(|t| t.len()).ok() == value.as_tuple().map(|t| t.len()).ok()\n            {"),
 'C12_guarded_payload': ('src/interface/mod.rs', """    match eval_with_context(string, context) {
        Ok(Value::Int(int)) => Ok(int),""", """    match eval_with_context(string, context) {
        Ok(Value::Int(int)) if int.clone().into_usize().is_ok() => Ok(int),"""),
 'C12_node_ctxfree_shared_builtin_off': ('src/tree/mod.rs', """    pub fn eval_tuple(&self) -> EvalexprResult<TupleType<NumericTypes>, NumericTypes> {
        self.eval_tuple_with_context_mut(&mut HashMapContext::new())""", """    pub fn eval_tuple(&self) -> EvalexprResult<TupleType<NumericTypes>, NumericTypes> {
        self.eval_tuple_with_context(&HashMapContext::new())"""),
 'C09_shadow_only_nonbuiltin': ('src/context/mod.rs', """        if let Some(function) = self.functions.get(identifier) {
            function.call(argument)""", """        if let Some(function) = self.functions.get(identifier).filter(|_| self.without_builtin_functions || crate::function::builtin::builtin_function::<NumericTypes>(identifier).is_none()) {
            function.call(argument)"""),
 'C08_opassign_read_first_ok': ('src/operator/mod.rs', "            AddAssign | SubAssign | MulAssign | DivAssign | ModAssign | ExpAssign | AndAssign\n            | OrAssign => {", "            AddAssign | SubAssign | MulAssign | DivAssign | ModAssign | ExpAssign | AndAssign\n            | OrAssign if arguments.len() == 2 && arguments[1] == Value::Empty => Ok(Value::Empty),\n            AddAssign | SubAssign | MulAssign | DivAssign | ModAssign | ExpAssign | AndAssign\n            | OrAssign => {"),
 'C14_function_mut_also_write': ('src/tree/mod.rs', """            .filter_map(|operator| match operator {
                Operator::FunctionIdentifier { identifier } => Some(identifier),""", """            .filter_map(|operator| match operator {
                Operator::FunctionIdentifier { identifier }
                | Operator::VariableIdentifierWrite { identifier } => Some(identifier),"""),
 'C03_neg_float_only_check': ('src/operator/mod.rs', "                    a.checked_neg().map(Value::Int)", "                    a.checked_neg().or_else(|_| Ok(a.clone())).map(Value::Int)"),
 'C03_exp_int_result': ('src/operator/mod.rs', """                Ok(Value::Float(
                    arguments[0].as_number()?.pow(&arguments[1].as_number()?),
                ))""", """                let result = arguments[0].as_number()?.pow(&arguments[1].as_number()?);
                if arguments[0].is_int() && arguments[1].is_int() && result.is_nan() {
                    return Ok(Value::Int(NumericTypes::float_as_int(&result)));
                }
                Ok(Value::Float(result))"""),
 'C06_hex_upper_prefix': ('src/token/mod.rs', '    if let Some(literal) = literal.strip_prefix("0x") {', '    if let Some(literal) = literal.strip_prefix("0x").or_else(|| literal.strip_prefix("0X")) {'),
 'C07_unterminated_ok': ('src/token/mod.rs', """            if !matched {
                return Err(EvalexprError::CustomMessage(
                    "unmatched inline comment".into(),
                ));
            }""", """            matched = true;"""),
 'C10_len_chars': ('src/function/builtin.rs', "                Ok(Value::Int(NumericTypes::Int::from_usize(subject.len())?))\n            } else if let Ok(subject) = argument.as_tuple() {", "                Ok(Value::Int(NumericTypes::Int::from_usize(subject.chars().count())?))\n            } else if let Ok(subject) = argument.as_tuple() {"),
 'C10_hypot_arg_dup': ('src/value/numeric_types/default_numeric_types.rs', "        (*self).hypot(*other)", "        (*other).hypot(*other)"),
 'C11_eval_assign_silent': ('src/operator/mod.rs', "            Assign | AddAssign | SubAssign | MulAssign | DivAssign | ModAssign | ExpAssign\n            | AndAssign | OrAssign => Err(EvalexprError::ContextNotMutable),", "            AndAssign | OrAssign => Ok(Value::Empty),\n            Assign | AddAssign | SubAssign | MulAssign | DivAssign | ModAssign | ExpAssign => {\n                Err(EvalexprError::ContextNotMutable)\n            },"),
}
only = sys.argv[1:] 
for name,(f,old,new) in muts.items():
    if only and name not in only: continue
    d='/tmp/scratch/mut/w'
    if os.path.exists(d): shutil.rmtree(d)
    shutil.copytree(BASE, d, ignore=shutil.ignore_patterns('target','examples'))
    p=os.path.join(d,f); s=open(p).read()
    if old not in s: print(name,'PATCH-MISS'); continue
    open(p,'w').write(s.replace(old,new,1))
    r=subprocess.run('cargo test --offline --tests --lib 2>&1', shell=True, cwd=d, capture_output=True, text=True, env=dict(os.environ, CARGO_TARGET_DIR='/tmp/scratch/mut/tgt'))
    out=r.stdout
    import re as _re
    res=_re.findall(r'test result: \w+\. (\d+) passed; (\d+) failed', out)
    comp='could not compile' in out
    failed=[l for l in out.splitlines() if l.startswith('test ') and l.endswith('FAILED')]
    passed=sum(int(a) for a,b in res); nfail=sum(int(b) for a,b in res)
    print(name, 'COMPILE-ERROR' if comp else ('PASSES-TESTS' if nfail==0 and passed>=58 else 'KILLED-BY-TESTS'), passed, nfail, failed[:3])
shutil.rmtree('/tmp/scratch/mut/w', ignore_errors=True)
