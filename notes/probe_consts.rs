#![feature(rustc_private)]
extern crate rustc_driver;
extern crate rustc_hir;
extern crate rustc_interface;
extern crate rustc_middle;
extern crate rustc_span;

use rustc_driver::{Callbacks, Compilation};
use rustc_hir::def::DefKind;
use rustc_middle::mir::{Const, ConstValue, Operand, TerminatorKind, StatementKind, Rvalue, AggregateKind};
use rustc_middle::ty::{self, TyCtxt};

struct Cb;

fn const_str<'tcx>(tcx: TyCtxt<'tcx>, c: &Const<'tcx>) -> Option<String> {
    match c {
        Const::Val(cv, ty) => {
            if let ConstValue::Slice { .. } = cv {
                if let Some(bytes) = cv.try_get_slice_bytes_for_diagnostics(tcx) {
                    return Some(format!("str:{:?} ty={}", String::from_utf8_lossy(bytes), ty));
                }
            }
            if let ConstValue::Scalar(s) = cv { return Some(format!("scalar:{:?} ty={}", s, ty)); }
            Some(format!("val:{:?}", cv))
        }
        Const::Unevaluated(u, ty) => Some(format!("uneval:{:?} ty={}", u.def, ty)),
        Const::Ty(t, c) => {
            if let Some(v) = c.try_to_value() {
                if let Some(bytes) = v.try_to_raw_bytes(tcx) { return Some(format!("vstr:{:?} ty={}", String::from_utf8_lossy(bytes), t)); }
                if let Some(s) = v.try_to_leaf() { return Some(format!("vleaf:{:?} ty={}", s, t)); }
            }
            Some(format!("tyconst:{:?} {:?}", t, c))
        }
    }
}

impl Callbacks for Cb {
    fn after_analysis<'tcx>(&mut self, _c: &rustc_interface::interface::Compiler, tcx: TyCtxt<'tcx>) -> Compilation {
        let want = std::env::var("EVX_FN").unwrap_or_default();
        for ldid in tcx.mir_keys(()) {
            let did = ldid.to_def_id();
            if !matches!(tcx.def_kind(did), DefKind::Fn | DefKind::AssocFn | DefKind::Closure) { continue; }
            let path = tcx.def_path_str(did);
            if !want.split(',').any(|w| !w.is_empty() && path.contains(w)) { continue; }
            let body = tcx.optimized_mir(did);
            println!("== {}", path);
            for (bb, data) in body.basic_blocks.iter_enumerated() {
                for st in &data.statements {
                    if let StatementKind::Assign(b) = &st.kind {
                        match &b.1 {
                            Rvalue::Use(Operand::Constant(c), ..) => println!("  {:?}: {:?} = CONST {}", bb, b.0, const_str(tcx, &c.const_).unwrap_or_default()),
                            Rvalue::Aggregate(k, ops) => if let AggregateKind::Adt(adt, vidx, _, _, _) = &**k {
                                let ad = tcx.adt_def(*adt);
                                println!("  {:?}: {:?} = AGG {}::{} ({} ops)", bb, b.0, tcx.def_path_str(*adt), ad.variant(*vidx).name, ops.len());
                            },
                            _ => {}
                        }
                    }
                }
                if let TerminatorKind::Call { func, args, .. } = &data.terminator().kind {
                    if let Some((cd, _)) = func.const_fn_def() {
                        let cs: Vec<String> = args.iter().filter_map(|a| if let Operand::Constant(c) = &a.node { const_str(tcx, &c.const_) } else { None }).collect();
                        if !cs.is_empty() { println!("  {:?}: CALL {} consts={:?}", bb, tcx.def_path_str(cd), cs); }
                    }
                }
            }
        }
        // assoc const values
        for id in tcx.hir_crate_items(()).definitions() {
            let d = id.to_def_id();
            if matches!(tcx.def_kind(d), DefKind::AssocConst { .. }) && matches!(tcx.def_kind(tcx.parent(d)), DefKind::Impl { .. }) {
                let r = tcx.const_eval_poly(d);
                println!("ASSOC {} = {:?}", tcx.def_path_str(d), r.map(|v| format!("{:?}", v)));
            }
        }
        let _ = ty::List::<ty::GenericArg>::empty();
        Compilation::Continue
    }
}

fn main() {
    let mut args: Vec<String> = std::env::args().collect();
    if args.len() > 1 && args[1].ends_with("rustc") { args.remove(1); }
    rustc_driver::run_compiler(&args, &mut Cb);
}
