#![feature(rustc_private)]
extern crate rustc_driver;
extern crate rustc_hir;
extern crate rustc_interface;
extern crate rustc_middle;
extern crate rustc_span;

use rustc_driver::{Callbacks, Compilation};
use rustc_hir::def::DefKind;
use rustc_hir::def_id::DefId;
use rustc_middle::mir::{TerminatorKind, StatementKind, Rvalue, AggregateKind};
use rustc_middle::ty::{self, EarlyBinder, GenericArgs, Instance, InstanceKind, Ty, TyCtxt, TypingEnv};
use std::collections::{BTreeMap, BTreeSet, HashMap, HashSet};

struct Cb;


struct W<'tcx> {
    tcx: TyCtxt<'tcx>,
    memo: HashMap<Instance<'tcx>, BTreeSet<String>>,
    onstack: HashSet<Instance<'tcx>>,
    edges: BTreeMap<String, BTreeSet<String>>, // direct external callee path -> leaves
    edge_sites: BTreeMap<String, BTreeSet<String>>,
    local_leaves: BTreeSet<String>,
    n_inst: usize,
}

fn trusted_class(leaf: &str) -> bool {
    leaf.contains("precondition_check") || leaf.contains("alloc::raw_vec::handle_error") || leaf.contains("handle_alloc_error") || leaf.contains("capacity_overflow") || leaf.contains("ub_checks")
}

impl<'tcx> W<'tcx> {
    fn summary(&mut self, inst: Instance<'tcx>) -> BTreeSet<String> {
        if let Some(s) = self.memo.get(&inst) { return s.clone(); }
        if !self.onstack.insert(inst) { return BTreeSet::new(); }
        self.n_inst += 1;
        let tcx = self.tcx;
        let did = inst.def_id();
        let mut out = BTreeSet::new();
        let avail = match inst.def {
            InstanceKind::Item(_) => tcx.is_mir_available(did),
            InstanceKind::Intrinsic(_) => false,
            InstanceKind::Virtual(..) => false,
            _ => true,
        };
        if !avail {
            out.insert(format!("OPAQUE {}", tcx.def_path_str(did)));
        } else {
            let body = tcx.instance_mir(inst.def);
            let tenv = TypingEnv::fully_monomorphized();
            let is_local = did.is_local();
            for data in body.basic_blocks.iter() {
                for st in data.statements.iter() {
                    if let StatementKind::Assign(b) = &st.kind {
                        if let Rvalue::Aggregate(k, _) = &b.1 {
                            if let AggregateKind::Closure(cdid, cargs) = &**k {
                                let cargs = inst.instantiate_mir_and_normalize_erasing_regions(tcx, tenv, EarlyBinder::bind(*cargs));
                                let ci = Instance::resolve_closure(tcx, *cdid, cargs, ty::ClosureKind::FnOnce);
                                let sub = self.summary(ci);
                                if !is_local { out.extend(sub); }
                            }
                        }
                    }
                }
                let term = data.terminator();
                let site = tcx.sess.source_map().span_to_diagnostic_string(term.source_info.span);
                match &term.kind {
                    TerminatorKind::Assert { msg, .. } => {
                        let k = format!("{:?}", msg); let k = k.split(|c| c=='(' || c=='{' || c==' ').next().unwrap().to_string();
                        if k.contains("Pointer") { continue; }
                        if is_local { self.local_leaves.insert(format!("ASSERT {} @ {} {}", k, tcx.def_path_str(did), site)); }
                        else { out.insert(format!("ASSERT {} in {}", k, tcx.def_path_str(did))); }
                    }
                    TerminatorKind::Call { func, .. } => {
                        let fty = func.ty(body, tcx);
                        let fty = inst.instantiate_mir_and_normalize_erasing_regions(tcx, tenv, EarlyBinder::bind(fty));
                        if let ty::FnDef(cd, ca) = fty.kind() {
                            let sig_never = tcx.fn_sig(*cd).instantiate_identity().skip_binder().output().is_never();
                            if sig_never {
                                if is_local { self.local_leaves.insert(format!("DIVERGE {} @ {} {}", tcx.def_path_str(*cd), tcx.def_path_str(did), site)); }
                                else { out.insert(format!("DIVERGE {} in {}", tcx.def_path_str(*cd), tcx.def_path_str(did))); }
                                continue;
                            }
                            match Instance::try_resolve(tcx, tenv, *cd, ca) {
                                Ok(Some(ci)) => {
                                    let sub = self.summary(ci);
                                    if is_local {
                                        if !ci.def_id().is_local() {
                                            let key = tcx.def_path_str(ci.def_id());
                                            let e = self.edges.entry(key.clone()).or_default();
                                            for l in &sub { if !trusted_class(l) { e.insert(l.clone()); } }
                                            self.edge_sites.entry(key).or_default().insert(format!("{} {}", tcx.def_path_str(did), site));
                                        }
                                    } else {
                                        out.extend(sub);
                                    }
                                }
                                _ => { out.insert(format!("UNRESOLVED {}", tcx.def_path_str_with_args(*cd, ca))); }
                            }
                        } else {
                            out.insert(format!("INDIRECT call in {}", tcx.def_path_str(did)));
                        }
                    }
                    _ => {}
                }
            }
        }
        self.onstack.remove(&inst);
        self.memo.insert(inst, out.clone());
        out
    }
}

fn find_adt<'tcx>(tcx: TyCtxt<'tcx>, name: &str) -> DefId {
    for id in tcx.hir_crate_items(()).definitions() {
        let d = id.to_def_id();
        if matches!(tcx.def_kind(d), DefKind::Struct) && tcx.item_name(d).as_str() == name { return d; }
    }
    panic!("no adt {}", name)
}

impl Callbacks for Cb {
    fn after_analysis<'tcx>(&mut self, _c: &rustc_interface::interface::Compiler, tcx: TyCtxt<'tcx>) -> Compilation {
        let dnt = find_adt(tcx, "DefaultNumericTypes");
        let hmc = find_adt(tcx, "HashMapContext");
        let dnt_ty = Ty::new_adt(tcx, tcx.adt_def(dnt), GenericArgs::empty());
        let hmc_ty = Ty::new_adt(tcx, tcx.adt_def(hmc), tcx.mk_args(&[dnt_ty.into()]));
        let stops: Vec<String> = std::env::var("EVX_STOPS").unwrap_or_default().split(',').filter(|s| !s.is_empty()).map(|s| s.to_string()).collect();
        let _ = stops; let mut w = W { tcx, memo: HashMap::new(), onstack: HashSet::new(), edges: BTreeMap::new(), edge_sites: BTreeMap::new(), local_leaves: BTreeSet::new(), n_inst: 0 };
        let mut roots = 0; let mut skipped = vec![];
        for ldid in tcx.mir_keys(()) {
            let did = ldid.to_def_id();
            if !matches!(tcx.def_kind(did), DefKind::Fn | DefKind::AssocFn) { continue; }
            let mut ok = true;
            let args = GenericArgs::for_item(tcx, did, |param, _| {
                match param.kind {
                    ty::GenericParamDefKind::Lifetime => tcx.lifetimes.re_erased.into(),
                    ty::GenericParamDefKind::Type { .. } => match param.name.as_str() {
                        "NumericTypes" => dnt_ty.into(),
                        "C" => hmc_ty.into(),
                        _ => { ok = false; dnt_ty.into() }
                    },
                    _ => { ok = false; dnt_ty.into() }
                }
            });
            if !ok { skipped.push(tcx.def_path_str(did)); continue; }
            if let Ok(f) = std::env::var("EVX_ROOT") { if !tcx.def_path_str(did).contains(&f) { continue; } }
            let inst = Instance::new_raw(did, args);
            roots += 1;
            w.summary(inst);
        }
        eprintln!("roots={} skipped={:?} instances={}", roots, skipped, w.n_inst);
        if std::env::var("EVX_ROOT").is_ok() { let mut v: Vec<String> = w.memo.keys().map(|i| tcx.def_path_str(i.def_id())).collect(); v.sort(); v.dedup(); for x in v { println!("REACH\t{}", x); } }
        for l in &w.local_leaves { println!("LOCAL\t{}", l); }
        for (k, v) in &w.edges { println!("EDGE\t{}\t{}\t{:?}", k, w.edge_sites[k].len(), v); }
        Compilation::Continue
    }
}

fn main() {
    let mut args: Vec<String> = std::env::args().collect();
    if args.len() > 1 && args[1].ends_with("rustc") { args.remove(1); }
    rustc_driver::run_compiler(&args, &mut Cb);
}
